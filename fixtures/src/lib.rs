//! Positive examples for the zero-expected rules: every detector that is expected to find
//! *nothing* in grenad must find its construct here on every run, otherwise the check fails
//! (a rule that matches nothing anywhere cannot pass silently). Never executed.
#![allow(dead_code, unused)]

use std::collections::HashMap;
use std::io::{self, Read, Seek, SeekFrom, Write};

/// C11-R1: a raw `write` whose count is dropped
pub fn raw_write<W: Write>(mut w: W, buf: &[u8]) -> io::Result<()> {
    w.write(buf)?;
    Ok(())
}

/// C11-R3: a raw `read` in place of `read_exact`
pub fn raw_read<R: Read>(mut r: R, buf: &mut [u8]) -> io::Result<usize> {
    r.read(buf)
}

/// C01-R9: a call that fills a `&mut [u8]` and reports the length produced, with that length dropped
pub fn fill_len_dropped<R: Read>(mut r: R) -> io::Result<Vec<u8>> {
    let mut buffer = vec![0; 64];
    r.read(&mut buffer)?;
    Ok(buffer)
}
/// ... and the same with the length used (must not be reported)
pub fn fill_len_used<R: Read>(mut r: R) -> io::Result<Vec<u8>> {
    let mut buffer = vec![0; 64];
    let n = r.read(&mut buffer)?;
    buffer.truncate(n);
    Ok(buffer)
}

/// C11-R5: iteration order of a hash map
pub fn hash_order(m: &HashMap<u32, u32>) -> Vec<u32> {
    m.keys().copied().collect()
}

/// C09-R5: a native-endian conversion
pub fn native_endian(x: u64) -> [u8; 8] {
    x.to_ne_bytes()
}

/// C12-R1: an io::Result that is dropped / turned into an Option / ignored
pub fn dropped_result<W: Write>(mut w: W) {
    let _ = w.flush();
}
pub fn ok_result<S: Seek>(mut s: S) -> Option<u64> {
    s.seek(SeekFrom::Start(0)).ok()
}
pub fn is_ok_result<W: Write>(mut w: W) -> bool {
    w.flush().is_ok()
}
pub fn if_let_ok<R: Read>(mut r: R, buf: &mut Vec<u8>) -> usize {
    if let Ok(n) = r.read_to_end(buf) {
        n
    } else {
        0
    }
}

/// C12-R2: unwrap on a component's error
pub fn unwrap_io<W: Write>(mut w: W) {
    w.flush().unwrap();
}
pub fn expect_io<W: Write>(mut w: W) {
    w.flush().expect("flush");
}

/// C17-R7: arithmetic on a freshly truncated value
pub fn trunc_then_sub(v: &Vec<u8>) -> u8 {
    v.len() as u8 - 1
}
pub fn trunc_then_add(n: u64) -> u32 {
    n as u32 + 1
}

/// C17-R1: an unsafe impl, a raw deref, a static mut
pub struct Wrapper(*mut u8);
unsafe impl Send for Wrapper {}
pub fn raw_deref(p: *const u8) -> u8 {
    unsafe { *p }
}
static mut COUNTER: u32 = 0;
pub fn bump() -> u32 {
    unsafe {
        COUNTER += 1;
        COUNTER
    }
}

/// C13-R1: panics on untrusted input at open time
pub fn index_untrusted(b: &[u8], i: usize) -> u8 {
    b[i]
}
pub fn explicit_panic(x: u32) -> u32 {
    if x == 7 {
        panic!("seven");
    }
    x
}

/// C16: a loop around a "load"
pub fn load(x: u64) -> u64 {
    x
}
pub fn scan_loads(n: u64) -> u64 {
    let mut s = 0;
    let mut i = 0;
    while i < n {
        s += load(i);
        i += 1;
    }
    s
}
