//! factgen — rustc_private driver that serialises the type-checked program (items, types,
//! constants, MIR with resolved callees, HIR unsafety) of every crate named in
//! FACTGEN_CRATES to one JSON fact file per rustc process. Used as RUSTC_WRAPPER.
//!
//! Nothing of the analysed crate is executed; the driver stops after analysis for the
//! target crates (it still lets rustc emit metadata so dependants can be checked).

#![feature(rustc_private)]
#![allow(clippy::too_many_lines)]

extern crate rustc_abi;
extern crate rustc_ast;
extern crate rustc_data_structures;
extern crate rustc_driver;
extern crate rustc_hir;
extern crate rustc_interface;
extern crate rustc_middle;
extern crate rustc_session;
extern crate rustc_span;

mod json;

use json::J;
use rustc_driver::{Callbacks, Compilation};
use rustc_hir::def::DefKind;
use rustc_hir::def_id::{DefId, LocalDefId};
use rustc_hir::intravisit::{self, Visitor};
use rustc_interface::interface::Compiler;
use rustc_middle::mir::{
    self, AggregateKind, AssertKind, BinOp, Body, BorrowKind, CastKind, ConstOperand, Operand,
    Place, PlaceElem, PlaceRef, Rvalue, StatementKind, TerminatorKind, UnOp, UnwindAction,
};
use rustc_middle::ty::print::with_no_trimmed_paths;
use rustc_middle::ty::{self, Instance, Ty, TyCtxt, TypingEnv};
use rustc_span::Span;
use std::process::Command;

fn main() {
    let mut args: Vec<String> = std::env::args().collect();
    // Invoked as RUSTC_WRAPPER / RUSTC_WORKSPACE_WRAPPER: argv[1] is the real rustc.
    if args.len() < 2 {
        eprintln!("factgen: expected to be used as RUSTC_WRAPPER");
        std::process::exit(2);
    }
    let real_rustc = args.remove(1);
    let crate_name = arg_value(&args, "--crate-name");
    let wanted: Vec<String> = std::env::var("FACTGEN_CRATES")
        .unwrap_or_else(|_| "grenad".to_string())
        .split(',')
        .map(|s| s.trim().to_string())
        .collect();
    let is_test = args.iter().any(|a| a == "--test");
    let out_dir = std::env::var("FACTGEN_OUT").ok();
    let target = match (&crate_name, &out_dir) {
        (Some(n), Some(_)) => wanted.iter().any(|w| w == n) && !is_test,
        _ => false,
    };
    if !target {
        let status = Command::new(&real_rustc).args(&args[1..]).status();
        match status {
            Ok(s) => std::process::exit(s.code().unwrap_or(1)),
            Err(e) => {
                eprintln!("factgen: cannot exec {real_rustc}: {e}");
                std::process::exit(2);
            }
        }
    }
    let mut cb = FactCallbacks {
        out_dir: out_dir.unwrap(),
        crate_name: crate_name.unwrap(),
        pkg_version: std::env::var("CARGO_PKG_VERSION").unwrap_or_default(),
        manifest_dir: std::env::var("CARGO_MANIFEST_DIR").unwrap_or_default(),
        nonce: std::env::var("FACTGEN_NONCE").unwrap_or_default(),
        config: std::env::var("FACTGEN_CONFIG").unwrap_or_default(),
    };
    rustc_driver::run_compiler(&args, &mut cb);
}

fn arg_value(args: &[String], name: &str) -> Option<String> {
    let mut it = args.iter();
    while let Some(a) = it.next() {
        if a == name {
            return it.next().cloned();
        }
        if let Some(rest) = a.strip_prefix(&format!("{name}=")) {
            return Some(rest.to_string());
        }
    }
    None
}

struct FactCallbacks {
    out_dir: String,
    crate_name: String,
    pkg_version: String,
    manifest_dir: String,
    nonce: String,
    config: String,
}

impl Callbacks for FactCallbacks {
    fn after_analysis<'tcx>(&mut self, _compiler: &Compiler, tcx: TyCtxt<'tcx>) -> Compilation {
        let facts = with_no_trimmed_paths!(collect(tcx, self));
        let mut out = String::with_capacity(1 << 22);
        facts.write(&mut out);
        let path = format!(
            "{}/{}-{}.json",
            self.out_dir,
            self.crate_name,
            if self.pkg_version.is_empty() { "0" } else { &self.pkg_version }
        );
        // single write per process
        if let Err(e) = std::fs::write(&path, out) {
            eprintln!("factgen: cannot write {path}: {e}");
            std::process::exit(2);
        }
        Compilation::Continue
    }
}

fn collect<'tcx>(tcx: TyCtxt<'tcx>, cb: &FactCallbacks) -> J {
    let mut bodies = Vec::new();
    for ldid in tcx.hir_body_owners() {
        let kind = tcx.def_kind(ldid);
        match kind {
            DefKind::Fn | DefKind::AssocFn | DefKind::Closure => {
                let body = tcx.optimized_mir(ldid.to_def_id());
                bodies.push(body_json(tcx, ldid, body, kind));
            }
            DefKind::Const { .. } | DefKind::AssocConst { .. } | DefKind::Static { .. } => {
                let body = tcx.mir_for_ctfe(ldid.to_def_id());
                bodies.push(body_json(tcx, ldid, body, kind));
            }
            _ => {}
        }
    }
    let (adts, impls, traits, fns, consts) = items_json(tcx);
    let unsafety = unsafety_json(tcx);
    J::obj()
        .fs("crate", cb.crate_name.clone())
        .fs("version", cb.pkg_version.clone())
        .fs("manifest_dir", cb.manifest_dir.clone())
        .fs("nonce", cb.nonce.clone())
        .fs("config", cb.config.clone())
        .f("adts", J::Arr(adts))
        .f("impls", J::Arr(impls))
        .f("traits", J::Arr(traits))
        .f("fns", J::Arr(fns))
        .f("consts", J::Arr(consts))
        .f("unsafety", unsafety)
        .f("bodies", J::Arr(bodies))
        .done()
}

// ---------------------------------------------------------------------------------------
// spans

fn span_json(tcx: TyCtxt<'_>, span: Span) -> J {
    let sm = tcx.sess.source_map();
    // the call-site in user code (outermost expansion site)
    let root = span.source_callsite();
    let loc = sm.lookup_char_pos(root.lo());
    let file = match &loc.file.name {
        rustc_span::FileName::Real(r) => match r.local_path() {
            Some(p) => p.to_string_lossy().to_string(),
            None => format!("{:?}", loc.file.name),
        },
        other => format!("{other:?}"),
    };
    let mut macros = Vec::new();
    for exp in span.macro_backtrace() {
        match exp.kind {
            rustc_span::ExpnKind::Macro(_, name) => macros.push(J::s(name.to_string())),
            rustc_span::ExpnKind::Desugaring(d) => macros.push(J::s(format!("desugar:{d:?}"))),
            rustc_span::ExpnKind::AstPass(p) => macros.push(J::s(format!("astpass:{p:?}"))),
            rustc_span::ExpnKind::Root => {}
        }
    }
    let mut o = J::obj().fs("file", file).fn_("line", loc.line as i128);
    if !macros.is_empty() {
        o = o.f("macros", J::Arr(macros));
    }
    // a short source snippet of the innermost span (display only, never matched by rules)
    if let Ok(snip) = sm.span_to_snippet(root) {
        let mut s: String = snip.split_whitespace().collect::<Vec<_>>().join(" ");
        if s.len() > 160 {
            let mut cut = 160;
            while !s.is_char_boundary(cut) {
                cut -= 1;
            }
            s.truncate(cut);
        }
        o = o.fs("src", s);
    }
    o.done()
}

// ---------------------------------------------------------------------------------------
// MIR

fn body_json<'tcx>(tcx: TyCtxt<'tcx>, ldid: LocalDefId, body: &Body<'tcx>, kind: DefKind) -> J {
    let def_id = ldid.to_def_id();
    let typing_env = TypingEnv::post_analysis(tcx, def_id);
    let cx = Cx { tcx, body, typing_env };

    let mut locals = Vec::new();
    for (_l, decl) in body.local_decls.iter_enumerated() {
        locals.push(J::obj().fs("ty", ty_str(decl.ty)).done());
    }
    let mut names = Vec::new();
    for vdi in &body.var_debug_info {
        if let mir::VarDebugInfoContents::Place(p) = vdi.value {
            names.push(
                J::obj().fs("name", vdi.name.to_string()).f("place", cx.place(p.as_ref())).done(),
            );
        }
    }
    let mut blocks = Vec::new();
    for (_bb, data) in body.basic_blocks.iter_enumerated() {
        let mut stmts = Vec::new();
        for st in &data.statements {
            if let Some(j) = cx.stmt(st) {
                stmts.push(j);
            }
        }
        let term = data.terminator();
        blocks.push(
            J::obj()
                .f("stmts", J::Arr(stmts))
                .f("term", cx.term(term))
                .fb("cleanup", data.is_cleanup)
                .done(),
        );
    }
    let mut o = J::obj()
        .fs("path", tcx.def_path_str(def_id))
        .fs("kind", format!("{kind:?}"))
        .f("span", span_json(tcx, tcx.def_span(def_id)))
        .fn_("arg_count", body.arg_count as i128)
        .f("locals", J::Arr(locals))
        .f("names", J::Arr(names))
        .f("blocks", J::Arr(blocks));
    if matches!(kind, DefKind::Closure) {
        o = o.fs("parent", tcx.def_path_str(tcx.typeck_root_def_id(def_id)));
    }
    o.done()
}

fn ty_str(ty: Ty<'_>) -> String {
    format!("{ty}")
}

struct Cx<'a, 'tcx> {
    tcx: TyCtxt<'tcx>,
    body: &'a Body<'tcx>,
    typing_env: TypingEnv<'tcx>,
}

impl<'a, 'tcx> Cx<'a, 'tcx> {
    fn place(&self, p: PlaceRef<'tcx>) -> J {
        let mut proj = Vec::new();
        let mut pty = mir::PlaceTy::from_ty(self.body.local_decls[p.local].ty);
        for elem in p.projection.iter() {
            let j = match elem {
                PlaceElem::Deref => J::s("*"),
                PlaceElem::Field(f, fty) => {
                    let mut o = J::obj().fn_("f", f.as_u32() as i128).fs("ty", ty_str(*fty));
                    if let ty::Adt(adt, _) = pty.ty.kind() {
                        let vidx = pty.variant_index.unwrap_or(rustc_abi::FIRST_VARIANT);
                        if vidx.as_usize() < adt.variants().len() {
                            let v = adt.variant(vidx);
                            if f.as_usize() < v.fields.len() {
                                o = o
                                    .fs("name", v.fields[*f].name.to_string())
                                    .fs("adt", self.tcx.def_path_str(adt.did()));
                                if adt.is_enum() {
                                    o = o.fs("variant", v.name.to_string());
                                }
                            }
                        }
                    } else if let ty::Tuple(_) = pty.ty.kind() {
                        o = o.fs("adt", ty_str(pty.ty));
                    } else if let ty::Closure(..) = pty.ty.kind() {
                        o = o.fs("adt", "closure");
                    }
                    o.done()
                }
                PlaceElem::Index(l) => J::obj().fn_("index", l.as_u32() as i128).done(),
                PlaceElem::ConstantIndex { offset, min_length, from_end } => J::obj()
                    .fn_("cindex", *offset as i128)
                    .fn_("min_length", *min_length as i128)
                    .fb("from_end", *from_end)
                    .done(),
                PlaceElem::Subslice { from, to, from_end } => J::obj()
                    .fn_("subslice_from", *from as i128)
                    .fn_("to", *to as i128)
                    .fb("from_end", *from_end)
                    .done(),
                PlaceElem::Downcast(name, vidx) => J::obj()
                    .fs("downcast", name.map(|n| n.to_string()).unwrap_or_default())
                    .fn_("vidx", vidx.as_u32() as i128)
                    .done(),
                PlaceElem::OpaqueCast(t) => J::obj().fs("opaque_cast", ty_str(*t)).done(),
                PlaceElem::UnwrapUnsafeBinder(t) => J::obj().fs("unwrap_binder", ty_str(*t)).done(),
            };
            proj.push(j);
            pty = pty.projection_ty(self.tcx, *elem);
        }
        J::obj().fn_("l", p.local.as_u32() as i128).f("p", J::Arr(proj)).fs("ty", ty_str(pty.ty)).done()
    }

    fn operand(&self, op: &Operand<'tcx>) -> J {
        match op {
            Operand::Copy(p) => J::obj().fs("k", "copy").f("pl", self.place(p.as_ref())).done(),
            Operand::Move(p) => J::obj().fs("k", "move").f("pl", self.place(p.as_ref())).done(),
            Operand::Constant(c) => self.constant(c),
            #[allow(unreachable_patterns)]
            _ => J::obj().fs("k", "other").fs("dbg", format!("{op:?}")).done(),
        }
    }

    fn constant(&self, c: &ConstOperand<'tcx>) -> J {
        let ty = c.const_.ty();
        let mut o = J::obj().fs("k", "const").fs("ty", ty_str(ty));
        match ty.kind() {
            ty::FnDef(def_id, args) => {
                o = o.f("fn", self.fn_ref(*def_id, args));
            }
            _ => {
                if let Some(si) = c.const_.try_eval_scalar_int(self.tcx, self.typing_env) {
                    let size = si.size();
                    let bits = si.to_bits(size);
                    o = o.f("bits", J::Str(bits.to_string())).fn_("size", size.bytes() as i128);
                    if ty.is_signed() {
                        let v = size.sign_extend(bits);
                        o = o.f("int", J::Str(v.to_string()));
                    } else {
                        o = o.f("int", J::Str(bits.to_string()));
                    }
                } else {
                    let mut s = format!("{}", c.const_);
                    if s.len() > 200 {
                        s.truncate(200);
                    }
                    o = o.fs("text", s);
                    // small constant tables (arrays of integers / field-less enums, also behind a
                    // reference as promoted constants are): their bytes, so that rules can read the table
                    if let Some(v) = self.const_unit_variant(c, ty) {
                        o = o.fs("variant", v);
                    }
                    if let Some((bytes, elem, n)) = self.const_table(c, ty) {
                        o = o
                            .f("bytes", J::Arr(bytes.iter().map(|b| J::Num(*b as i128)).collect()))
                            .fs("elem_ty", elem)
                            .fn_("len", n as i128);
                    }
                }
            }
        }
        o.done()
    }

    /// a constant of a field-less enum type (also behind a reference, as promoted constants are):
    /// the name of the variant it denotes
    fn const_unit_variant(&self, c: &ConstOperand<'tcx>, ty: Ty<'tcx>) -> Option<String> {
        use rustc_middle::mir::ConstValue;
        let tcx = self.tcx;
        let (ety, by_ref) = match ty.kind() {
            ty::Ref(_, inner, _) => (*inner, true),
            _ => (ty, false),
        };
        let adt = match ety.kind() {
            ty::Adt(def, _) if def.is_enum() && def.variants().iter().all(|v| v.fields.is_empty()) => *def,
            _ => return None,
        };
        let size = tcx.layout_of(self.typing_env.as_query_input(ety)).ok()?.size.bytes();
        if size == 0 || size > 8 {
            return None;
        }
        let val = c.const_.eval(tcx, self.typing_env, c.span).ok()?;
        let bits: u128 = match val {
            ConstValue::Scalar(rustc_middle::mir::interpret::Scalar::Int(si)) if !by_ref => si.to_bits(si.size()),
            ConstValue::Scalar(rustc_middle::mir::interpret::Scalar::Ptr(ptr, _)) if by_ref => {
                let (prov, off) = ptr.into_raw_parts();
                let mem = match tcx.global_alloc(prov.alloc_id()) {
                    rustc_middle::mir::interpret::GlobalAlloc::Memory(m) => m,
                    _ => return None,
                };
                let start = off.bytes() as usize;
                let end = start + size as usize;
                let inner = mem.inner();
                if end > inner.len() {
                    return None;
                }
                let bytes = inner.inspect_with_uninit_and_ptr_outside_interpreter(start..end);
                let mut v: u128 = 0;
                for (i, b) in bytes.iter().enumerate() {
                    v |= (*b as u128) << (8 * i);
                }
                v
            }
            _ => return None,
        };
        let mask: u128 = if size >= 16 { u128::MAX } else { (1u128 << (8 * size)) - 1 };
        for (idx, d) in adt.discriminants(tcx) {
            if d.val & mask == bits & mask {
                return Some(adt.variant(idx).name.to_string());
            }
        }
        None
    }

    fn const_table(&self, c: &ConstOperand<'tcx>, ty: Ty<'tcx>) -> Option<(Vec<u8>, String, u64)> {
        use rustc_middle::mir::ConstValue;
        let tcx = self.tcx;
        let (arr_ty, by_ref) = match ty.kind() {
            ty::Ref(_, inner, _) => (*inner, true),
            _ => (ty, false),
        };
        let (elem, n) = match arr_ty.kind() {
            ty::Array(elem, len) => (*elem, len.try_to_target_usize(tcx)?),
            _ => return None,
        };
        let esize = tcx.layout_of(self.typing_env.as_query_input(elem)).ok()?.size.bytes();
        let total = esize.checked_mul(n)?;
        if total == 0 || total > 4096 {
            return None;
        }
        let val = c.const_.eval(tcx, self.typing_env, c.span).ok()?;
        let (alloc_id, offset) = match val {
            ConstValue::Indirect { alloc_id, offset } if !by_ref => (alloc_id, offset),
            ConstValue::Scalar(rustc_middle::mir::interpret::Scalar::Ptr(ptr, _)) if by_ref => {
                let (prov, off) = ptr.into_raw_parts();
                (prov.alloc_id(), off)
            }
            _ => return None,
        };
        let mem = match tcx.global_alloc(alloc_id) {
            rustc_middle::mir::interpret::GlobalAlloc::Memory(m) => m,
            _ => return None,
        };
        let start = offset.bytes() as usize;
        let end = start + total as usize;
        let inner = mem.inner();
        if end > inner.len() {
            return None;
        }
        let bytes = inner.inspect_with_uninit_and_ptr_outside_interpreter(start..end).to_vec();
        Some((bytes, ty_str(elem), n))
    }

    fn fn_ref(&self, def_id: DefId, args: ty::GenericArgsRef<'tcx>) -> J {
        let tcx = self.tcx;
        let mut o = J::obj()
            .fs("path", tcx.def_path_str(def_id))
            .fs("inst", tcx.def_path_str_with_args(def_id, args))
            .f("args", J::Arr(args.iter().map(|a| J::s(format!("{a}"))).collect()))
            .fb("local", def_id.is_local());
        // Which trait (if any) does the callee belong to
        if let Some(tr) = tcx.trait_of_assoc(def_id) {
            o = o.fs("trait", tcx.def_path_str(tr));
        }
        // resolved instance (trait method -> impl method) when types are known
        if let Ok(Some(inst)) = Instance::try_resolve(tcx, self.typing_env, def_id, args) {
            let rid = inst.def_id();
            if rid != def_id {
                o = o
                    .fs("resolved", tcx.def_path_str(rid))
                    .fs("resolved_inst", tcx.def_path_str_with_args(rid, inst.args))
                    .fb("resolved_local", rid.is_local());
            }
            if let ty::InstanceKind::Intrinsic(_) = inst.def {
                o = o.fb("intrinsic", true);
            }
        }
        // evaluate size_of / align_of style calls on concrete types
        let p = tcx.def_path_str(def_id);
        if (p.ends_with("mem::size_of") || p.ends_with("mem::align_of")) && args.len() == 1 {
            if let Some(t) = args[0].as_type() {
                if let Ok(layout) = tcx.layout_of(self.typing_env.as_query_input(t)) {
                    let v = if p.ends_with("size_of") {
                        layout.size.bytes() as i128
                    } else {
                        layout.align.abi.bytes() as i128
                    };
                    o = o.fn_("value", v);
                }
            }
        }
        let sig = tcx.fn_sig(def_id).instantiate_identity().skip_norm_wip();
        o = o.fb("unsafe", sig.safety().is_unsafe());
        o.done()
    }

    fn rvalue(&self, rv: &Rvalue<'tcx>) -> J {
        match rv {
            Rvalue::Use(op, ..) => J::obj().fs("rv", "use").f("op", self.operand(op)).done(),
            Rvalue::Repeat(op, n) => {
                let mut o = J::obj().fs("rv", "repeat").f("op", self.operand(op));
                if let Some(v) = n.try_to_target_usize(self.tcx) {
                    o = o.fn_("n", v as i128);
                }
                o.done()
            }
            Rvalue::Ref(_, bk, p) => J::obj()
                .fs("rv", "ref")
                .fs(
                    "bk",
                    match bk {
                        BorrowKind::Shared => "shared",
                        BorrowKind::Fake(_) => "fake",
                        BorrowKind::Mut { .. } => "mut",
                    },
                )
                .f("pl", self.place(p.as_ref()))
                .done(),
            Rvalue::ThreadLocalRef(d) => {
                J::obj().fs("rv", "tls").fs("path", self.tcx.def_path_str(*d)).done()
            }
            Rvalue::RawPtr(k, p) => J::obj()
                .fs("rv", "rawptr")
                .fs("bk", format!("{k:?}"))
                .f("pl", self.place(p.as_ref()))
                .done(),
            Rvalue::Cast(kind, op, ty) => {
                let from = op.ty(self.body, self.tcx);
                J::obj()
                    .fs("rv", "cast")
                    .fs("ck", cast_kind_str(kind))
                    .f("op", self.operand(op))
                    .fs("from", ty_str(from))
                    .fs("to", ty_str(*ty))
                    .done()
            }
            Rvalue::BinaryOp(op, ab) => J::obj()
                .fs("rv", "bin")
                .fs("op", binop_str(*op))
                .f("a", self.operand(&ab.0))
                .f("b", self.operand(&ab.1))
                .done(),
            Rvalue::UnaryOp(op, a) => J::obj()
                .fs(
                    "rv",
                    "un",
                )
                .fs(
                    "op",
                    match op {
                        UnOp::Not => "Not".to_string(),
                        UnOp::Neg => "Neg".to_string(),
                        UnOp::PtrMetadata => "PtrMetadata".to_string(),
                    },
                )
                .f("a", self.operand(a))
                .done(),
            Rvalue::Discriminant(p) => {
                J::obj().fs("rv", "discr").f("pl", self.place(p.as_ref())).done()
            }
            Rvalue::Aggregate(kind, ops) => {
                let mut o = J::obj().fs("rv", "agg");
                match &**kind {
                    AggregateKind::Array(t) => {
                        o = o.fs("ak", "array").fs("elem", ty_str(*t));
                    }
                    AggregateKind::Tuple => {
                        o = o.fs("ak", "tuple");
                    }
                    AggregateKind::Adt(did, vidx, args, _, active) => {
                        let adt = self.tcx.adt_def(*did);
                        let v = adt.variant(*vidx);
                        o = o
                            .fs("ak", "adt")
                            .fs("adt", self.tcx.def_path_str(*did))
                            .fs("adt_inst", self.tcx.def_path_str_with_args(*did, args))
                            .fs("variant", v.name.to_string())
                            .fn_("vidx", vidx.as_u32() as i128)
                            .f(
                                "fields",
                                J::Arr(v.fields.iter().map(|f| J::s(f.name.to_string())).collect()),
                            );
                        if let Some(a) = active {
                            o = o.fn_("active_field", a.as_u32() as i128);
                        }
                    }
                    AggregateKind::Closure(did, _) => {
                        o = o.fs("ak", "closure").fs("closure", self.tcx.def_path_str(*did));
                    }
                    AggregateKind::Coroutine(did, _) | AggregateKind::CoroutineClosure(did, _) => {
                        o = o.fs("ak", "coroutine").fs("closure", self.tcx.def_path_str(*did));
                    }
                    AggregateKind::RawPtr(t, m) => {
                        o = o.fs("ak", "rawptr").fs("elem", ty_str(*t)).fs("mut", format!("{m:?}"));
                    }
                }
                o.f("ops", J::Arr(ops.iter().map(|x| self.operand(x)).collect())).done()
            }
            Rvalue::CopyForDeref(p) => {
                J::obj().fs("rv", "copy_for_deref").f("pl", self.place(p.as_ref())).done()
            }
            Rvalue::WrapUnsafeBinder(op, t) => J::obj()
                .fs("rv", "wrap_binder")
                .f("op", self.operand(op))
                .fs("to", ty_str(*t))
                .done(),
            #[allow(unreachable_patterns)]
            other => J::obj().fs("rv", "other").fs("dbg", format!("{other:?}")).done(),
        }
    }

    fn stmt(&self, st: &mir::Statement<'tcx>) -> Option<J> {
        let sp = span_json(self.tcx, st.source_info.span);
        match &st.kind {
            StatementKind::Assign(b) => {
                let (pl, rv) = &**b;
                Some(
                    J::obj()
                        .fs("s", "assign")
                        .f("pl", self.place(pl.as_ref()))
                        .f("rv", self.rvalue(rv))
                        .f("span", sp)
                        .done(),
                )
            }
            StatementKind::SetDiscriminant { place, variant_index } => Some(
                J::obj()
                    .fs("s", "set_discr")
                    .f("pl", self.place((**place).as_ref()))
                    .fn_("vidx", variant_index.as_u32() as i128)
                    .f("span", sp)
                    .done(),
            ),
            StatementKind::Intrinsic(i) => {
                Some(J::obj().fs("s", "intrinsic").fs("dbg", format!("{i:?}")).f("span", sp).done())
            }
            _ => None,
        }
    }

    fn term(&self, t: &mir::Terminator<'tcx>) -> J {
        let sp = span_json(self.tcx, t.source_info.span);
        let o = match &t.kind {
            TerminatorKind::Goto { target } => {
                J::obj().fs("t", "goto").fn_("target", target.as_u32() as i128)
            }
            TerminatorKind::SwitchInt { discr, targets } => {
                let mut arms = Vec::new();
                for (v, bb) in targets.iter() {
                    arms.push(J::Arr(vec![J::Str(v.to_string()), J::n(bb.as_u32() as i128)]));
                }
                J::obj()
                    .fs("t", "switch")
                    .f("discr", self.operand(discr))
                    .fs("discr_ty", ty_str(discr.ty(self.body, self.tcx)))
                    .f("arms", J::Arr(arms))
                    .fn_("otherwise", targets.otherwise().as_u32() as i128)
            }
            TerminatorKind::UnwindResume => J::obj().fs("t", "resume"),
            TerminatorKind::UnwindTerminate(_) => J::obj().fs("t", "terminate"),
            TerminatorKind::Return => J::obj().fs("t", "return"),
            TerminatorKind::Unreachable => J::obj().fs("t", "unreachable"),
            TerminatorKind::Drop { place, target, unwind, .. } => J::obj()
                .fs("t", "drop")
                .f("pl", self.place(place.as_ref()))
                .fn_("target", target.as_u32() as i128)
                .f("unwind", unwind_json(unwind)),
            TerminatorKind::Call { func, args, destination, target, unwind, .. } => {
                let mut o = J::obj().fs("t", "call").f("func", self.operand(func));
                o = o
                    .f("args", J::Arr(args.iter().map(|a| self.operand(&a.node)).collect()))
                    .f("dest", self.place(destination.as_ref()))
                    .f("target", target.map(|b| J::n(b.as_u32() as i128)).unwrap_or(J::Null))
                    .f("unwind", unwind_json(unwind));
                o
            }
            TerminatorKind::TailCall { func, args, .. } => J::obj()
                .fs("t", "tailcall")
                .f("func", self.operand(func))
                .f("args", J::Arr(args.iter().map(|a| self.operand(&a.node)).collect())),
            TerminatorKind::Assert { cond, expected, msg, target, unwind } => {
                let (kind, ops): (String, Vec<J>) = match &**msg {
                    AssertKind::BoundsCheck { len, index } => {
                        ("BoundsCheck".into(), vec![self.operand(len), self.operand(index)])
                    }
                    AssertKind::Overflow(op, a, b) => (
                        format!("Overflow({})", binop_str(*op)),
                        vec![self.operand(a), self.operand(b)],
                    ),
                    AssertKind::OverflowNeg(a) => ("OverflowNeg".into(), vec![self.operand(a)]),
                    AssertKind::DivisionByZero(a) => {
                        ("DivisionByZero".into(), vec![self.operand(a)])
                    }
                    AssertKind::RemainderByZero(a) => {
                        ("RemainderByZero".into(), vec![self.operand(a)])
                    }
                    other => (format!("{other:?}").split('(').next().unwrap_or("").to_string(), vec![]),
                };
                J::obj()
                    .fs("t", "assert")
                    .f("cond", self.operand(cond))
                    .fb("expected", *expected)
                    .fs("kind", kind)
                    .f("ops", J::Arr(ops))
                    .fn_("target", target.as_u32() as i128)
                    .f("unwind", unwind_json(unwind))
            }
            TerminatorKind::FalseEdge { real_target, .. } => {
                J::obj().fs("t", "goto").fn_("target", real_target.as_u32() as i128)
            }
            TerminatorKind::FalseUnwind { real_target, .. } => {
                J::obj().fs("t", "goto").fn_("target", real_target.as_u32() as i128)
            }
            other => J::obj().fs("t", "other").fs("dbg", format!("{other:?}")),
        };
        o.f("span", sp).done()
    }
}

fn unwind_json(u: &UnwindAction) -> J {
    match u {
        UnwindAction::Continue => J::s("continue"),
        UnwindAction::Unreachable => J::s("unreachable"),
        UnwindAction::Terminate(_) => J::s("terminate"),
        UnwindAction::Cleanup(bb) => J::n(bb.as_u32() as i128),
    }
}

fn binop_str(op: BinOp) -> String {
    format!("{op:?}")
}

fn cast_kind_str(k: &CastKind) -> String {
    format!("{k:?}")
}

// ---------------------------------------------------------------------------------------
// items: ADTs, impls, traits, fn signatures, constants

fn items_json<'tcx>(tcx: TyCtxt<'tcx>) -> (Vec<J>, Vec<J>, Vec<J>, Vec<J>, Vec<J>) {
    let mut adts = Vec::new();
    let mut impls = Vec::new();
    let mut traits = Vec::new();
    let mut fns = Vec::new();
    let mut consts = Vec::new();
    let defs: Vec<LocalDefId> = tcx.hir_crate_items(()).definitions().collect();
    for ldid in defs {
        let def_id = ldid.to_def_id();
        let kind = tcx.def_kind(def_id);
        match kind {
            DefKind::Struct | DefKind::Enum | DefKind::Union => {
                let adt = tcx.adt_def(def_id);
                let mut variants = Vec::new();
                for (vidx, v) in adt.variants().iter_enumerated() {
                    let mut fields = Vec::new();
                    for f in v.fields.iter() {
                        let fty = tcx.type_of(f.did).instantiate_identity().skip_norm_wip();
                        fields.push(
                            J::obj()
                                .fs("name", f.name.to_string())
                                .fs("ty", ty_str(fty))
                                .fs("vis", format!("{:?}", f.vis))
                                .fb("pub", f.vis.is_public())
                                .f("flags", ty_flags(tcx, fty))
                                .done(),
                        );
                    }
                    let mut vo = J::obj()
                        .fs("name", v.name.to_string())
                        .fn_("vidx", vidx.as_u32() as i128)
                        .f("fields", J::Arr(fields));
                    if adt.is_enum() {
                        let d = adt.discriminant_for_variant(tcx, vidx);
                        vo = vo.f("discr", J::Str(d.val.to_string()));
                    }
                    variants.push(vo.done());
                }
                let mut o = J::obj()
                    .fs("path", tcx.def_path_str(def_id))
                    .fs("kind", format!("{kind:?}"))
                    .fs("repr", format!("{:?}", adt.repr()))
                    .fb("repr_c", adt.repr().c())
                    .fb("pub", tcx.visibility(def_id).is_public())
                    .f("span", span_json(tcx, tcx.def_span(def_id)))
                    .f(
                        "generics",
                        J::Arr(
                            tcx.generics_of(def_id)
                                .own_params
                                .iter()
                                .map(|p| J::s(p.name.to_string()))
                                .collect(),
                        ),
                    )
                    .f("variants", J::Arr(variants));
                if tcx.generics_of(def_id).own_params.is_empty() {
                    let t = tcx.type_of(def_id).instantiate_identity().skip_norm_wip();
                    let te = TypingEnv::post_analysis(tcx, def_id);
                    if let Ok(layout) = tcx.layout_of(te.as_query_input(t)) {
                        o = o
                            .fn_("size", layout.size.bytes() as i128)
                            .fn_("align", layout.align.abi.bytes() as i128);
                        if let rustc_abi::FieldsShape::Arbitrary { offsets, .. } = &layout.fields {
                            o = o.f(
                                "offsets",
                                J::Arr(offsets.iter().map(|s| J::n(s.bytes() as i128)).collect()),
                            );
                        }
                    }
                }
                adts.push(o.done());
            }
            DefKind::Impl { of_trait } => {
                let self_ty = tcx.type_of(def_id).instantiate_identity().skip_norm_wip();
                let mut o = J::obj()
                    .fs("self_ty", ty_str(self_ty))
                    .f("span", span_json(tcx, tcx.def_span(def_id)))
                    .fb("derived", tcx.is_automatically_derived(def_id));
                if let ty::Adt(adt, _) = self_ty.kind() {
                    o = o.fs("self_adt", tcx.def_path_str(adt.did()));
                }
                if of_trait {
                    let tr = tcx.impl_trait_ref(def_id).instantiate_identity().skip_norm_wip();
                    o = o
                        .fs("trait", tcx.def_path_str(tr.def_id))
                        .fs("trait_ref", format!("{tr}"))
                        .fb("unsafe", tcx.impl_trait_header(def_id).safety.is_unsafe())
                        .fb("negative", tcx.impl_polarity(def_id) == ty::ImplPolarity::Negative);
                }
                let mut assoc = Vec::new();
                for it in tcx.associated_items(def_id).in_definition_order() {
                    assoc.push(J::s(it.name().to_string()));
                }
                o = o.f("items", J::Arr(assoc));
                let preds = tcx.predicates_of(def_id).instantiate_identity(tcx);
                o = o.f(
                    "predicates",
                    J::Arr(preds.predicates.iter().map(|p| J::s(format!("{}", p.skip_norm_wip()))).collect()),
                );
                impls.push(o.done());
            }
            DefKind::Trait => {
                let mut assoc = Vec::new();
                for it in tcx.associated_items(def_id).in_definition_order() {
                    let mut ao = J::obj().fs("name", it.name().to_string()).fs("kind", format!("{:?}", it.kind));
                    if it.is_type() {
                        let bounds = tcx.item_bounds(it.def_id).instantiate_identity().skip_norm_wip();
                        ao = ao.f(
                            "bounds",
                            J::Arr(bounds.iter().map(|c| J::s(format!("{c}"))).collect()),
                        );
                    }
                    assoc.push(ao.done());
                }
                traits.push(
                    J::obj()
                        .fs("path", tcx.def_path_str(def_id))
                        .fb("pub", tcx.visibility(def_id).is_public())
                        .f("items", J::Arr(assoc))
                        .done(),
                );
            }
            DefKind::Fn | DefKind::AssocFn => {
                let sig = tcx.fn_sig(def_id).instantiate_identity().skip_norm_wip();
                let preds = tcx.predicates_of(def_id).instantiate_identity(tcx);
                let vis = tcx.visibility(def_id);
                let mut o = J::obj()
                    .fs("path", tcx.def_path_str(def_id))
                    .fs("kind", format!("{kind:?}"))
                    .fs("sig", format!("{sig}"))
                    .fb("unsafe", sig.safety().is_unsafe())
                    .fb("pub", vis.is_public())
                    .fs("vis", format!("{vis:?}"))
                    .f("span", span_json(tcx, tcx.def_span(def_id)))
                    .f(
                        "inputs",
                        J::Arr(sig.skip_binder().inputs().iter().map(|t| J::s(ty_str(*t))).collect()),
                    )
                    .fs("output", ty_str(sig.skip_binder().output()))
                    .f(
                        "late_bound",
                        J::Arr(sig.bound_vars().iter().map(|v| J::s(format!("{v:?}"))).collect()),
                    )
                    .f(
                        "predicates",
                        J::Arr(preds.predicates.iter().map(|p| J::s(format!("{}", p.skip_norm_wip()))).collect()),
                    )
                    .f("generics", {
                        // names of the generic parameters in substitution order (parent's first), so that the
                        // `args` of a call can be matched with the names the callee's body uses
                        let g = tcx.generics_of(def_id);
                        J::Arr((0..g.count()).map(|i| J::s(g.param_at(i, tcx).name.to_string())).collect())
                    });
                if let Some(imp) = tcx.impl_of_assoc(def_id) {
                    let st = tcx.type_of(imp).instantiate_identity().skip_norm_wip();
                    o = o.fs("impl_self", ty_str(st));
                    if let ty::Adt(adt, _) = st.kind() {
                        o = o.fs("impl_adt", tcx.def_path_str(adt.did()));
                    }
                    if matches!(tcx.def_kind(imp), DefKind::Impl { of_trait: true }) {
                        let tr = tcx.impl_trait_ref(imp).instantiate_identity().skip_norm_wip();
                        o = o.fs("impl_trait", tcx.def_path_str(tr.def_id));
                        o = o.fb("derived", tcx.is_automatically_derived(imp));
                    }
                }
                fns.push(o.done());
            }
            DefKind::Const { .. } | DefKind::AssocConst { .. } => {
                let mut o = J::obj()
                    .fs("path", tcx.def_path_str(def_id))
                    .fs("ty", ty_str(tcx.type_of(def_id).instantiate_identity().skip_norm_wip()));
                if tcx.generics_of(def_id).is_empty() {
                    if let Ok(val) = tcx.const_eval_poly(def_id) {
                        if let Some(si) = val.try_to_scalar_int() {
                            let bits = si.to_bits(si.size());
                            o = o.f("int", J::Str(bits.to_string()));
                        }
                    }
                }
                consts.push(o.done());
            }
            _ => {}
        }
    }
    (adts, impls, traits, fns, consts)
}

/// Structural flags of a type: what kinds of sharing / interior mutability / raw pointers occur
/// anywhere inside it (looking through local and std ADTs' generic arguments, not their fields).
fn ty_flags<'tcx>(tcx: TyCtxt<'tcx>, ty: Ty<'tcx>) -> J {
    let mut raw = false;
    let mut refc = false;
    let mut cell = false;
    let mut refs = false;
    let mut params = Vec::new();
    let mut adts = Vec::new();
    for arg in ty.walk() {
        if let Some(t) = arg.as_type() {
            match t.kind() {
                ty::RawPtr(..) => raw = true,
                ty::Ref(..) => refs = true,
                ty::Param(p) => {
                    let n = p.name.to_string();
                    if !params.contains(&n) {
                        params.push(n);
                    }
                }
                ty::Adt(adt, _) => {
                    let p = tcx.def_path_str(adt.did());
                    if p.ends_with("::Rc") || p.ends_with("::Arc") || p.ends_with("rc::Weak") || p.ends_with("sync::Weak") {
                        refc = true;
                    }
                    if p.ends_with("::Cell")
                        || p.ends_with("::RefCell")
                        || p.ends_with("::UnsafeCell")
                        || p.ends_with("::Mutex")
                        || p.ends_with("::RwLock")
                        || p.contains("::atomic::")
                        || p.ends_with("::OnceCell")
                        || p.ends_with("::OnceLock")
                    {
                        cell = true;
                    }
                    if p.ends_with("::NonNull") {
                        raw = true;
                    }
                    if !adts.contains(&p) {
                        adts.push(p);
                    }
                }
                _ => {}
            }
        }
    }
    J::obj()
        .fb("raw_ptr", raw)
        .fb("rc", refc)
        .fb("cell", cell)
        .fb("reference", refs)
        .f("params", J::Arr(params.into_iter().map(J::s).collect()))
        .f("adts", J::Arr(adts.into_iter().map(J::s).collect()))
        .done()
}

// ---------------------------------------------------------------------------------------
// HIR unsafety perimeter

struct UnsafeVisitor<'tcx> {
    tcx: TyCtxt<'tcx>,
    owner: Option<LocalDefId>,
    depth: u32,
    blocks: Vec<J>,
    ops: Vec<J>,
}

impl<'tcx> UnsafeVisitor<'tcx> {
    fn record_op(&mut self, kind: &str, callee: Option<DefId>, span: Span, extra: String) {
        let owner = self.owner.map(|o| self.tcx.def_path_str(self.tcx.typeck_root_def_id(o.to_def_id())));
        let mut o = J::obj()
            .fs("kind", kind)
            .fs("owner", owner.unwrap_or_default())
            .fb("in_unsafe_block", self.depth > 0)
            .f("span", span_json(self.tcx, span));
        if let Some(c) = callee {
            o = o.fs("callee", self.tcx.def_path_str(c));
        }
        if !extra.is_empty() {
            o = o.fs("detail", extra);
        }
        self.ops.push(o.done());
    }
}

impl<'tcx> Visitor<'tcx> for UnsafeVisitor<'tcx> {
    type NestedFilter = rustc_middle::hir::nested_filter::OnlyBodies;

    fn maybe_tcx(&mut self) -> Self::MaybeTyCtxt {
        self.tcx
    }

    fn visit_nested_body(&mut self, id: rustc_hir::BodyId) {
        // nested bodies (closures, anonymous/inline constants) carry their own typeck results
        let old = self.owner;
        let old_depth = self.depth;
        let owner = self.tcx.hir_body_owner_def_id(id);
        self.owner = Some(owner);
        if !matches!(self.tcx.def_kind(owner), DefKind::Closure) {
            self.depth = 0;
        }
        let body = self.tcx.hir_body(id);
        self.visit_body(body);
        self.owner = old;
        self.depth = old_depth;
    }

    fn visit_block(&mut self, b: &'tcx rustc_hir::Block<'tcx>) {
        let is_unsafe = matches!(
            b.rules,
            rustc_hir::BlockCheckMode::UnsafeBlock(rustc_hir::UnsafeSource::UserProvided)
        );
        if is_unsafe {
            let owner = self
                .owner
                .map(|o| self.tcx.def_path_str(self.tcx.typeck_root_def_id(o.to_def_id())))
                .unwrap_or_default();
            self.blocks.push(
                J::obj().fs("owner", owner).f("span", span_json(self.tcx, b.span)).done(),
            );
            self.depth += 1;
        }
        intravisit::walk_block(self, b);
        if is_unsafe {
            self.depth -= 1;
        }
    }

    fn visit_expr(&mut self, e: &'tcx rustc_hir::Expr<'tcx>) {
        use rustc_hir::ExprKind;
        if let Some(owner) = self.owner {
            let tr = self.tcx.typeck(owner);
            match e.kind {
                ExprKind::Call(f, _) => {
                    let fty = tr.expr_ty_adjusted(f);
                    if let ty::FnDef(did, _) = fty.kind() {
                        let sig = self.tcx.fn_sig(*did).instantiate_identity().skip_norm_wip();
                        if sig.safety().is_unsafe() {
                            self.record_op("call", Some(*did), e.span, String::new());
                        }
                    } else if let ty::FnPtr(_, hdr) = fty.kind() {
                        if hdr.safety().is_unsafe() {
                            self.record_op("call_fnptr", None, e.span, String::new());
                        }
                    }
                }
                ExprKind::MethodCall(..) => {
                    if let Some(did) = tr.type_dependent_def_id(e.hir_id) {
                        let sig = self.tcx.fn_sig(did).instantiate_identity().skip_norm_wip();
                        if sig.safety().is_unsafe() {
                            self.record_op("call", Some(did), e.span, String::new());
                        }
                    }
                }
                ExprKind::Unary(rustc_hir::UnOp::Deref, inner) => {
                    let t = tr.expr_ty_adjusted(inner);
                    if t.is_raw_ptr() {
                        self.record_op("raw_deref", None, e.span, ty_str(t));
                    }
                }
                ExprKind::InlineAsm(_) => self.record_op("asm", None, e.span, String::new()),
                ExprKind::Path(ref qp) => {
                    if let rustc_hir::def::Res::Def(DefKind::Static { mutability, .. }, did) =
                        tr.qpath_res(qp, e.hir_id)
                    {
                        if mutability.is_mut() {
                            self.record_op("static_mut", Some(did), e.span, String::new());
                        }
                    }
                }
                _ => {}
            }
        }
        intravisit::walk_expr(self, e);
    }
}

fn unsafety_json<'tcx>(tcx: TyCtxt<'tcx>) -> J {
    let mut v = UnsafeVisitor { tcx, owner: None, depth: 0, blocks: Vec::new(), ops: Vec::new() };
    for ldid in tcx.hir_body_owners() {
        // closures are visited as part of their parent body (OnlyBodies nested filter)
        if matches!(tcx.def_kind(ldid), DefKind::Closure | DefKind::InlineConst | DefKind::AnonConst) {
            continue;
        }
        v.owner = Some(ldid);
        v.depth = 0;
        let body = tcx.hir_body_owned_by(ldid);
        v.visit_body(body);
    }
    let mut unsafe_fns = Vec::new();
    let mut unsafe_impls = Vec::new();
    let mut unsafe_traits = Vec::new();
    let mut statics_mut = Vec::new();
    let mut foreign = Vec::new();
    let defs: Vec<LocalDefId> = tcx.hir_crate_items(()).definitions().collect();
    for ldid in defs {
        let def_id = ldid.to_def_id();
        match tcx.def_kind(def_id) {
            DefKind::Fn | DefKind::AssocFn => {
                let sig = tcx.fn_sig(def_id).instantiate_identity().skip_norm_wip();
                if sig.safety().is_unsafe() {
                    unsafe_fns.push(
                        J::obj()
                            .fs("path", tcx.def_path_str(def_id))
                            .fs("vis", format!("{:?}", tcx.visibility(def_id)))
                            .fb("pub", tcx.visibility(def_id).is_public())
                            .f("span", span_json(tcx, tcx.def_span(def_id)))
                            .done(),
                    );
                }
            }
            DefKind::Impl { of_trait: true } => {
                if tcx.impl_trait_header(def_id).safety.is_unsafe() {
                    let tr = tcx.impl_trait_ref(def_id).instantiate_identity().skip_norm_wip();
                    unsafe_impls.push(
                        J::obj()
                            .fs("trait_ref", format!("{tr}"))
                            .fs("trait", tcx.def_path_str(tr.def_id))
                            .fs("self_ty", format!("{}", tr.self_ty()))
                            .fb("derived", tcx.is_automatically_derived(def_id))
                            .f("span", span_json(tcx, tcx.def_span(def_id)))
                            .done(),
                    );
                }
            }
            DefKind::Trait => {
                if tcx.trait_def(def_id).safety.is_unsafe() {
                    unsafe_traits.push(J::s(tcx.def_path_str(def_id)));
                }
            }
            DefKind::Static { mutability, .. } => {
                if mutability.is_mut() {
                    statics_mut.push(J::s(tcx.def_path_str(def_id)));
                }
            }
            DefKind::ForeignMod => foreign.push(J::s(tcx.def_path_str(def_id))),
            _ => {}
        }
    }
    J::obj()
        .f("blocks", J::Arr(v.blocks))
        .f("ops", J::Arr(v.ops))
        .f("unsafe_fns", J::Arr(unsafe_fns))
        .f("unsafe_impls", J::Arr(unsafe_impls))
        .f("unsafe_traits", J::Arr(unsafe_traits))
        .f("statics_mut", J::Arr(statics_mut))
        .f("foreign_mods", J::Arr(foreign))
        .done()
}

#[allow(dead_code)]
fn _unused(_: Place<'_>) {}
