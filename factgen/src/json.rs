//! Minimal JSON value + writer (no external crates are available to a rustc_private driver).

#[derive(Clone, Debug)]
pub enum J {
    Null,
    Bool(bool),
    Num(i128),
    Str(String),
    Arr(Vec<J>),
    Obj(Vec<(String, J)>),
}

impl J {
    pub fn s<S: Into<String>>(s: S) -> J {
        J::Str(s.into())
    }
    pub fn n<N: Into<i128>>(n: N) -> J {
        J::Num(n.into())
    }
    pub fn obj() -> ObjB {
        ObjB(Vec::new())
    }
    pub fn opt(o: Option<J>) -> J {
        o.unwrap_or(J::Null)
    }
    pub fn write(&self, out: &mut String) {
        match self {
            J::Null => out.push_str("null"),
            J::Bool(b) => out.push_str(if *b { "true" } else { "false" }),
            J::Num(n) => out.push_str(&n.to_string()),
            J::Str(s) => write_str(s, out),
            J::Arr(a) => {
                out.push('[');
                for (i, v) in a.iter().enumerate() {
                    if i > 0 {
                        out.push(',');
                    }
                    v.write(out);
                }
                out.push(']');
            }
            J::Obj(o) => {
                out.push('{');
                for (i, (k, v)) in o.iter().enumerate() {
                    if i > 0 {
                        out.push(',');
                    }
                    write_str(k, out);
                    out.push(':');
                    v.write(out);
                }
                out.push('}');
            }
        }
    }
}

pub struct ObjB(Vec<(String, J)>);

impl ObjB {
    pub fn f<S: Into<String>>(mut self, k: S, v: J) -> ObjB {
        self.0.push((k.into(), v));
        self
    }
    pub fn fs<S: Into<String>, T: Into<String>>(self, k: S, v: T) -> ObjB {
        self.f(k, J::Str(v.into()))
    }
    pub fn fn_<S: Into<String>, N: Into<i128>>(self, k: S, v: N) -> ObjB {
        self.f(k, J::Num(v.into()))
    }
    pub fn fb<S: Into<String>>(self, k: S, v: bool) -> ObjB {
        self.f(k, J::Bool(v))
    }
    pub fn done(self) -> J {
        J::Obj(self.0)
    }
}

fn write_str(s: &str, out: &mut String) {
    out.push('"');
    for c in s.chars() {
        match c {
            '"' => out.push_str("\\\""),
            '\\' => out.push_str("\\\\"),
            '\n' => out.push_str("\\n"),
            '\r' => out.push_str("\\r"),
            '\t' => out.push_str("\\t"),
            c if (c as u32) < 0x20 => out.push_str(&format!("\\u{:04x}", c as u32)),
            c => out.push(c),
        }
    }
    out.push('"');
}
