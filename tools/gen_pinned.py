#!/usr/bin/env python3
"""Regenerates rules/known_fns.txt and rules/pinned_shape.json from /repo's committed tree (run after a
`fix:` commit in /repo).  These two files describe the shape of the pinned tree — which local
functions exist and what fields / parameters are called — and are what inline.py / normalize.py
compare a modified tree with."""
import json, os, sys
V = os.path.dirname(os.path.dirname(os.path.abspath(__file__)))
sys.path.insert(0, V)
from rules import factcache, normalize

fns = set()
shape = {"adts": {}, "fns": {}, "enums": [], "consts": {}, "traits": []}
for cfg in ("default", "all", "none", "rel"):
    raw = json.load(open(factcache.gen("/repo", cfg)))
    for b in raw["bodies"]:
        fns.add(b["path"])
    for f in raw["fns"]:
        fns.add(f["path"])
    shape["enums"] = sorted(set(shape["enums"]) | {a["path"] for a in raw["adts"] if a["kind"] == "Enum"})
    shape["traits"] = sorted(set(shape["traits"]) | {t["path"] for t in raw["traits"] if not t["path"].startswith(("std::", "core::", "alloc::"))})
    for c in raw["consts"]:
        if "int" in c and not c["path"].endswith("::_"):
            shape["consts"].setdefault(c["path"], [c["ty"], c["int"]])
    s = normalize.shape_of(raw)
    for k in ("adts", "fns"):
        for p, v in s[k].items():
            shape[k].setdefault(p, v)
with open(os.path.join(V, "rules", "known_fns.txt"), "w") as f:
    f.write("# def paths of every function of the pinned tree (all feature sets); calls to local functions NOT listed here are inlined before analysis\n")
    for p in sorted(fns):
        f.write(p + "\n")
json.dump(shape, open(os.path.join(V, "rules", "pinned_shape.json"), "w"), indent=0, sort_keys=True)
print(len(fns), "functions,", len(shape["adts"]), "structs")
