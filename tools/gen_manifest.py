#!/usr/bin/env python3
"""Regenerates /verif/MANIFEST.json from the table below (single source of truth for what is claimed)."""
import json, os
V = os.path.dirname(os.path.dirname(os.path.abspath(__file__)))
props = [json.loads(l) for l in open(os.path.join(V, "properties.jsonl"))]

NOTE_COMMON = "Trusted base: rustc's HIR/MIR construction and type checking on the pinned nightly (the facts are the compiler's view of the real build, all feature sets), documented contracts of std (io::Write::write_all, Read::read_exact/read_to_end/take, BinaryHeap, slice sort/binary_search), byteorder, bytemuck and the codec crates. Decides the named structural clauses (necessary conditions), not the runtime behaviour; residual clauses are listed in DESIGN.md section 4/6."

CLAIMS = {
 "C01": ("MIR dataflow + dominance + dispatch-table analysis of writer/reader bookkeeping", "4 C01",
         "Static analysis over the compiler's MIR of the current tree: entry counter incremented exactly once per insert and plumbed to the trailer and Reader::len; the codec/level reaching compress() at every block write and the codec named in the trailer have the builder's setters as their origin (interprocedural origin sets), and every block load uses the trailer's codec; no call that fills a byte buffer has its produced length discarded; compress/decompress dispatch tables agree per variant and from_u8 inverts `as u8` on all 256 ids; every block write is paired with a parent index entry (last key, offset read before the write) except the root; finish order (data, levels last-to-first, trailer last, flush); depth arithmetic; forward/backward twins are mirror images; a non-empty pending block is always flushed; the entry frame written by BlockWriter::insert agrees with the regions Block::entry_at reads, and no end-of-payload test of entry_at can turn a well-formed entry (empty key / value at the end of a block) into None (linear form over the frame's fields); the in-block offset table is pushed, reset and rebuilt consistently, reset restarting the interval counter. Byte equality of the round trip through the codec crates is not decided."),
 "C02": ("MIR comparison inventory (REL) + probe/offset dataflow on the seek path", "4 C02",
         "Static analysis: index keyed by last keys with the child's start offset, one probe through all levels, every key comparison on the seek path in canonical form with the action of each outcome (strictness, direction, arm), offset-table layout agreement between BlockWriter::insert and Block::read_from, single steps across block boundaries. Necessary conditions of exact ceiling/floor/match; algorithmic correctness over all key sets is not decided."),
 "C03": ("MIR pairing/dominance analysis of cached cursor state (typestate-like coherence) + compile-fail witness", "4 C03",
         "Static analysis: every store that replaces a cached index block is followed on every path by a store of the offset it was loaded from (and never the other way round), a conditional reload happens exactly on the tag-differs edge, a block replaced in place resets the in-block position, absolute moves return entries only from a freshly loaded block, reset clears every mutable cursor field, clones are derived and share nothing, every block load follows an absolute seek whose operand is an index entry or the root offset. History independence over all operation sequences is reduced to these coherence conditions; the full state x operation exploration is not performed."),
 "C04": ("MIR decision tables over Bound variants + control-dependence of yields + mirror comparison", "4 C04",
         "Static analysis: bound membership functions and first-call positioning decoded into exhaustive 3-arm tables per direction (relation, operand order, extra step on equality), every yielded entry control-dependent on the far-side test of exactly that key, no unguarded success exit, first-call flag consumed once, bounds copied variant-preserving, RangeIter/RevRangeIter mirror images. Correctness of the underlying seeks is C02."),
 "C05": ("MIR control-dependence of yields + arm tables of move_on_last_prefix / advance_key + error-propagation check", "4 C05",
         "Static analysis: every Ok(Some) exit of both prefix iterators is guarded by starts_with on the yielded key and nothing else can yield; cursor errors are propagated, not folded into end-of-iteration; first-call/later-call tables; move_on_last_prefix and advance_key decoded as 3-arm tables. Output soundness on all paths is decided; completeness rests on C02 and on advance_key's value semantics (pinned by shape)."),
 "C06": ("MIR ordering-expression decoding + pop/push pairing + merge-once dominance", "4 C06",
         "Static analysis: Entry::cmp decoded into (key, source index) both reversed once; source index from enumerate() over an append-only sources vector; one merge call outside loops with first-popped key and values in pop order; whole-key equality gathers; output buffers cleared before refill; every popped entry advanced once (error propagated) and pushed back iff non-empty; streaming loops insert exactly what was yielded; the single steps of the source cursors across block boundaries (shared with C03). BinaryHeap's contract is trusted."),
 "C07": ("MIR control-skeleton analysis of the sorter (dominance, tables, layout agreement) + merger rules", "4 C07",
         "Static analysis: every insert path stores the entry exactly once; write_chunk sorts once, groups on whole-key inequality, merges once per group, pushes the flushed chunk then clears; every consumer goes through one final spill; chunk vector append/drain-only so order = age; chunks flushed before pushed and re-read from 0; sort dispatch tables (stable/unstable, sequential/rayon); all builder settings plumbed; buffer layout written by insert = layout read by iter/sort key, and the reallocation copies bounds to the front and entry bytes to the back of the new buffer (regions in linear form over each buffer's own length); chunk offsets counted from what the chunk storage accepted; plus the C06 merger rules. Output equality with a reference sort-and-merge is not decided."),
 "C08": ("boolean truth-table extraction of the spill condition + threshold/growth/trigger dataflow + parametricity witness", "4 C08",
         "Static analysis: the spill decision evaluated over its three boolean atoms (all 8 rows) equals `no spill iff fits or (not exceeded and allow)` with write_chunk before the insert; threshold = capacity >= clamped budget; allocation rounded up to a multiple of 16 only; growth factor exactly 2 from the non-fitting branch only; merge trigger `len >= max` (clamped >= 1), merge drains all and pushes one; budget settings survive build()/chunk_creator(); chunks only from ChunkCreator::create (bounds give no other constructor — compile-fail witness). The numeric high-water marks are not computed."),
 "C09": ("format-description extraction (SEQ/TABLE/EXPR facts) compared with the statement, the sibling side and grenad 0.4.7 (XVER)", "4 C09",
         "Static extraction of the embodied file format — trailer sequences per version, block framing, symbolic entry layout, offset-table footer, index-entry encoding, codec ids and inverse, endianness inventory, varint tables — compared as data with the statement's constants, writer vs reader, and the same facts extracted from grenad 0.4.7; plus the structural index/offset/finish-order rules. Byte-level conformance of emitted files needs execution and is not decided."),
 "C10": ("V1 trailer table extraction + who-may-read non-interference analysis of file_version", "4 C10",
         "Static analysis: the V1 read arm decoded (seek End(-21), u64 LE / u8 via from_u8 / u64 LE, index_levels = 0, magic 0x76324D4C) and compared with the statement, write_into's V1 arm and (thorough) 0.4.7; V1/V2 arms agree up to the levels byte; Metadata.file_version is read only by the getter and the trailer writer, so no query code can depend on the version; Reader::new is the trailer read with its error propagated and nothing else (no second validation step sized for the V2 trailer)."),
 "C11": ("who-may-call inventory of I/O primitives + byte-count dataflow", "4 C11",
         "Static analysis: the only raw io::Write::write is CountWrite's counting delegation whose addend is the accepted byte count; no write_all override; a raw io::Read::read only inside an interruption-retrying pass-through adapter, and the caller's reader reaches the codec crates' decoders only behind that adapter (a decoder that cannot resume after ErrorKind::Interrupted was a genuine defect, repaired); block bodies read through take(len) + read_to_end/decoder; offsets only from CountWrite::count(); no nondeterministic primitives. Given std's write_all/read_exact/read_to_end contracts the emitted stream and read results are independent of how I/O calls are split or interrupted. Fixtures prove the zero-expected detectors fire."),
 "C12": ("error-discipline dataflow over every fallible call result + exhaustive conversion table", "4 C12",
         "Static analysis: 150-210 fallible call results inventoried per configuration, each consumed by a propagating idiom (no drop/.ok()/if-let-Ok/unwrap/panicking Err arm); convert_merge_error maps every variant inhabited for Infallible to itself and is only applied to Error<Infallible>; merge errors reach Error::Merge; create errors go Into->convert->?; flush before handing the sink back. Data-dependent codec errors are outside."),
 "C13": ("call-graph closure + panic-source inventory with constant folding + acceptance decision table", "4 C13",
         "Static analysis: the closure of Reader::new is loop-free, recursion-free, reaches no block load, has no explicit panic / bounds check / may-panic std call, all overflow assertions constant-fold, external callees allowlisted; acceptance decoded as a table (magic equality on two values at End(-4), full record at End(-(size+4)), codec ids exactly 0..=5) and every rejection exit is one of those or a propagated I/O error; trailer written last."),
 "C14": ("EXPR extraction of the varint encode/decode tables + LEB128-32 condition check + guarded-narrowing dominance", "4 C14",
         "Static analysis: encode table (guard intervals, per-byte (shift, or-mask), length) and decode table (OR terms, required length, scanner flag) read off def-use chains and control dependence satisfy the exact conditions of a lossless 1..5-byte framing of all u32 values; writer and reader use key-length-then-value-length with consumed-byte advancing; `len as u32` casts dominated by surviving `<= u32::MAX` assertions; scratch buffer holds 5 bytes; thorough: tables equal 0.4.7's. Shape-bound (fails closed on a loop rewrite)."),
 "C15": ("MIR dominance/relation analysis of the block cut rule + estimate/emit width agreement", "4 C15",
         "Static analysis: the `estimate >= block_size` test follows every data insert and is applied per visited index level over index_block_writers[1..]; true edges reach the flush of the measured writer; entries are appended to a Writer's data block from Writer::insert only (no second entry path around the cut rule); clamp max(1024, arg) through the only setter; estimate = buffer + 8*offsets + 4 equals what finish appends; flushed writers are reset on every exit. Compressed sizes are not decided."),
 "C16": ("symbolic cost analysis (loads per call as a*D+b) over the loop-collapsed CFG and call graph with one typestate bit", "4 C16",
         "Static analysis: loads are exactly the 8 Block::new sites; open reaches none; load-reaching loops/recursion accepted only in three recognised D-bounded forms; computed maxima: lookups D+1, relative moves 2D+1 (cold cache), floor seek 2D+2 = 2(index_levels+2) — within the stated bound; each load preceded by one absolute seek."),
 "C17": ("unsafe-perimeter inventory (HIR) + per-operation obligations (MIR dataflow) + truncation-arithmetic contradiction rule + compile-fail witnesses", "4 C17",
         "Static analysis: every unsafe operation is of a kind with a discharging rule (allocation/raw-parts/align_to/new_unchecked sites equal the reviewed table; lifetime extensions are discharged per function wherever they occur: the extended references are reached through exactly one `&mut` parameter — never through an owned call result — and the returned regions are that parameter's); alloc/dealloc layouts agree with the stored len, null check, single owner, not Clone; allocation size positive and computed without wrapping arithmetic; raw-parts receive (data, len); Pod target padding-free; no arithmetic on truncated integers; a linear-invariant analysis proves all 23 checked arithmetic sites of the two-ended sorter buffer overflow-free and its invariant preserved by every mutator (certificates by bounded enumeration, no solver); 15 compile-fail witness pairs on the public API. Overflow freedom of arithmetic outside the sorter buffer is not claimed."),
 "C18": ("MIR dominance + field-mutator analysis, incl. release-like config", "4 C18",
         "Static analysis in default, all-features and a debug-assertions-off configuration: the strict `new > last` comparison's false edge diverges and, with the empty-block arm, cuts every path to the buffer appends; last_key refreshed on both arms and only cleared by the post-flush reset; the block buffer has exactly the expected mutators and BlockWriter exactly three &mut methods; index entries go through the same checked insert; the u32 length assertions survive without debug assertions."),
}

checks = []
for p in props:
    pid = p["id"]
    if pid not in CLAIMS:
        continue
    tech, ref, text = CLAIMS[pid]
    checks.append({
        "property_id": pid,
        "quick_cmd": f"./check {pid} --tier quick",
        "thorough_cmd": f"./check {pid} --tier thorough",
        "evidence_file": f"/verif/evidence/{pid}.json",
        "replay_cmd_template": f"./check {pid} --explain {{path}}",
        "engine": "factgen+rules",
        "level_claimed": {"category": "other", "text": text, "design_ref": "DESIGN.md section " + ref},
        "level_note": NOTE_COMMON,
        "technique": "static analysis: " + tech,
    })

na = [{"property_id": p["id"], "reason": "check not yet built in this commit (static-analysis design in DESIGN.md section 4)"} for p in props if p["id"] not in CLAIMS]

m = {
 "version": 1,
 "setup_cmd": "./check --setup",
 "hooks": {"guard": "grenad_verif", "enable": "none needed: static analysis reads the unmodified source; no hook commits exist and `--cfg grenad_verif` is never passed", "baseline_off_cmd": "cd /repo && cargo test --workspace --no-fail-fast --offline", "source_commits": [], "add_only": True},
 "engines": [
  {"name": "factgen", "path": "/verif/factgen", "serves_properties": sorted(CLAIMS), "kind_free_text": "rustc_private driver (nightly) run as RUSTC_WRAPPER under cargo check: serialises items, types, layouts, constants, MIR with resolved callees and the HIR unsafe perimeter of the real build (4 feature/flag configurations + grenad 0.4.7 + the fixture crate)"},
  {"name": "rules", "path": "/verif/rules", "serves_properties": sorted(CLAIMS), "kind_free_text": "python3 stdlib rule engine over the fact files: normalisation pre-passes (rename alignment, inlining of new helpers, combinator desugaring + closure inlining), CFG, dominators/post-dominators, reaching-definition expression reconstruction, body specialisation per enum variant, interprocedural origin tracing, who-may-call / who-may-write inventories, pairing, decision tables, mirror comparison, symbolic cost, linear-invariant certificates; floors and fixtures make every rule non-vacuous"},
 ],
 "checks": checks,
 "notes": "Technique family: static analysis only (nothing of grenad is executed by any check). Fix commits in /repo: 1babdda, c494583, de4f8dd, 5f2e922, e0b8054 (see known_findings.txt).",
 "not_applicable": na,
}
json.dump(m, open(os.path.join(V, "MANIFEST.json"), "w"), indent=1)
print("checks:", [c["property_id"] for c in checks], "n/a:", len(na))
