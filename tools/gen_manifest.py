#!/usr/bin/env python3
"""Regenerates /verif/MANIFEST.json from the table below (single source of truth for what is claimed)."""
import json, os
V = os.path.dirname(os.path.dirname(os.path.abspath(__file__)))
props = [json.loads(l) for l in open(os.path.join(V, "properties.jsonl"))]

NOTE_COMMON = "Trusted base: rustc's HIR/MIR construction and type checking on the pinned nightly (the facts are the compiler's view of the real build, all feature sets), documented contracts of std (io::Write::write_all, Read::read_exact/read_to_end/take, BinaryHeap, slice sort/binary_search), byteorder, bytemuck and the codec crates. Decides the named structural clauses (necessary conditions), not the runtime behaviour; residual clauses are listed in DESIGN.md section 4/6."

CLAIMS = {
 "C01": ("MIR dataflow + dominance + dispatch-table analysis of writer/reader bookkeeping", "4 C01",
         "Static analysis over the compiler's MIR of the current tree: entry counter incremented exactly once per insert and plumbed to the trailer and Reader::len; codec/level plumbed from the configuration to every block write and from the trailer to every block load; compress/decompress dispatch tables agree per variant and from_u8 inverts `as u8` on all 256 ids; every block write is paired with a parent index entry (last key, offset read before the write) except the root; finish order (data, levels last-to-first, trailer last, flush); depth arithmetic; forward/backward twins are mirror images; a non-empty pending block is always flushed. Byte equality of the round trip through the codec crates is not decided."),
 "C02": ("MIR comparison inventory (REL) + probe/offset dataflow on the seek path", "4 C02",
         "Static analysis: index keyed by last keys with the child's start offset, one probe through all levels, every key comparison on the seek path in canonical form with the action of each outcome (strictness, direction, arm), offset-table layout agreement between BlockWriter::insert and Block::read_from, single steps across block boundaries. Necessary conditions of exact ceiling/floor/match; algorithmic correctness over all key sets is not decided."),
 "C03": ("MIR pairing/dominance analysis of cached cursor state (typestate-like coherence)", "4 C03",
         "Static analysis: every store that replaces a cached index block is followed on every path by a store of the offset it was loaded from (and never the other way round), absolute moves return entries only from a freshly loaded block, reset clears every mutable cursor field, clones are derived and share nothing, every block load follows an absolute seek whose operand is an index entry or the root offset. History independence over all operation sequences is reduced to these coherence conditions; the full state x operation exploration is not performed."),
 "C18": ("MIR dominance + field-mutator analysis, incl. release-like config", "4 C18",
         "Static analysis in default, all-features and a debug-assertions-off configuration: the strict `new > last` comparison's false edge diverges and, with the empty-block arm, cuts every path to the buffer appends; last_key refreshed on both arms and only cleared by the post-flush reset; the block buffer has exactly the expected mutators and BlockWriter exactly three &mut methods; index entries go through the same checked insert; the u32 length assertions survive without debug assertions."),
}

checks = []
for p in props:
    pid = p["id"]
    if pid not in CLAIMS:
        continue
    tech, ref, text = CLAIMS[pid]
    checks.append({
        "property_id": pid,
        "quick_cmd": f"./check {pid} --tier quick",
        "thorough_cmd": f"./check {pid} --tier thorough",
        "evidence_file": f"/verif/evidence/{pid}.json",
        "replay_cmd_template": f"./check {pid} --explain {{path}}",
        "engine": "factgen+rules",
        "level_claimed": {"category": "other", "text": text, "design_ref": "DESIGN.md section " + ref},
        "level_note": NOTE_COMMON,
        "technique": "static analysis: " + tech,
    })

na = [{"property_id": p["id"], "reason": "check not yet built in this commit (static-analysis design in DESIGN.md section 4)"} for p in props if p["id"] not in CLAIMS]

m = {
 "version": 1,
 "setup_cmd": "./check --setup",
 "hooks": {"guard": "grenad_verif", "enable": "none needed: static analysis reads the unmodified source; no hook commits exist and `--cfg grenad_verif` is never passed", "baseline_off_cmd": "cd /repo && cargo test --workspace --no-fail-fast --offline", "source_commits": [], "add_only": True},
 "engines": [
  {"name": "factgen", "path": "/verif/factgen", "serves_properties": sorted(CLAIMS), "kind_free_text": "rustc_private driver (nightly) run as RUSTC_WRAPPER under cargo check: serialises items, types, constants, MIR with resolved callees and the HIR unsafe perimeter of the real build (4 feature/flag configurations + grenad 0.4.7)"},
  {"name": "rules", "path": "/verif/rules", "serves_properties": sorted(CLAIMS), "kind_free_text": "python3 stdlib rule engine over the fact files: CFG, dominators/post-dominators, reaching-definition expression reconstruction, who-may-call / who-may-write inventories, pairing, decision tables, mirror comparison; floors and fixtures make every rule non-vacuous"},
 ],
 "checks": checks,
 "notes": "Technique family: static analysis only (nothing of grenad is executed by any check). Fix commits in /repo: 1babdda, c494583, de4f8dd (see known_findings.txt).",
 "not_applicable": na,
}
json.dump(m, open(os.path.join(V, "MANIFEST.json"), "w"), indent=1)
print("checks:", [c["property_id"] for c in checks], "n/a:", len(na))
