#!/usr/bin/env python3
"""Systematic single-site mutation of grenad's non-test source, to measure the checks both ways:
for every mutant that still compiles, (a) does the repository's own test suite notice, (b) which
property checks report it.  Mutants that pass the suite and are reported are the checker's value;
mutants that pass both are listed for triage (equivalent mutants or gaps).

usage: mutate.py [--limit N] [--files a.rs,b.rs] [--jobs J] [--no-tests]
writes selftest/mutation_results.json"""
import hashlib
import json
import os
import random
import re
import shutil
import subprocess
import sys
from concurrent.futures import ThreadPoolExecutor

VERIF = os.path.dirname(os.path.dirname(os.path.abspath(__file__)))
REPO = "/repo"
WORK = "/tmp/vmut"

OPS = [
    # (name, regex, replacement(s))
    ("rel<=", r"(?<![<>=!-])<=(?!=)", ["<"]),
    ("rel>=", r"(?<![<>=!-])>=(?!=)", [">"]),
    ("rel<", r"(?<=\s)<(?=\s)", ["<="]),
    ("rel>", r"(?<=\s)>(?=\s)", [">="]),
    ("eq", r"==", ["!="]),
    ("ne", r"!=", ["=="]),
    ("and", r"&&", ["||"]),
    ("or", r"\|\|", ["&&"]),
    ("plus1", r"\+ 1\b", ["+ 0", "+ 2"]),
    ("minus1", r"- 1\b", ["- 0"]),
    ("pluseq1", r"\+= 1\b", ["+= 2"]),
    ("times2", r"\* 2\b", ["* 3"]),
    ("true", r"\btrue\b", ["false"]),
    ("false", r"\bfalse\b", ["true"]),
    ("qmark", r"\)\?;", [").ok();"]),
    ("next-prev", r"\bmove_on_next\(\)", ["move_on_prev()"]),
    ("prev-next", r"\bmove_on_prev\(\)", ["move_on_next()"]),
    ("first-last", r"\bmove_on_first\(\)", ["move_on_last()"]),
    ("last-first", r"\bmove_on_last\(\)", ["move_on_first()"]),
    ("be-le", r"to_be_bytes", ["to_le_bytes"]),
    ("frombe-le", r"from_be_bytes", ["from_le_bytes"]),
    ("BigEndian", r"<BigEndian>", ["<LittleEndian>"]),
    ("LittleEndian", r"<LittleEndian>", ["<BigEndian>"]),
    ("Some-None", r"=> Some\(", ["=> None.or(Some(", ]),
    ("lit-8", r"\b8\b(?!\s*\])", ["9"]),
    ("lit-7", r"<< 7\b", ["<< 8"]),
    ("0x7f", r"0x7f", ["0x3f"]),
    ("0x80", r"0x80", ["0x40"]),
    ("clear", r"^\s*[a-z_\.]+\.clear\(\);\s*$", ["DELETE"]),
    ("reverse", r"\.reverse\(\)", [""]),
    ("assert", r"\bassert!\(", ["debug_assert!("]),
    ("max-min", r"cmp::max\(", ["cmp::min("]),
    ("last_mut-first_mut", r"\.last_mut\(\)", [".first_mut()"]),
    ("flush", r"^\s*[a-z_\.]+\.flush\(\)\?;\s*$", ["DELETE"]),
    ("seek0", r"SeekFrom::Start\(0\)", ["SeekFrom::Start(1)"]),
]


def code_lines(path):
    """(index, line) of non-test, non-comment lines"""
    out = []
    lines = open(path).read().split("\n")
    in_test = False
    for i, l in enumerate(lines):
        if l.strip().startswith("#[cfg(test)]"):
            in_test = True
        if in_test:
            continue
        s = l.strip()
        if not s or s.startswith("//") or s.startswith("#[") or s.startswith("use ") or s.startswith("///"):
            continue
        out.append((i, l))
    return lines, out


def gen(files):
    muts = []
    for f in files:
        lines, cl = code_lines(f)
        for i, l in cl:
            code = l.split("//")[0]
            for name, rx, reps in OPS:
                for m in re.finditer(rx, code):
                    for rep in reps:
                        if rep == "DELETE":
                            new = ""
                        else:
                            new = l[:m.start()] + rep + l[m.end():]
                            if rep.endswith("(Some(") :
                                continue
                        muts.append({"file": os.path.relpath(f, REPO), "line": i + 1, "op": name, "old": l.strip(), "new": new.strip()})
                        muts[-1]["_new_raw"] = new
    # dedupe
    seen = set()
    out = []
    for m in muts:
        k = (m["file"], m["line"], m["_new_raw"])
        if k not in seen:
            seen.add(k)
            out.append(m)
    return out


def sh(cmd, cwd, env=None, timeout=1200):
    e = dict(os.environ)
    e["CARGO_NET_OFFLINE"] = "true"
    if env:
        e.update(env)
    try:
        r = subprocess.run(cmd, cwd=cwd, env=e, shell=True, capture_output=True, text=True, timeout=timeout)
        return r.returncode, (r.stdout + r.stderr)[-2500:]
    except subprocess.TimeoutExpired:
        return 124, "timeout"


def worker(args):
    wid, muts, run_tests = args
    base = f"{WORK}/w{wid}"
    shutil.rmtree(base, ignore_errors=True)
    os.makedirs(base)
    for item in ("src", "Cargo.toml", "Cargo.lock", "benches"):
        s = os.path.join(REPO, item)
        (shutil.copytree if os.path.isdir(s) else shutil.copy)(s, os.path.join(base, item))
    tgt = f"{WORK}/t{wid}"
    env = {"CARGO_TARGET_DIR": tgt}
    res = []
    for m in muts:
        p = os.path.join(base, m["file"])
        orig = open(os.path.join(REPO, m["file"])).read()
        lines = orig.split("\n")
        lines[m["line"] - 1] = m["_new_raw"]
        open(p, "w").write("\n".join(lines))
        rec = {k: v for k, v in m.items() if not k.startswith("_")}
        rc, out = sh("cargo check --offline -q 2>&1 | tail -5", base, env)
        rec["compiles"] = rc == 0 and "error" not in out
        if rec["compiles"]:
            if run_tests:
                rc, out = sh("timeout 600 cargo test --offline -q --lib 2>&1 | tail -15", base, env, timeout=900)
                rec["suite"] = "pass" if ("test result: ok" in out and "FAILED" not in out) else ("timeout" if rc in (124,) or "timeout" in out else "fail")
            fired = {}
            r = subprocess.run([os.path.join(VERIF, "check"), "--all"], env=dict(os.environ, VERIF_REPO=base), capture_output=True, text=True, cwd=VERIF)
            for mm in re.finditer(r"VIOLATION property=(C\d+)", r.stdout):
                fired[mm.group(1)] = fired.get(mm.group(1), 0) + 1
            rules = sorted(set(re.findall(r"rule=(\S+) key=(\S+)", r.stdout)))
            rec["fired"] = sorted(fired)
            rec["rules"] = [f"{a}:{b}"[:90] for a, b in rules][:6]
        open(p, "w").write(orig)
        res.append(rec)
        tag = "NOCOMPILE" if not rec["compiles"] else (f"suite={rec.get('suite','-'):5s} checks={'|'.join(rec['fired']) or 'SILENT'}")
        print(f"{rec['file']}:{rec['line']} [{rec['op']}] {tag}   {rec['old'][:60]}  =>  {rec['new'][:60]}", flush=True)
    shutil.rmtree(base, ignore_errors=True)
    shutil.rmtree(tgt, ignore_errors=True)
    rt = hashlib.sha256(os.path.abspath(base).encode()).hexdigest()[:8]
    tdir = os.path.join(VERIF, ".cache", "target")
    for d in os.listdir(tdir):
        if d.endswith("-" + rt):
            shutil.rmtree(os.path.join(tdir, d), ignore_errors=True)
    return res


def main():
    a = sys.argv[1:]
    limit = int(a[a.index("--limit") + 1]) if "--limit" in a else None
    jobs = int(a[a.index("--jobs") + 1]) if "--jobs" in a else 6
    files = None
    if "--files" in a:
        files = [os.path.join(REPO, "src", x) for x in a[a.index("--files") + 1].split(",")]
    else:
        files = []
        for root, ds, fs in os.walk(os.path.join(REPO, "src")):
            for f in sorted(fs):
                if f.endswith(".rs"):
                    files.append(os.path.join(root, f))
    muts = gen(sorted(files))
    random.Random(int(os.environ.get("VERIF_SEED", "1"))).shuffle(muts)
    if limit:
        muts = muts[:limit]
    print(f"{len(muts)} mutants", flush=True)
    os.makedirs(WORK, exist_ok=True)
    chunks = [(i, muts[i::jobs], "--no-tests" not in a) for i in range(jobs)]
    allres = []
    with ThreadPoolExecutor(jobs) as ex:
        for r in ex.map(worker, chunks):
            allres += r
    comp = [r for r in allres if r["compiles"]]
    surv = [r for r in comp if r.get("suite") == "pass"]
    det = [r for r in surv if r["fired"]]
    summary = {"mutants": len(allres), "compile": len(comp), "pass_suite": len(surv), "pass_suite_and_reported": len(det), "pass_suite_and_silent": len(surv) - len(det),
               "killed_by_suite": len([r for r in comp if r.get("suite") == "fail"]), "killed_by_suite_and_reported": len([r for r in comp if r.get("suite") == "fail" and r["fired"]])}
    json.dump({"summary": summary, "results": allres}, open(os.path.join(VERIF, "selftest", "mutation_results.json"), "w"), indent=1)
    print(json.dumps(summary))


if __name__ == "__main__":
    main()
