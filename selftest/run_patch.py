#!/usr/bin/env python3
"""Run checks against a scratch copy of /repo with one patch applied.
usage: run_patch.py <patch.diff> [Cxx ...]   (default: all properties with a rule module)
Prints one line per property: FIRED (exit 1, with rule keys) / silent (exit 0)."""
import hashlib, json, os, re, shutil, subprocess, sys, tempfile

VERIF = os.path.dirname(os.path.dirname(os.path.abspath(__file__)))

def run(patch, props, keep=False, tier="quick"):
    patch = os.path.abspath(patch)
    tag = hashlib.sha256(patch.encode()).hexdigest()[:10]
    scratch = f"/tmp/vs/{tag}-{os.getpid()}"      # per process: checks of different properties may run side by side
    shutil.rmtree(scratch, ignore_errors=True)
    os.makedirs(scratch)
    for item in ("src", "Cargo.toml", "Cargo.lock", "benches"):
        s = os.path.join("/repo", item)
        if os.path.isdir(s):
            shutil.copytree(s, os.path.join(scratch, item))
        elif os.path.exists(s):
            shutil.copy(s, scratch)
    r = subprocess.run(["git", "apply", "--unsafe-paths", "--directory", scratch, patch], cwd="/", capture_output=True, text=True)
    if r.returncode != 0:
        r = subprocess.run(["patch", "-p1", "-i", patch], cwd=scratch, capture_output=True, text=True)
        if r.returncode != 0:
            print("PATCH DOES NOT APPLY", r.stderr[-500:]); return None
    # the scratch tree must really differ from /repo (a patch that silently did not apply would be "silent" for free)
    def _digest(root):
        h = hashlib.sha256()
        for d, ds, fs in os.walk(os.path.join(root, "src")):
            ds.sort()
            for f in sorted(fs):
                h.update(f.encode()); h.update(open(os.path.join(d, f), "rb").read())
        return h.hexdigest()
    if _digest(scratch) == _digest("/repo"):
        print("PATCH DID NOT CHANGE THE TREE"); return None
    env = dict(os.environ, VERIF_REPO=scratch)
    out = {}
    for p in props:
        r = subprocess.run([os.path.join(VERIF, "check"), p, "--tier", tier], env=env, capture_output=True, text=True, cwd=VERIF)
        rules = sorted(set(re.findall(r"rule=(\S+) key=(\S+)", r.stdout)))
        out[p] = {"rc": r.returncode, "rules": [f"{a}:{b}" for a, b in rules][:12]}
        if r.returncode != 0 and "VIOLATION property=" not in r.stdout:
            out[p]["rc"] = 3
            out[p]["note"] = "check crashed: " + (r.stderr or r.stdout)[-300:]
        if "FACT-EXTRACTION" in r.stdout:
            out[p]["note"] = "does not build"
    if not keep:
        shutil.rmtree(scratch, ignore_errors=True)
        rt = hashlib.sha256(os.path.abspath(scratch).encode()).hexdigest()[:8]
        tdir = os.path.join(VERIF, ".cache", "target")
        for d in (os.listdir(tdir) if os.path.isdir(tdir) else []):
            if d.endswith("-" + rt):
                shutil.rmtree(os.path.join(tdir, d), ignore_errors=True)
    return out

if __name__ == "__main__":
    patch = sys.argv[1]
    props = sys.argv[2:] or [f"C{i:02d}" for i in range(1, 19) if os.path.exists(os.path.join(VERIF, "rules", f"c{i:02d}.py"))]
    res = run(patch, props)
    if res is None: sys.exit(2)
    for p, r in res.items():
        print(p, "FIRED" if r["rc"] == 1 else ("silent" if r["rc"] == 0 else f"rc={r['rc']}"), *r["rules"][:6], sep="  ")
