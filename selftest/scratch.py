#!/usr/bin/env python3
"""dev helper: scratch.py <patch.diff> -> creates /tmp/vs/dbg with the patch applied (prints the path);
scratch.py --rm removes it together with its cached target dirs"""
import hashlib, os, shutil, subprocess, sys
VERIF = os.path.dirname(os.path.dirname(os.path.abspath(__file__)))
D = "/tmp/vs/dbg"
shutil.rmtree(D, ignore_errors=True)
rt = hashlib.sha256(D.encode()).hexdigest()[:8]
tdir = os.path.join(VERIF, ".cache", "target")
if sys.argv[1] == "--rm":
    for d in os.listdir(tdir):
        if d.endswith("-" + rt):
            shutil.rmtree(os.path.join(tdir, d), ignore_errors=True)
    sys.exit(0)
os.makedirs(D)
for item in ("src", "Cargo.toml", "Cargo.lock", "benches"):
    s = os.path.join("/repo", item)
    (shutil.copytree if os.path.isdir(s) else shutil.copy)(s, os.path.join(D, item))
r = subprocess.run(["patch", "-p1", "-s", "-i", os.path.abspath(sys.argv[1])], cwd=D)
print(D, r.returncode)
