#!/usr/bin/env python3
"""Confirm corrected twins of seeded changes: for each /tmp/twin/Cxx/out/N (written by a sub-agent that was given the
defective commit seeded/Cxx-N, its demo and the property text) check that the corrected commit (1) applies to a clean
scratch worktree of /repo HEAD, (2) builds with all features, (3) passes the existing suite, (4) passes the demo that the
defective commit fails.  Kept twins go to selftest/benign/twin-Cxx-N/ — the checks must be silent on them."""
import json, os, shutil, subprocess, sys, glob
from concurrent.futures import ThreadPoolExecutor

SRC = os.environ.get("TWIN_DIR", "/tmp/twin")
OUT = "/verif/selftest/benign"
WORK = "/tmp/vconfirm"

def sh(cmd, cwd, env=None, timeout=3600):
    e = dict(os.environ); e["CARGO_NET_OFFLINE"] = "true"
    if env: e.update(env)
    r = subprocess.run(cmd, cwd=cwd, env=e, shell=True, capture_output=True, text=True, timeout=timeout)
    return r.returncode, (r.stdout + r.stderr)[-3000:]

def one(args):
    worker, items = args
    wt, tgt = f"{WORK}/w{worker}", f"{WORK}/t{worker}"
    subprocess.run(f"git -C /repo worktree remove --force {wt}", shell=True, capture_output=True)
    shutil.rmtree(wt, ignore_errors=True)
    subprocess.run(f"git -C /repo worktree add -q --detach {wt} HEAD", shell=True, check=True)
    env = {"CARGO_TARGET_DIR": tgt}
    res = []
    for pid, n, d in items:
        rec = {"id": f"twin-{pid}-{n}", "twin_of": f"{pid}-{n}"}
        try:
            sh("git checkout -q -- . && git clean -fdq", wt)
            rc, out = sh(f"git apply {d}/patch.diff", wt); rec["applies"] = rc == 0
            if rc != 0: rec["log"] = out; rec["kept"] = False; res.append(rec); continue
            rc, out = sh("cargo check --offline --all-features -q", wt, env); rec["check_all_features"] = rc == 0
            rc, out = sh("cargo test --offline -q 2>&1 | tail -30", wt, env)
            rec["suite_passes"] = "FAILED" not in out and "test result: ok" in out and "could not compile" not in out
            os.makedirs(f"{wt}/tests", exist_ok=True)
            shutil.copy(f"{SRC}/{pid}/in/{n}/demo.rs", f"{wt}/tests/demo.rs")
            rc, out = sh("cargo test --offline -q --test demo 2>&1 | tail -40", wt, env)
            rec["demo_passes"] = "test result: ok" in out and "FAILED" not in out and "could not compile" not in out
            if not rec["demo_passes"]: rec["demo_log"] = out[-800:]
            rec["kept"] = all(rec.get(k) for k in ("applies", "check_all_features", "suite_passes", "demo_passes"))
        except Exception as e:
            rec["error"] = repr(e); rec["kept"] = False
        res.append(rec)
        print(json.dumps({k: v for k, v in rec.items() if not k.endswith("log")}), flush=True)
    subprocess.run(f"git -C /repo worktree remove --force {wt}", shell=True, capture_output=True)
    shutil.rmtree(tgt, ignore_errors=True)
    return res

def main():
    items = []
    for d in sorted(glob.glob(f"{SRC}/C*/out/*")):
        if os.path.exists(f"{d}/patch.diff"):
            items.append((d.split("/")[3], d.split("/")[-1], d))
    W = 8
    os.makedirs(WORK, exist_ok=True)
    allres = []
    with ThreadPoolExecutor(W) as ex:
        for r in ex.map(one, [(i, items[i::W]) for i in range(W)]):
            allres += r
    for rec in allres:
        if not rec.get("kept"): continue
        _, pid, n = rec["id"].split("-")
        d = f"{SRC}/{pid}/out/{n}"
        o = f"{OUT}/{rec['id']}"
        os.makedirs(o, exist_ok=True)
        shutil.copy(f"{d}/patch.diff", o)
        meta = json.load(open(f"{d}/meta.json")) if os.path.exists(f"{d}/meta.json") else {}
        meta["twin_of"] = rec["twin_of"]
        meta["confirmed_by_harness"] = {k: v for k, v in rec.items() if not k.endswith("log")}
        json.dump(meta, open(f"{o}/meta.json", "w"), indent=1)
    print("kept", sum(1 for r in allres if r.get("kept")), "of", len(allres))
main()
