#!/usr/bin/env python3
"""Confirm seeded changes independently: for each /tmp/seed/Cxx/out/N
   (1) patch applies to a clean scratch worktree of /repo HEAD, (2) cargo check --all-features ok,
   (3) existing test suite passes with the patch, (4) demo fails with the patch, (5) demo passes without.
Kept changes are copied to /verif/seeded/<Cxx>-<N>/ (patch.diff, demo.rs, meta.json + confirm block)."""
import json, os, shutil, subprocess, sys, glob
from concurrent.futures import ThreadPoolExecutor

SEED = os.environ.get("SEED_DIR", "/tmp/seed")
OFFSET = int(os.environ.get("SEED_OFFSET", "0"))
OUT = "/verif/seeded"
WORK = "/tmp/vconfirm"

def sh(cmd, cwd, env=None, timeout=1800):
    e = dict(os.environ); e["CARGO_NET_OFFLINE"] = "true"
    if env: e.update(env)
    r = subprocess.run(cmd, cwd=cwd, env=e, shell=True, capture_output=True, text=True, timeout=timeout)
    return r.returncode, (r.stdout + r.stderr)[-3000:]

def one(args):
    worker, items = args
    wt = f"{WORK}/w{worker}"
    tgt = f"{WORK}/t{worker}"
    subprocess.run(f"git -C /repo worktree remove --force {wt}", shell=True, capture_output=True)
    shutil.rmtree(wt, ignore_errors=True)
    subprocess.run(f"git -C /repo worktree add -q --detach {wt} HEAD", shell=True, check=True)
    env = {"CARGO_TARGET_DIR": tgt}
    res = []
    for pid, n, d in items:
        rec = {"id": f"{pid}-{n}", "property": pid}
        try:
            sh("git checkout -q -- . && git clean -fdq", wt)
            rc, out = sh(f"git apply {d}/patch.diff", wt); rec["applies"] = rc == 0
            if rc != 0: rec["log"] = out; res.append(rec); continue
            rc, out = sh("cargo check --offline --all-features -q", wt, env); rec["check_all_features"] = rc == 0
            rc, out = sh("cargo test --offline -q 2>&1 | tail -30", wt, env)
            rec["suite_passes_with_change"] = rc == 0 and "FAILED" not in out and "test result: ok" in out
            if not rec["suite_passes_with_change"]: rec["suite_log"] = out[-1500:]
            os.makedirs(f"{wt}/tests", exist_ok=True)
            shutil.copy(f"{d}/demo.rs", f"{wt}/tests/demo.rs")
            rc, out = sh("cargo test --offline -q --test demo 2>&1 | tail -40", wt, env, timeout=3600)
            rec["demo_fails_with_change"] = ("FAILED" in out or "panicked" in out or "error: test failed" in out) and "could not compile" not in out
            rec["demo_with_log"] = out[-800:]
            sh("git checkout -q -- src", wt)
            rc, out = sh("cargo test --offline -q --test demo 2>&1 | tail -20", wt, env, timeout=3600)
            rec["demo_passes_without_change"] = "test result: ok" in out and "FAILED" not in out
            if not rec["demo_passes_without_change"]: rec["demo_without_log"] = out[-800:]
            rec["kept"] = all(rec.get(k) for k in ("applies", "suite_passes_with_change", "demo_fails_with_change", "demo_passes_without_change"))
        except Exception as e:
            rec["error"] = repr(e); rec["kept"] = False
        res.append(rec)
        print(json.dumps({k: v for k, v in rec.items() if not k.endswith("log")}), flush=True)
    subprocess.run(f"git -C /repo worktree remove --force {wt}", shell=True, capture_output=True)
    shutil.rmtree(tgt, ignore_errors=True)
    return res

def main():
    items = []
    for d in sorted(glob.glob(f"{SEED}/C*/out/*")):
        if os.path.exists(f"{d}/patch.diff") and os.path.exists(f"{d}/demo.rs"):
            pid = d.split("/")[3]; n = str(int(d.split("/")[-1]) + OFFSET)
            if len(sys.argv) > 1 and f"{pid}-{n}" not in sys.argv[1:] and pid not in sys.argv[1:]:
                continue
            items.append((pid, n, d))
    W = 6
    os.makedirs(WORK, exist_ok=True)
    chunks = [(i, items[i::W]) for i in range(W)]
    allres = []
    with ThreadPoolExecutor(W) as ex:
        for r in ex.map(one, chunks):
            allres += r
    os.makedirs(OUT, exist_ok=True)
    for rec in allres:
        pid, n = rec["id"].split("-")
        d = f"{SEED}/{pid}/out/{int(n) - OFFSET}"
        if rec.get("kept"):
            o = f"{OUT}/{rec['id']}"
            os.makedirs(o, exist_ok=True)
            shutil.copy(f"{d}/patch.diff", o); shutil.copy(f"{d}/demo.rs", o)
            meta = json.load(open(f"{d}/meta.json")) if os.path.exists(f"{d}/meta.json") else {}
            meta["confirmed_by_harness"] = {k: v for k, v in rec.items() if not k.endswith("log")}
            meta["confirm_commands"] = ["git apply patch.diff", "cargo check --offline --all-features", "cargo test --offline", "cp demo.rs tests/demo.rs; cargo test --offline --test demo (fails)", "git checkout -- src; cargo test --offline --test demo (passes)"]
            json.dump(meta, open(f"{o}/meta.json", "w"), indent=1)
    json.dump(allres, open(f"{WORK}/confirm.json", "w"), indent=1)
    prev = json.load(open(f"{OUT}/confirm.json")) if os.path.exists(f"{OUT}/confirm.json") else []
    ids = {r["id"] for r in allres}
    json.dump([r for r in prev if r["id"] not in ids] + allres, open(f"{OUT}/confirm.json", "w"), indent=1)
    print("kept", sum(1 for r in allres if r.get("kept")), "of", len(allres))
main()
