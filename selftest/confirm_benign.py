#!/usr/bin/env python3
"""Confirm benign changes produced by sub-agents: /tmp/<dir>/<area>/out/N/{patch.diff,meta.json} must apply to a clean
scratch worktree of /repo HEAD, build with all features and pass the suite; kept ones go to selftest/benign/<area><batch>-N/.
usage: confirm_benign.py <dir> <batch-number>"""
import json, os, shutil, subprocess, sys, glob
from concurrent.futures import ThreadPoolExecutor
SRC, BATCH = sys.argv[1], sys.argv[2]
OUT = "/verif/selftest/benign"
WORK = "/tmp/vconfirm"

def sh(cmd, cwd, env=None, timeout=3600):
    e = dict(os.environ); e["CARGO_NET_OFFLINE"] = "true"
    if env: e.update(env)
    r = subprocess.run(cmd, cwd=cwd, env=e, shell=True, capture_output=True, text=True, timeout=timeout)
    return r.returncode, (r.stdout + r.stderr)[-3000:]

def one(args):
    worker, items = args
    wt, tgt = f"{WORK}/w{worker}", f"{WORK}/t{worker}"
    subprocess.run(f"git -C /repo worktree remove --force {wt}", shell=True, capture_output=True)
    shutil.rmtree(wt, ignore_errors=True)
    subprocess.run(f"git -C /repo worktree add -q --detach {wt} HEAD", shell=True, check=True)
    env = {"CARGO_TARGET_DIR": tgt}
    res = []
    for area, n, d in items:
        rec = {"id": f"{area}{BATCH}-{n}"}
        sh("git checkout -q -- . && git clean -fdq", wt)
        rc, out = sh(f"git apply {d}/patch.diff", wt); rec["applies"] = rc == 0
        if rc == 0:
            rc, out = sh("cargo check --offline --all-features -q", wt, env); rec["check_all_features"] = rc == 0
            rc, out = sh("cargo test --offline -q 2>&1 | tail -30", wt, env)
            rec["suite_passes"] = "FAILED" not in out and "test result: ok" in out and "could not compile" not in out
        rec["kept"] = all(rec.get(k) for k in ("applies", "check_all_features", "suite_passes"))
        rec["dir"] = d
        res.append(rec); print(json.dumps(rec), flush=True)
    subprocess.run(f"git -C /repo worktree remove --force {wt}", shell=True, capture_output=True)
    shutil.rmtree(tgt, ignore_errors=True)
    return res

items = [(d.split("/")[-3], d.split("/")[-1], d) for d in sorted(glob.glob(f"{SRC}/*/out/*")) if os.path.exists(f"{d}/patch.diff")]
os.makedirs(WORK, exist_ok=True)
W = 7
allres = []
with ThreadPoolExecutor(W) as ex:
    for r in ex.map(one, [(i, items[i::W]) for i in range(W)]):
        allres += r
for rec in allres:
    if rec["kept"]:
        o = f"{OUT}/{rec['id']}"; os.makedirs(o, exist_ok=True)
        shutil.copy(f"{rec['dir']}/patch.diff", o)
        meta = json.load(open(f"{rec['dir']}/meta.json")) if os.path.exists(f"{rec['dir']}/meta.json") else {}
        meta["confirmed_by_harness"] = {k: v for k, v in rec.items() if k != "dir"}
        json.dump(meta, open(f"{o}/meta.json", "w"), indent=1)
print("kept", sum(1 for r in allres if r["kept"]), "of", len(allres))
