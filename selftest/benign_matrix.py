#!/usr/bin/env python3
"""Behaviour-preserving refactorings must leave every check silent.
usage: benign_matrix.py [ids...] -> selftest/benign_results.json"""
import json, os, sys
from concurrent.futures import ThreadPoolExecutor
sys.path.insert(0, os.path.dirname(os.path.abspath(__file__)))
from run_patch import run, VERIF

def main():
    args = [a for a in sys.argv[1:] if not a.startswith("--")]
    base = os.path.join(VERIF, "selftest", "benign")
    ids = sorted(d for d in os.listdir(base) if os.path.isdir(os.path.join(base, d)))
    if args:
        ids = [i for i in ids if i in args or i.split("-")[0] in args]
    props = [f"C{i:02d}" for i in range(1, 19)]
    def one(i):
        r = run(os.path.join(base, i, "patch.diff"), props)
        # one retry on a crashed check (resource exhaustion under parallel load is not a verdict)
        if r and any(v.get("rc") not in (0, 1) for v in r.values()):
            r = run(os.path.join(base, i, "patch.diff"), props)
        return i, r
    res = {}
    alarms = 0
    with ThreadPoolExecutor(8) as ex:
        for i, r in ex.map(one, ids):
            res[i] = r
            if r is None:
                print(f"{i:12s} patch does not apply"); continue
            fired = {p: v["rules"] for p, v in r.items() if v["rc"] != 0}
            alarms += len(fired)
            meta = json.load(open(os.path.join(base, i, "meta.json")))
            print(f"{i:12s} {'silent' if not fired else 'ALARM ' + ' '.join(p + ':' + ','.join(x.split(':',1)[0] + '/' + x.split(':',1)[1][:40] for x in v[:2]) for p, v in fired.items())}   [{meta.get('kind')}: {meta.get('site')}]", flush=True)
    rp = os.path.join(VERIF, "selftest", "benign_results.json")
    prev = json.load(open(rp)) if (args and os.path.exists(rp)) else {}
    prev.update(res)
    json.dump({k: prev[k] for k in sorted(prev) if os.path.isdir(os.path.join(base, k))}, open(rp, "w"), indent=1)
    print(f"false alarms: {alarms} (property x refactoring pairs) over {len(ids)} refactorings")
main()
