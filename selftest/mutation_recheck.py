#!/usr/bin/env python3
"""Re-run the checks (not the test suite) on the mutants of the last full mutation run that pass the suite:
after engine changes that make the rules more tolerant of shapes, a mutant that used to be reported must still be.
usage: mutation_recheck.py [--jobs J]   (updates selftest/mutation_results.json in place: fired / rules / summary)"""
import json, os, re, shutil, subprocess, sys, hashlib
from concurrent.futures import ThreadPoolExecutor
VERIF = os.path.dirname(os.path.dirname(os.path.abspath(__file__)))
REPO = "/repo"
WORK = "/tmp/vmut"

def worker(args):
    wid, muts = args
    base = f"{WORK}/w{wid}"
    shutil.rmtree(base, ignore_errors=True)
    os.makedirs(base)
    for item in ("src", "Cargo.toml", "Cargo.lock", "benches"):
        s = os.path.join(REPO, item)
        (shutil.copytree if os.path.isdir(s) else shutil.copy)(s, os.path.join(base, item))
    out = []
    for m in muts:
        p = os.path.join(base, m["file"])
        orig = open(os.path.join(REPO, m["file"])).read()
        lines = orig.split("\n")
        if lines[m["line"] - 1].strip() != m["old"]:
            out.append((m, None)); continue
        ind = lines[m["line"] - 1][:len(lines[m["line"] - 1]) - len(lines[m["line"] - 1].lstrip())]
        lines[m["line"] - 1] = (ind + m["new"]) if m["new"] else ""
        open(p, "w").write("\n".join(lines))
        r = subprocess.run([os.path.join(VERIF, "check"), "--all"], env=dict(os.environ, VERIF_REPO=base), capture_output=True, text=True, cwd=VERIF)
        fired = sorted(set(re.findall(r"VIOLATION property=(C\d+)", r.stdout)))
        rules = sorted(set(re.findall(r"rule=(\S+) key=(\S+)", r.stdout)))
        open(p, "w").write(orig)
        out.append((m, {"fired": fired, "rules": [f"{a}:{b}"[:90] for a, b in rules][:6]}))
        print(f"{m['file']}:{m['line']} [{m['op']}] was={'|'.join(m.get('fired', [])) or 'SILENT'} now={'|'.join(fired) or 'SILENT'}", flush=True)
    shutil.rmtree(base, ignore_errors=True)
    rt = hashlib.sha256(os.path.abspath(base).encode()).hexdigest()[:8]
    tdir = os.path.join(VERIF, ".cache", "target")
    for d in os.listdir(tdir) if os.path.isdir(tdir) else []:
        if d.endswith("-" + rt):
            shutil.rmtree(os.path.join(tdir, d), ignore_errors=True)
    return out

def main():
    a = sys.argv[1:]
    jobs = int(a[a.index("--jobs") + 1]) if "--jobs" in a else 6
    rp = os.path.join(VERIF, "selftest", "mutation_results.json")
    R = json.load(open(rp))
    surv = [m for m in R["results"] if m.get("compiles") and m.get("suite") == "pass"]
    os.makedirs(WORK, exist_ok=True)
    res = []
    with ThreadPoolExecutor(jobs) as ex:
        for r in ex.map(worker, [(i, surv[i::jobs]) for i in range(jobs)]):
            res += r
    lost, gained, stale = [], [], 0
    for m, new in res:
        if new is None:
            stale += 1; continue
        if m.get("fired") and not new["fired"]:
            lost.append(m)
        if not m.get("fired") and new["fired"]:
            gained.append(m)
        m["fired"], m["rules"] = new["fired"], new["rules"]
    det = [m for m in surv if m["fired"]]
    R["summary"].update({"pass_suite": len(surv), "pass_suite_and_reported": len(det), "pass_suite_and_silent": len(surv) - len(det), "rechecked": len(res) - stale, "recheck_stale_lines": stale})
    json.dump(R, open(rp, "w"), indent=1)
    print(json.dumps(R["summary"]))
    for m in lost:
        print("LOST", m["file"], m["line"], m["op"], m["old"][:70], "=>", m["new"][:70])
    for m in gained:
        print("GAINED", m["file"], m["line"], m["op"], m["old"][:70], "=>", m["new"][:70])
main()
