#!/usr/bin/env python3
"""Run the checks against every seeded change (scratch copies under /tmp, removed afterwards).
usage: seeded_matrix.py [--all-props] [ids...]   -> selftest/seeded_results.json + table"""
import json, os, sys
from concurrent.futures import ThreadPoolExecutor
sys.path.insert(0, os.path.dirname(os.path.abspath(__file__)))
from run_patch import run, VERIF

def main():
    args = [a for a in sys.argv[1:] if not a.startswith("--")]
    allp = "--all-props" in sys.argv
    ids = sorted(d for d in os.listdir(os.path.join(VERIF, "seeded")) if os.path.exists(os.path.join(VERIF, "seeded", d, "patch.diff")))
    if args:
        ids = [i for i in ids if i in args or i.split("-")[0] in args]
    have = [f"C{i:02d}" for i in range(1, 19) if os.path.exists(os.path.join(VERIF, "rules", f"c{i:02d}.py"))]
    def one(i):
        own = i.split("-")[0]
        props = have if allp else ([own] if own in have else [])
        if not props:
            return i, None
        r = run(os.path.join(VERIF, "seeded", i, "patch.diff"), props)
        # one retry on a crashed check (resource exhaustion under parallel load is not a verdict)
        if r and any(v.get("rc") not in (0, 1) for v in r.values()):
            r = run(os.path.join(VERIF, "seeded", i, "patch.diff"), props)
        return i, r
    res = {}
    with ThreadPoolExecutor(8) as ex:
        for i, r in ex.map(one, ids):
            res[i] = r
            own = i.split("-")[0]
            if r is None:
                print(f"{i:8s} (no check yet)"); continue
            o = r.get(own, {})
            others = [p for p, v in r.items() if p != own and v["rc"] == 1]
            state = 'FIRED ' if o.get('rc') == 1 else ('silent' if o.get('rc') == 0 else f"CRASH({o.get('note', '')[-120:]})")
            print(f"{i:8s} own={state} {' '.join(o.get('rules', [])[:3])[:150]}" + (f"  | also: {','.join(others)}" if others else ""), flush=True)
    json.dump(res, open(os.path.join(VERIF, "selftest", "seeded_results.json"), "w"), indent=1)
    caught = sum(1 for i, r in res.items() if r and r.get(i.split('-')[0], {}).get("rc") == 1)
    print(f"caught by own property: {caught}/{sum(1 for r in res.values() if r)}")
main()
