// Demonstration of finding 5-E (C11): build as a binary crate depending on grenad (path = /repo, features snappy,zlib,lz4,zstd).
// Before commit e0b8054 the three marked Lz4 lines differ from the plain reader (Err / WrongMagicNumber); after it every line is ok.
use grenad::{CompressionType, Reader, Writer};
use std::io::{self, Cursor, Read, Seek, SeekFrom};

/// A reader that reports `Interrupted` before every `every`-th read call and serves at most `chunk` bytes per call.
struct Flaky { inner: Cursor<Vec<u8>>, calls: u64, every: u64, chunk: usize }
impl Read for Flaky {
    fn read(&mut self, buf: &mut [u8]) -> io::Result<usize> {
        self.calls += 1;
        if self.every != 0 && self.calls % self.every == 0 {
            return Err(io::Error::new(io::ErrorKind::Interrupted, "interrupted"));
        }
        let n = buf.len().min(self.chunk);
        self.inner.read(&mut buf[..n])
    }
}
impl Seek for Flaky { fn seek(&mut self, p: SeekFrom) -> io::Result<u64> { self.inner.seek(p) } }

fn file(ct: CompressionType) -> Vec<u8> {
    let mut wb = Writer::builder();
    wb.compression_type(ct);
    let mut w = wb.memory();
    for i in 0..3000u32 { w.insert(i.to_be_bytes(), format!("value-{i}")).unwrap(); }
    w.into_inner().unwrap()
}

fn scan<R: Read + Seek>(r: R) -> Result<usize, String> {
    let mut c = Reader::new(r).map_err(|e| format!("open: {e}"))?.into_cursor().map_err(|e| format!("cursor: {e}"))?;
    let mut n = 0;
    let mut e = c.move_on_first().map_err(|e| format!("first: {e}"))?.map(|_| ());
    while e.is_some() { n += 1; e = c.move_on_next().map_err(|e| format!("next after {n}: {e}"))?.map(|_| ()); }
    Ok(n)
}

fn main() {
    let mut bad = 0;
    for ct in [CompressionType::None, CompressionType::Snappy, CompressionType::Zlib, CompressionType::Lz4, CompressionType::Zstd] {
        let bytes = file(ct);
        let want = scan(Cursor::new(bytes.clone())).unwrap();
        for (every, chunk) in [(0u64, 1usize), (0, 7), (2, usize::MAX), (3, usize::MAX), (5, 3), (2, 1)] {
            let b = bytes.clone();
            let r = std::panic::catch_unwind(move || scan(Flaky { inner: Cursor::new(b), calls: 0, every, chunk }));
            let got = match r { Ok(Ok(n)) => format!("{n} entries"), Ok(Err(e)) => format!("Err({e})"), Err(p) => format!("PANIC({})", p.downcast_ref::<String>().cloned().or(p.downcast_ref::<&str>().map(|s| s.to_string())).unwrap_or_default()) };
            let ok = got == format!("{want} entries");
            if !ok { bad += 1; }
            println!("{ct:?} interrupted-every={every} max-bytes-per-read={chunk}: {got} {}", if ok { "ok" } else { "<-- differs from the plain reader" });
        }
    }
    std::process::exit(if bad == 0 { 0 } else { 1 });
}
