use std::io::Cursor;
use grenad::{Reader, Writer, Sorter, ChunkCreator, MergeFunction};
use std::borrow::Cow;

fn demo_a() -> bool {
    let mut wb = Writer::builder();
    wb.index_levels(2);
    let mut w = wb.memory();
    for i in 0..40_000u32 {
        let mut k = vec![0u8; 64];
        k[..4].copy_from_slice(&i.to_be_bytes());
        w.insert(&k, b"v").unwrap();
    }
    let bytes = w.into_inner().unwrap();
    let mut c = Reader::new(Cursor::new(bytes)).unwrap().into_cursor().unwrap();
    c.move_on_first().unwrap();
    c.move_on_first().unwrap();
    for _ in 0..13_500 { c.move_on_next().unwrap(); }
    let (k, _) = c.move_on_first().unwrap().unwrap();
    let got = u32::from_be_bytes([k[0],k[1],k[2],k[3]]);
    println!("A: move_on_first returned key {got}");
    got == 0
}

fn demo_b() -> bool {
    let r = std::panic::catch_unwind(|| {
        let mut wb = Writer::builder();
        wb.index_levels(255);
        let mut w = wb.memory();
        w.insert(b"a", b"b").unwrap();
        let bytes = w.into_inner().unwrap();
        let mut c = Reader::new(Cursor::new(bytes)).unwrap().into_cursor().unwrap();
        let (k, v) = c.move_on_first().unwrap().unwrap();
        assert_eq!((k, v), (&b"a"[..], &b"b"[..]));
    });
    println!("B: index_levels(255) finish ok = {}", r.is_ok());
    r.is_ok()
}

struct Bad;
impl ChunkCreator for Bad {
    type Chunk = Cursor<Vec<u8>>;
    type Error = grenad::Error;
    fn create(&self) -> Result<Self::Chunk, Self::Error> { Err(grenad::Error::InvalidFormatVersion) }
}
struct MF;
impl MergeFunction for MF {
    type Error = std::convert::Infallible;
    fn merge<'a>(&self, _k: &[u8], v: &[Cow<'a, [u8]>]) -> Result<Cow<'a, [u8]>, Self::Error> { Ok(v[0].clone()) }
}
fn demo_c() -> bool {
    let r = std::panic::catch_unwind(|| {
        let mut s = Sorter::builder(MF).chunk_creator(Bad).build();
        s.insert(b"a", b"b").unwrap();
        match s.into_stream_merger_iter() { Err(grenad::Error::InvalidFormatVersion) => true, Err(_) => false, Ok(_) => false }
    });
    println!("C: chunk creator failure surfaced as Err = {:?}", r.as_ref().map_err(|_| "panic"));
    matches!(r, Ok(true))
}

fn main() {
    let a = demo_a(); let b = demo_b(); let c = demo_c();
    std::process::exit(if a && b && c {0} else {1});
}
