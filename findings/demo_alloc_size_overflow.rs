use grenad::{Sorter, CursorVec, MergeFunction};
use std::borrow::Cow;
struct MF;
impl MergeFunction for MF {
    type Error = std::convert::Infallible;
    fn merge<'a>(&self, _k: &[u8], v: &[Cow<'a, [u8]>]) -> Result<Cow<'a, [u8]>, Self::Error> { Ok(v[0].clone()) }
}
fn main() {
    let budget: usize = std::env::args().nth(1).map(|s| usize::MAX - s.parse::<usize>().unwrap()).unwrap_or(usize::MAX);
    let r = std::panic::catch_unwind(|| {
        let mut b = Sorter::builder(MF);
        b.dump_threshold(budget);
        b.allow_realloc(false);
        let s = b.chunk_creator(CursorVec).build();
        println!("built a sorter with budget usize::MAX - {}", usize::MAX - budget);
        let mut s = s; if std::env::var("INSERT").is_ok() { s.insert(b"k", b"v").unwrap(); println!("inserted"); }
        drop(s);
    });
    println!("result: {:?}", r.map_err(|e| e.downcast_ref::<String>().cloned().or(e.downcast_ref::<&str>().map(|s| s.to_string()))));
}
