"""fixtures — every zero-expected detector is run against the fixture crate, where it MUST fire."""
from .common import *


def run(ck, pid):
    F = ck.facts("fixtures")
    R = f"{pid}-FIX"
    if pid in ("C11", "C09"):
        from .c11 import raw_io_calls, NONDET
        w = {b.path for b, s, c in raw_io_calls(F, "write")}
        r = {b.path for b, s, c in raw_io_calls(F, "read")}
        ck.ob(R, "raw-write-detector-fires", "raw_write" in w, f"fixture raw_write is detected ({sorted(w)})", config="fixtures")
        ck.ob(R, "raw-read-detector-fires", "raw_read" in r, f"fixture raw_read is detected ({sorted(r)})", config="fixtures")
        hb = F.body("hash_order")
        hit = any(any(x in (callee_name(c) + " " + c.get("inst", "")) for x in NONDET) for s, c, t in hb.calls() if c) or any("HashMap<" in l["ty"] for l in hb.locals)
        ck.ob(R, "nondeterminism-detector-fires", hit, "fixture hash_order is detected", config="fixtures")
        from . import fmt
        inv = fmt.endianness_inventory(F)
        ck.ob(R, "native-endian-detector-fires", any("_ne_bytes" in cv for f, fn, cv in inv), f"fixture native_endian is detected ({inv})", config="fixtures")
    if pid == "C12":
        from .c12 import result_uses, FALLIBLE_ERR
        found = {}
        for b in F.user_bodies():
            for rec in result_uses(F, b):
                if rec["verdict"] != "propagated":
                    found[b.path] = rec["verdict"]
        want = {"dropped_result", "ok_result", "is_ok_result", "if_let_ok", "unwrap_io", "expect_io"}
        ck.ob(R, "result-discipline-detector-fires", want <= set(found), f"fixture misuse of io::Result detected in {sorted(found.items())} (expected at least {sorted(want)})", config="fixtures")
    if pid == "C01":
        hit = {b.path for b, s, n in dropped_fill_lengths(F)}
        ck.ob(R, "fill-length-detector-fires", hit == {"fill_len_dropped"}, f"fixture fill_len_dropped is detected and fill_len_used / raw_read are not ({sorted(hit)})", config="fixtures")
    if pid in ("C17", "C01"):
        from .c17 import trunc_arith, unsafe_perimeter
        t = {b.path for b in F.user_bodies() for _ in trunc_arith(b)}
        ck.ob(R, "trunc-arith-detector-fires", {"trunc_then_sub", "trunc_then_add"} <= t, f"fixture truncate-then-arithmetic detected in {sorted(t)}", config="fixtures")
        per = unsafe_perimeter(F)
        kinds = {k for k, n in per["kinds"].items() if n}
        ck.ob(R, "unsafe-perimeter-detector-fires", per["unsafe_impls"] >= 1 and "raw_deref" in kinds and "static_mut" in kinds, f"fixture unsafe impl / raw deref / static mut detected ({per})", config="fixtures")
    if pid == "C13":
        from .c13 import panic_sources
        p1 = panic_sources(F, F.body("index_untrusted"))
        p2 = panic_sources(F, F.body("explicit_panic"))
        ck.ob(R, "panic-detector-fires", any(k == "BoundsCheck" for k, s, d in p1) and any(k == "explicit-panic" for k, s, d in p2), f"fixture bounds check / explicit panic detected ({[k for k, s, d in p1 + p2]})", config="fixtures")
    if pid == "C16":
        from .c16 import loops_reaching
        b = F.body("scan_loads")
        l = loops_reaching(F, b, lambda c: callee_name(c) == "load")
        ck.ob(R, "unbounded-loop-detector-fires", len(l) == 1, "fixture loop around a load is detected", config="fixtures")
