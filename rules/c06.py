"""C06 — k-way merge: heap order (key, then source index, reversed once), seeding by source
position, merge called once per key with values in pop order, every popped entry advanced and
pushed back, streaming loops add and drop nothing."""
from .common import *
from .c03 import return_alts, is_err_path

PID = "C06"
META = {
    "explanation": "Static analysis of the merger on the MIR of the current tree: the heap ordering expression of Entry::cmp is decoded into (primary = current key, secondary = source index, both reversed exactly once); each pushed entry's source index comes from enumerate() over the sources vector, which is only ever appended to; MergerIter::next has exactly one merge call outside every loop fed with the first popped key and once(first value).chain(values of the gathered entries in pop order); the gathering comparison is whole-key equality; each output buffer is cleared before it is refilled; every popped entry gets exactly one move_on_next whose error is propagated and is pushed back iff it still has an entry; the three streaming loops insert exactly the (key, value) the iterator yielded. That a binary heap with this order yields the sorted union is std's contract (trusted). The sources are files this Writer emits, read through this cursor: the shared file-wellformedness and cursor-traversal rules (rules/shared.py) are re-run as necessary conditions.",
    "assumptions": ["std::collections::BinaryHeap is a correct max-heap", "Iterator::chain/once/enumerate/collect semantics"],
}


def run(ck):
    for cfg in ck.configs():
        F = ck.facts(cfg)
        ck.guard("C06-R1", r1_heap_order, ck, F)
        ck.guard("C06-R2", r2_seed, ck, F)
        ck.guard("C06-R3", r3_builder, ck, F)
        ck.guard("C06-R4", r4_merge_once, ck, F)
        ck.guard("C06-R5", r5_pop_push, ck, F)
        ck.guard("C06-R6", r6_stream, ck, F)
        # the merger consumes each source with move_on_first / move_on_next: their single steps across block
        # boundaries are a necessary condition of a complete key union (shared with C03-R5 / C01-R7)
        from .c03 import r5_wrappers, r3_reset
        from .c01 import r7_mirror
        ck.guard("C06-R7", r5_wrappers, ck, F, "C06-R7")
        ck.guard("C06-R7", r7_mirror, ck, F, "C06-R7")
        ck.guard("C06-R7", r3_reset, ck, F, "C06-R7")
        from . import shared
        shared.file_wellformed(ck, F, "C06-R8")
        shared.cursor_traversal(ck, F, "C06-R7")
    ck.trusted += ["rustc MIR construction", "std BinaryHeap / Iterator adaptors"]


def _side(e):
    """which Entry an expression reads: 'self' / 'other' and what: 'key' / 'index'"""
    who = None
    what = None
    for x in e.walk():
        if x.k == "arg":
            who = "self" if x.x["i"] == 1 else "other"
        if x.k == "field" and x.x["name"] == "source_index":
            what = "index"
        if x.k == "call" and x.x["path"].endswith("ReaderCursor::<R>::current"):
            what = "key"
    return who, what


def _order_terms(e, pol=1, rank=0, out=None):
    """decode an Ordering expression into terms [(rank, what, polarity)]"""
    if out is None:
        out = []
    e = e.strip() if e.k in ("ref", "deref") else e
    if e.k == "call":
        last = e.x["path"].rsplit("::", 1)[-1]
        if last == "reverse":
            return _order_terms(e.a[0], -pol, rank, out)
        if last in ("then", "then_with"):
            _order_terms(e.a[0], pol, rank, out)
            _order_terms(e.a[1], pol, rank + 1 + len(out), out)
            return out
        if last in ("cmp", "partial_cmp"):
            ta_, tb_ = e.a[0].strip(), e.a[1].strip()
            if ta_.k == "agg" and tb_.k == "agg" and ta_.x.get("ak") == "tuple" and tb_.x.get("ak") == "tuple" and len(ta_.a) == len(tb_.a) >= 1:
                # tuples compare lexicographically: component i is the i-th criterion
                okt = True
                terms = []
                for i, (x, y) in enumerate(zip(ta_.a, tb_.a)):
                    wa, ta = _side(x)
                    wb, tb = _side(y)
                    if ta == tb and ta is not None and {wa, wb} == {"self", "other"}:
                        terms.append((rank + i, ta, pol if wa == "self" else -pol))
                    else:
                        okt = False
                if okt:
                    out.extend(terms)
                    return out
            wa, ta = _side(e.a[0])
            wb, tb = _side(e.a[1])
            if ta == tb and {wa, wb} == {"self", "other"}:
                out.append((rank, ta, pol if wa == "self" else -pol))
                return out
    out.append((rank, "?" + e.show()[:60], pol))
    return out


def r1_heap_order(ck, F, R="C06-R1"):
    b = F.body(A("merger_entry_cmp"))
    e = b.expr_at_return()
    terms = sorted(_order_terms(e))
    shape = [(w, p) for r, w, p in terms]
    ck.ob(R, "order-terms", [w for w, p in shape] == ["key", "index"], f"Entry::cmp orders by {shape} (expected primary = current key, secondary = source index)", b)
    ck.ob(R, "key-reversed", len(shape) >= 1 and shape[0] == ("key", -1), "the key comparison is reversed exactly once (max-heap pops the smallest key)", b)
    ck.ob(R, "index-reversed", len(shape) >= 2 and shape[1] == ("index", -1), "the source-index tie-break is reversed exactly once (among equal keys the earliest source pops first)", b)
    # the compared values are the key parts (field 0) of each cursor's current entry
    def _first(z):
        z = z.strip()
        return z.a[0] if (z.k == "agg" and z.x.get("ak") == "tuple" and z.a) else z     # the first component of a compared tuple
    keycmp = [x for x in e.walk() if x.k == "call" and x.x["path"].rsplit("::", 1)[-1] in ("cmp", "partial_cmp") and len(x.a) == 2 and _side(_first(x.a[0]))[1] == "key"]
    sides = None
    if len(keycmp) == 1:
        sides = [_first(z) for z in keycmp[0].a]
    okp = sides is not None
    if okp:
        for side in sides:
            side = side.strip()
            somes = [y for y in flat_alts(side) if y.k == "agg" and y.x.get("variant") == "Some"]
            nones = [y for y in flat_alts(side) if y.k == "agg" and y.x.get("variant") == "None"]
            if somes:
                okp = okp and len(somes) == 1 and tuple_part(somes[0].a[0]) == {0} and any(z.k == "call" and z.x["path"].endswith("ReaderCursor::<R>::current") for z in somes[0].a[0].walk())
            else:
                # not desugared (closure kept as a call argument): look into the closure
                cl = F.closures_of(b.path)
                okp = okp and len(cl) == 2 and all(c.expr_at_return().strip().k == "field" and c.expr_at_return().strip().x["idx"] == 0 for c in cl)
    ck.ob(R, "key-projection", okp, "the compared values are the key parts of each cursor's current entry (None when a cursor has no entry)", b)
    pc = F.body("<merger::Entry<R> as std::cmp::PartialOrd>::partial_cmp")
    r = pc.expr_at_return()
    ck.ob(R, "partial-cmp-delegates", r.k == "agg" and r.x.get("variant") == "Some" and is_call(r.a[0], A("merger_entry_cmp")) and is_arg(r.a[0].a[0], "self"), f"partial_cmp = {r.show()[:80]}", pc)
    pe = F.body("<merger::Entry<R> as std::cmp::PartialEq>::eq")
    cs = calls(pe, A("merger_entry_cmp"))
    ck.ob(R, "eq-delegates", len(cs) == 1, "eq is defined through cmp", pe)


def r2_seed(ck, F, R="C06-R2"):
    b = F.body(A("merger_into_iter"))
    ags = [(s, rv) for bb, s, rv in aggregates(F, "merger::Entry") if bb.path == b.path]
    ck.exact(R, "Entry constructions", len(ags), 1, F.config)
    for s, rv in ags:
        idx = agg_field_expr(b, s, rv, "source_index").strip()
        cur = agg_field_expr(b, s, rv, "cursor").strip()
        src = None
        ok = idx.k == "field" and idx.x["idx"] == 0 and cur.k == "field" and cur.x["idx"] == 1
        if ok:
            pi = unwrap_payload(idx.a[0], "Some")
            pc = unwrap_payload(cur.a[0], "Some")
            ok = pi is not None and pc is not None and pi.ident() == pc.ident()
            src = pi
        ck.ob(R, "index-and-cursor-from-same-item", ok, f"Entry {{ cursor: {cur.show()[:60]}, source_index: {idx.show()[:60]} }} are the two halves of one enumerate() item", b, s)
        if src is not None:
            chain = [x.x["path"].rsplit("::", 1)[-1] for x in src.walk() if x.k == "call"]
            base = [x for x in src.walk() if x.k == "field" and x.x["name"] == "sources"]
            ck.ob(R, "enumerate-over-sources", chain.count("enumerate") == 1 and set(chain) <= {"next", "into_iter", "enumerate"} and len(base) == 1,
                  f"items come from {chain} over self.sources (position = order in which sources were added; no rev/skip/filter)", b, s)
    # the entry goes into the heap directly, or into a vector that becomes the heap (BinaryHeap::from(vec))
    ps = [x for x in list(calls(b, "BinaryHeap::<T, A>::push")) + list(calls(b, "Vec::<T, A>::push"))
          if any(y.k == "agg" and y.x.get("adt") == "merger::Entry" for y in b.arg_exprs(x[0])[1].walk())]
    ck.exact(R, "pushes of a source entry while seeding", len(ps), 1, F.config)
    # every source is looked at: the seeding loop is left only when its iterator is exhausted (or with an error) —
    # `break` on the first empty source would drop every source added after it (seeded C06-23)
    if ps:
        lp = [(h, blks) for h, blks in b.loops() if ps[0][0].bb in blks]
        bad_exits = []
        okx = len(lp) >= 1
        if lp:
            h, blks = min(lp, key=lambda x: len(x[1]))
            eo = error_only_blocks(b)
            nxt = [s_ for s_, c_, t_ in b.calls() if s_.bb in blks and callee_name(c_).endswith("::next") and any(x.k == "call" and x.x["path"].endswith("enumerate") for x in b.arg_exprs(s_)[0].walk())]
            none_t = set()
            for s_ in nxt:
                pe_ = presence_edges(b, s_)
                if pe_:
                    none_t.add(pe_[2])
            for bb_ in sorted(blks):
                for sx in b.succs(bb_):
                    if sx in blks or sx in eo or sx in none_t or diverges(b, sx):
                        continue
                    bad_exits.append(b.loc(Site(bb_, None)))
            okx = bool(nxt) and not bad_exits
        ck.ob(R, "seed-loop-has-no-early-exit", okx, "the seeding loop ends only when every source was looked at (exits: iterator exhausted, or an error)" + (f" — early exit at {bad_exits}" if bad_exits else ""), b, ps[0][0])
    for bb_, s_, rv_ in aggregates(F, "merger::MergerIter"):
        if bb_.path != b.path or not ps:
            continue
        he = agg_field_expr(b, s_, rv_, "heap").strip()
        cont = b.arg_exprs(ps[0][0])[0].strip()
        while he.k == "call" and he.a and he.x["path"].rsplit("::", 1)[-1] in ("from", "into", "from_iter", "collect", "into_iter", "from_vec"):
            he = he.a[0].strip()
        ck.ob(R, "seeded-entries-become-the-heap", he.ident() == cont.ident(), f"MergerIter.heap is built from the container the source entries were pushed into ({he.show()[:50]})", b, s_)
    mv = calls(b, A("rc_prefix") + "move_on_next")
    ck.exact(R, "initial move_on_next per source", len(mv), 1, F.config)
    if ps and mv:
        pe = presence_edges(b, mv[0][0])
        ok = pe is not None and b.dominates(pe[0], ps[0][0]) and _reached_only_through(b, pe[1], pe[2], ps[0][0].bb)
        ck.ob(R, "pushed-iff-non-empty", ok, "a source is pushed iff its first move_on_next()? returned an entry", b, ps[0][0])
    mi = [(s, rv) for bb, s, rv in aggregates(F, "merger::MergerIter") if bb.path == b.path]
    for s, rv in mi:
        ck.ob(R, "merge-fn-plumbed", is_self_field(agg_field_expr(b, s, rv, "merge_function"), "merge"), "the iterator receives the merger's merge function", b, s, nontrivial=False)


REORDER = {"sort", "sort_by", "sort_by_key", "sort_unstable", "sort_unstable_by", "sort_unstable_by_key", "reverse", "swap", "insert", "remove", "swap_remove", "rotate_left", "rotate_right", "retain", "dedup", "truncate", "pop", "split_off", "drain", "clear"}


def r3_builder(ck, F):
    R = "C06-R3"
    touched = []
    for b in F.user_bodies():
        for s, c, t in b.calls():
            a = b.arg_exprs(s)
            if a and is_self_field(a[0], "sources") and (b.path.startswith("merger::") or "merger::" in b.path):
                touched.append((b, s, callee_name(c).rsplit("::", 1)[-1]))
    bad = [(b.loc(s), n) for b, s, n in touched if n in REORDER]
    names = sorted({n for b, s, n in touched})
    ck.ob(R, "sources-only-appended", not bad and set(names) <= {"push", "extend", "into_iter", "enumerate", "len", "is_empty", "iter", "capacity", "reserve", "as_slice", "deref"}, f"the sources vector is only touched by {names}" + (f" — reordering call(s): {bad}" if bad else ""), config=F.config)
    ck.floor(R, "uses of the sources vector", len(touched), 3, F.config)
    for bb, s, rv in aggregates(F, "merger::Merger"):
        ck.ob(R, "sources-moved-whole", is_self_field(agg_field_expr(bb, s, rv, "sources"), "sources") and is_self_field(agg_field_expr(bb, s, rv, "merge"), "merge"), "build() moves the vector into the Merger unchanged", bb, s)
    for bb, s, rv in aggregates(F, A("merger_builder")):
        e = agg_field_expr(bb, s, rv, "sources")
        ck.ob(R, "sources-start-empty", is_call(e, "Vec::<T>::new"), "a new builder has no sources", bb, s, nontrivial=False)


BAD_ADAPTORS = {"rev", "reverse", "sort", "sort_by", "sort_by_key", "sort_unstable", "sort_unstable_by_key", "skip", "take", "step_by", "filter", "skip_while", "take_while", "dedup"}


def _unwrap_borrowed(e):
    e = e.strip()
    if e.k == "agg" and e.x.get("variant") == "Borrowed" and e.a:
        return e.a[0]
    return e


def _seq_of_iter(e):
    """the sequence an iterator expression yields, as a list of ("one", expr) / ("gathered", expr) / ("?", text)"""
    e = e.strip()
    if e.k != "call":
        return [("?", e.show()[:40])]
    last = e.x["path"].rsplit("::", 1)[-1]
    if last in BAD_ADAPTORS:
        return [("?", "adaptor " + last)]
    if last == "chain":
        return _seq_of_iter(e.a[0]) + _seq_of_iter(e.a[1])
    if last == "once":
        return [("one", _unwrap_borrowed(e.a[0]))]
    if last in ("map", "into_iter", "copied", "cloned", "by_ref"):
        return _seq_of_iter(e.a[0])
    if last in ("filter_map", "iter", "deref", "as_slice"):
        if any(x.k == "field" and x.x["name"] == "tmp_entries" for x in e.walk()):
            names = {x.x["path"].rsplit("::", 1)[-1] for x in e.walk() if x.k == "call"}
            if names & BAD_ADAPTORS:
                return [("?", "adaptor in gathered iteration")]
            return [("gathered", e)]
        return [("?", e.show()[:40])]
    return [("?", last)]


def value_seq(b, vals, m):
    """the values handed to the merge function, in order"""
    v = vals.strip()
    while v.k == "cast" or (v.k == "call" and v.a and v.x["path"].rsplit("::", 1)[-1] in ("deref", "as_slice", "as_ref", "borrow")):
        v = v.a[0].strip()
    if v.k == "call" and v.x["path"].rsplit("::", 1)[-1] in ("collect", "from_iter"):
        return _seq_of_iter(v.a[0])
    if v.k == "agg" and v.x.get("ak") == "array":
        return [("one", _unwrap_borrowed(x)) for x in v.a]
    if v.k == "call" and v.x["path"].rsplit("::", 1)[-1] in ("with_capacity", "new") and "Vec" in v.x["path"]:
        # a vector filled step by step: the pushes / extends on it that dominate the merge, in order
        ops = []
        for s, c, t in b.calls():
            n = callee_name(c).rsplit("::", 1)[-1]
            if n in ("push", "extend", "extend_from_slice", "insert", "append", "truncate", "clear", "pop", "remove", "swap_remove", "reverse", "sort", "sort_by", "retain", "dedup", "drain"):
                a = b.arg_exprs(s)
                if a and a[0].strip().k == "call" and a[0].strip().x.get("site") == v.x.get("site"):
                    ops.append((s, n, a))
        from .fmt import dom_order
        order = dom_order(b, [s for s, n, a in ops])
        seq = []
        for s in order:
            n, a = [(n_, a_) for s_, n_, a_ in ops if s_ == s][0]
            if not b.dominates(s, m):
                seq.append(("?", f"{n} not on every path to the merge"))
            elif n == "push":
                seq.append(("one", _unwrap_borrowed(a[1])))
            elif n == "extend":
                seq += _seq_of_iter(a[1])
            else:
                seq.append(("?", n))
        return seq
    return [("?", v.show()[:50])]


def _reached_only_through(b, yes, no, target_bb):
    """within one loop iteration `target_bb` is reached from the `yes` edge and never from the `no` edge (the `no`
    edge of `if x.is_none() { continue }` goes back to the loop header, from where the *next* iteration may reach it)"""
    if b.dominates(yes, target_bb) and not b.dominates(no, target_bb):
        return True
    heads = [h for h, blks in b.loops() if target_bb in blks]
    r_yes = reachable_without(b, banned_blocks=heads, start=yes) | {yes}
    r_no = reachable_without(b, banned_blocks=heads, start=no) | {no}
    return target_bb in r_yes and target_bb not in r_no


def _is_peek(path):
    return path.endswith(("BinaryHeap::<T, A>::peek", "BinaryHeap::<T, A>::peek_mut"))


def _is_pop(path):
    """removal of the greatest element: BinaryHeap::pop, or PeekMut::pop on the handle peek_mut() returned"""
    return path.endswith("BinaryHeap::<T, A>::pop") or ("PeekMut" in path and path.endswith("::pop"))


def heap_pops(b):
    return [(s, c, t) for s, c, t in b.calls() if c and _is_pop(callee_name(c))]


def assume_heap_entries_current(ck, R, b):
    """Invariant of the merge heap: every entry in it lies on an entry of its source (`cursor.current()` is
    Some) — entries are pushed only right after a `move_on_next()` that returned Some (C06-R2 pushed-iff-non-empty
    at seeding time, C06-R5 pushed-iff-not-exhausted when put back; both are obligations of this same check).
    Under it, tests of `entry.cursor.current()` for an entry just popped / peeked are decided: their "no current
    entry" arms (defensive code) are dead and are not analysed as behaviour."""
    if getattr(b, "_heap_inv", False):
        return
    b._heap_inv = True
    forced = {}

    def from_heap(e):
        e = e.strip()
        if not (e.k == "call" and e.x["path"].endswith("ReaderCursor::<R>::current") and e.a):
            return False
        c = e.a[0].strip()
        if not (c.k == "field" and c.x["name"] == "cursor"):
            return False
        p = unwrap_payload(c.a[0], "Some")
        if p is None:
            return False
        p = p.strip()
        return p.k == "call" and (_is_pop(p.x["path"]) or _is_peek(p.x["path"])) and p.a and (is_self_field(p.a[0], "heap") or any(w.k == "field" and w.x["name"] == "heap" for w in p.a[0].walk()))
    for bb in sorted(b.normal_blocks()):
        t = b.term(bb)
        if t["t"] != "switch":
            continue
        e, enum, labels, oth = switch_on(b, bb)
        if e.k == "discr" and enum == "std::option::Option" and from_heap(e.a[0]):
            forced[bb] = 1
        else:
            d = b.expr_of_operand(t["discr"], Site(bb, None))
            neg = False
            while d.k == "un" and d.x.get("op") == "Not":
                neg, d = not neg, d.a[0]
            if d.k == "call" and d.x["path"].endswith("Option::<T>::is_some") and d.a and from_heap(d.a[0]):
                forced[bb] = 0 if neg else 1
            elif d.k == "call" and d.x["path"].endswith("Option::<T>::is_none") and d.a and from_heap(d.a[0]):
                forced[bb] = 1 if neg else 0
    if forced:
        b.force_switches(forced)
    ck.ob(R, "heap-invariant-applied", True, f"{len(forced)} test(s) of `entry.cursor.current()` on heap entries resolved by the heap invariant (entries are pushed only after a successful move_on_next)", b, nontrivial=False)


def r4_merge_once(ck, F, R="C06-R4"):
    b = F.body(A("merger_iter_next"))
    assume_heap_entries_current(ck, R, b)
    ms = calls(b, "MergeFunction::merge")
    ck.floor(R, "merge call sites in MergerIter::next", len(ms), 1, F.config)
    pops = heap_pops(b)
    if not ms or not pops:
        return
    first_pop = min(pops, key=lambda x: x[0].key())[0]
    # exactly one merge per output: the sites exclude each other and none is in a loop
    excl = all(ms[i][0].bb not in b.reachable_from(ms[j][0].bb) for i in range(len(ms)) for j in range(len(ms)) if i != j)
    ck.ob(R, "merge-outside-loops", excl and not any(b.in_loop(x[0].bb) for x in ms), f"merge is called outside every loop and at most once on any path ({len(ms)} mutually exclusive site(s)): once per output key", b, ms[0][0])
    m = ms[0][0]
    a = b.arg_exprs(m)
    for m_, c_, t_ in ms:
        a_ = b.arg_exprs(m_)
        ck.ob(R, "merge-fn", is_self_field(a_[0], "merge_function"), "the user's merge function is the one called", b, m_, nontrivial=False)
        key = a_[1].strip()
        okk = key.k == "field" and key.x["idx"] == 0 and any(x.k == "call" and x.x.get("site") == first_pop for x in key.walk())
        ck.ob(R, "merge-key-is-first-popped", okk, f"merge key = {a_[1].show()[:90]} (key of the first popped entry)", b, m_)
        seq = value_seq(b, a_[2], m_)
        ok = bool(seq) and seq[0][0] == "one"
        if ok:
            x0 = seq[0][1].strip()
            ok = x0.k == "field" and x0.x["idx"] == 1 and any(x.k == "call" and x.x.get("site") == first_pop for x in x0.walk())
        rest = seq[1:]
        ok = ok and len(rest) <= 1 and all(k == "gathered" for k, _ in rest)
        if ok and not rest:
            # no gathered values handed over: only right where nothing was gathered
            ie = [s for s, c, t in calls(b, "::is_empty") if is_self_field(b.arg_exprs(s)[0], "tmp_entries")]
            okb = False
            for s in ie:
                ed = bool_edges(b, value_site=s)
                if ed and b.dominates(ed[1], m_.bb) and not b.dominates(ed[2], m_.bb):
                    okb = True
            ok = okb
        ck.ob(R, "values-in-pop-order", ok, f"values = the first popped value, then the values of the gathered entries in gathering order ({[(k, (x.show()[:30] if hasattr(x, 'show') else x)) for k, x in seq]})", b, m_)
    for c in F.closures_of(b.path):
        if c.path.endswith("{closure#0}::{closure#0}"):
            r = c.expr_at_return().strip()
            ck.ob(R, "gathered-value-projection", r.k == "field" and r.x["idx"] == 1, "each gathered entry contributes the value part of its current entry", c)
    # Err(e) => Error::Merge(e)
    from .errflow import err_chain, propagated
    okm = all(err_chain(b, x[0]) == ["Merge"] and propagated(F, b, x[0]) for x in ms)
    ck.ob(R, "merge-error-wrapped", okm, "a merge error is returned as Error::Merge(e) (explicit `return Err(..)` or `map_err(Error::Merge)?`)", b)
    # output buffers are cleared before they are refilled
    for fld in ("current_key", "merged_value"):
        exts = [s for s, c, t in b.calls() if callee_name(c).rsplit("::", 1)[-1] in ("extend_from_slice", "extend", "push", "append") and is_self_field(b.arg_exprs(s)[0], fld)]
        clrs = [s for s, c, t in calls(b, "Vec::<T, A>::clear") if is_self_field(b.arg_exprs(s)[0], fld)]
        for x in exts:
            ok = any(b.dominates(cl, x) and not [y for y in exts if y != x and y in b.sites_between(cl, x)] for cl in clrs)
            ck.ob(R, f"buffer-cleared-before-fill/{fld}", ok, f"self.{fld} is cleared before it is filled with the new output", b, x)
        ck.floor(R, f"fills of {fld}", len(exts), 1, F.config)
    ext = [s for s, c, t in calls(b, "extend_from_slice") if is_self_field(b.arg_exprs(s)[0], "current_key")]
    if ext:
        k2 = b.arg_exprs(ext[0])[1]
        ck.ob(R, "output-key-is-merge-key", k2.ident() == a[1].ident(), "the yielded key is the key that was merged", b, ext[0])
    somes = [alt for alt in return_alts(b) if alt.k == "agg" and alt.x.get("variant") == "Ok" and alt.a[0].k == "agg" and alt.a[0].x.get("variant") == "Some"]
    ck.exact(R, "Ok(Some(..)) exits", len(somes), 1, F.config)
    for alt in somes:
        tup = alt.a[0].a[0]
        ok = tup.k == "agg" and len(tup.a) == 2 and is_self_field(tup.a[0], "current_key") and is_self_field(tup.a[1], "merged_value")
        s = alt.x.get("site")
        after_merge = s is not None and s.bb not in reachable_without(b, banned_blocks={x[0].bb for x in ms})
        ck.ob(R, "yields-buffers", ok and after_merge, "the entry yielded is (current_key, merged_value), reached only through a merge", b, s)


def r5_pop_push(ck, F, R="C06-R5"):
    b = F.body(A("merger_iter_next"))
    assume_heap_entries_current(ck, R, b)
    pops = sorted(heap_pops(b), key=lambda x: x[0].key())
    ck.exact(R, "heap pops in MergerIter::next", len(pops), 2, F.config)
    if len(pops) != 2:
        return
    p1, p2 = pops[0][0], pops[1][0]
    cmps = byte_comparisons(b)
    ck.exact(R, "key comparisons in MergerIter::next", len(cmps), 1, F.config)
    for c in cmps:
        x, y = c["a"], c["b"]
        okf = any(e.k == "call" and e.x.get("site") == p1 for e in x.walk()) and x.strip().k == "field" and x.strip().x["idx"] == 0
        oko = any(e.k == "call" and _is_peek(e.x["path"]) for e in y.walk()) and y.strip().k == "field" and y.strip().x["idx"] == 0
        if not okf:
            okf = any(e.k == "call" and e.x.get("site") == p1 for e in y.walk()) and y.strip().k == "field" and y.strip().x["idx"] == 0
            oko = any(e.k == "call" and _is_peek(e.x["path"]) for e in x.walk()) and x.strip().k == "field" and x.strip().x["idx"] == 0
        ck.ob(R, "gather-relation", c["op"] in ("==", "!=") and okf and oko, f"gathering is decided by `first key {c['op']} top-of-heap key` (whole-key equality or its negation)", b, c["site"])
        ed = bool_edges(b, value_site=c["site"])
        if ed is not None and c["op"] == "!=":
            ed = (ed[0], ed[2], ed[1])      # the edge taken when the keys are equal is the false edge of `!=`
        ok = ed is not None and b.dominates(ed[1], p2.bb) and not b.dominates(ed[2], p2.bb) and b.in_loop(p2.bb)
        ck.ob(R, "gather-arms", ok, "equal => pop it into tmp_entries and continue; different => stop gathering", b, c["site"])
    # gathering is never skipped: reaching the inspection of the heap top depends on nothing but "there was a first entry"
    pk = [s for s, c, t in b.calls() if c and _is_peek(callee_name(c))]
    ck.floor(R, "inspections of the heap top while gathering", len(pk), 1, F.config)
    for s in pk:
        extra = []
        for gbb in success_guards(b, s):
            ge = b.expr_of_operand(b.term(gbb)["discr"], Site(gbb, None))
            sh = ge.show()
            okg = (ge.k == "discr" and any(x.k == "call" and x.x.get("site") == p1 for x in ge.walk())) or \
                  (ge.k == "discr" and any(x.k == "call" and _is_peek(x.x["path"]) for x in ge.walk()))
            if not okg:
                extra.append(sh[:60])
        ck.ob(R, "gather-not-skippable", not extra, "every call inspects the heap top for entries with the same key" + (f" — NOT: gathering is skipped depending on {extra}" if extra else ""), b, s)
    pt = [s for s, c, t in calls(b, "Vec::<T, A>::push") if is_self_field(b.arg_exprs(s)[0], "tmp_entries")]
    ok = len(pt) == 1 and any(e.k == "call" and e.x.get("site") == p2 for e in b.arg_exprs(pt[0])[1].walk())
    ck.ob(R, "gathered-entry-kept", ok, "the gathered entry is kept in tmp_entries (appended, in pop order)", b)
    # put-back loop
    hp = [s for s, c, t in calls(b, "BinaryHeap::<T, A>::push")]
    mv = [s for s, c, t in calls(b, A("rc_prefix") + "move_on_next")]
    ck.exact(R, "heap pushes in MergerIter::next", len(hp), 1, F.config)
    ck.exact(R, "cursor advances in MergerIter::next", len(mv), 1, F.config)
    if hp and mv:
        it = b.arg_exprs(mv[0])[0]
        ch = [x for x in it.walk() if x.k == "call" and x.x["path"].endswith("Iterator::chain")]
        ok = len(ch) == 1 and any(e.k == "call" and e.x.get("site") == p1 for e in ch[0].a[0].walk()) and any(e.k == "call" and e.x["path"].endswith("Vec::<T, A>::drain") for e in ch[0].a[1].walk()) and any(e.k == "field" and e.x["name"] == "tmp_entries" for e in ch[0].a[1].walk())
        dr = [x for x in it.walk() if x.k == "call" and x.x["path"].endswith("Vec::<T, A>::drain")]
        okd = len(dr) == 1 and dr[0].a[1].k == "agg" and "RangeFull" in (dr[0].a[1].x.get("adt") or "")
        ck.ob(R, "putback-covers-all-popped", ok and okd, "the put-back loop iterates once(first entry).chain(tmp_entries.drain(..)) — every popped entry exactly once", b, mv[0])
        same_item = b.arg_exprs(hp[0])[1].ident() == unwrap_field_base(it)
        ck.ob(R, "pushes-advanced-entry", b.in_loop(hp[0].bb) and b.in_loop(mv[0].bb) and same_item, "the entry pushed back is the one that was just advanced", b, hp[0])
        # the put-back loop visits every popped entry: it is left only when its iterator is exhausted (or with an error)
        lp = [(h, blks) for h, blks in b.loops() if mv[0].bb in blks]
        okx = len(lp) >= 1
        bad_exits = []
        if lp:
            h, blks = min(lp, key=lambda x: len(x[1]))
            eo = error_only_blocks(b)
            nxt = [s_ for s_, c_, t_ in b.calls() if s_.bb in blks and callee_name(c_).endswith("::next") and any(x.k == "call" and x.x["path"].endswith("Iterator::chain") for x in b.arg_exprs(s_)[0].walk())]
            none_t = set()
            for s_ in nxt:
                pe_ = presence_edges(b, s_)
                if pe_:
                    none_t.add(pe_[2])
            for bb_ in sorted(blks):
                for sx in b.succs(bb_):
                    if sx in blks or sx in eo or sx in none_t:
                        continue
                    if diverges(b, sx):
                        continue
                    bad_exits.append(b.loc(Site(bb_, None)))
            okx = bool(nxt) and not bad_exits
        ck.ob(R, "putback-loop-has-no-early-exit", okx, "the put-back loop ends only when every popped entry was visited (exits: iterator exhausted, or an error)" + (f" — early exit at {bad_exits}" if bad_exits else ""), b, mv[0])
        pe = presence_edges(b, mv[0])
        ok = pe is not None and b.dominates(pe[0], hp[0]) and _reached_only_through(b, pe[1], pe[2], hp[0].bb)
        ck.ob(R, "pushed-iff-not-exhausted", ok, "pushed back iff move_on_next() returned an entry", b, hp[0])
        from .errflow import propagated
        ck.ob(R, "advance-error-propagated", propagated(F, b, mv[0]), "an error while advancing a source is returned (the source is not silently dropped)", b, mv[0])


def unwrap_field_base(e):
    e = e.strip()
    if e.k == "field" and e.x["name"] == "cursor":
        return e.a[0].ident()
    return None


def stream_loop(ck, R, F, b, tag):
    nx = calls(b, A("merger_iter_next"))
    ins = calls(b, A("writer_insert"))
    dl = calls(b, A("merger_stream"))
    if not nx and not ins and len(dl) == 1 and b.path != A("merger_stream"):
        # delegation: the entries are streamed by Merger::write_into_stream_writer (whose own loop is checked under
        # its name) into the writer handed over, and its error is propagated
        from .errflow import propagated
        ck.ob(R, f"stream-shape/{tag}", not b.in_loop(dl[0][0].bb) and propagated(F, b, dl[0][0]), f"{tag}: hands the merger to Merger::write_into_stream_writer once, error propagated", b, dl[0][0])
        return
    ck.ob(R, f"stream-shape/{tag}", len(nx) == 1 and len(ins) == 1 and b.in_loop(nx[0][0].bb) and b.in_loop(ins[0][0].bb), f"{tag}: one MergerIter::next and one Writer::insert inside one loop", b)
    if len(nx) != 1 or len(ins) != 1:
        return
    a = b.arg_exprs(ins[0][0])
    k, v = a[1].strip(), a[2].strip()
    ok = k.k == "field" and k.x["idx"] == 0 and v.k == "field" and v.x["idx"] == 1
    if ok:
        pk, pv = unwrap_payload(k.a[0], "Some"), unwrap_payload(v.a[0], "Some")
        ok = pk is not None and pv is not None and pk.strip().x.get("site") == nx[0][0] and pv.strip().x.get("site") == nx[0][0]
    ck.ob(R, f"stream-inserts-yielded-pair/{tag}", ok, f"{tag}: writer.insert(key, value) of exactly the pair next() yielded", b, ins[0][0])
    from .errflow import propagated
    for s, what in ((nx[0][0], "next"), (ins[0][0], "insert")):
        ck.ob(R, f"stream-error-propagated/{tag}/{what}", propagated(F, b, s), f"{tag}: the error of `{what}` is propagated", b, s)
    # loop ends only on None
    sw = None
    for bb in sorted(b.normal_blocks()):
        if b.term(bb)["t"] == "switch":
            e, enum, labels, oth = switch_on(b, bb)
            if e.k == "discr" and enum == "std::option::Option" and any(x.k == "call" and x.x.get("site") == nx[0][0] for x in e.walk()):
                sw = labels
    ck.ob(R, f"stream-until-none/{tag}", sw is not None and b.dominates(sw.get("Some", -1), ins[0][0].bb), f"{tag}: every Some is inserted; the loop ends at the first None", b)


def r6_stream(ck, F, R="C06-R6"):
    stream_loop(ck, R, F, F.body(A("merger_stream")), "Merger::write_into_stream_writer")
    stream_loop(ck, R, F, F.body(A("sorter_stream")), "Sorter::write_into_stream_writer")
    stream_loop(ck, R, F, F.body(A("sorter_merge_chunks")), "Sorter::merge_chunks")
