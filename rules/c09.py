"""C09 — V2 format conformance and interoperability with grenad 0.4.7: the format description the
code embodies is extracted (SEQ / TABLE / EXPR facts) and compared with (a) the numbers in the
property statement, (b) the sibling side (writer vs reader), (c) the same facts extracted from
the frozen grenad 0.4.7 sources."""
from .common import *
from . import fmt, varint
from .c01 import r4_index_pair, r5_finish_order, r3_codec_table
from .c02 import r1_lastkey, r4_offsets
from .c11 import r2_count_accepted, r6_offsets_from_count
from .c14 import r123_tables

PID = "C09"
META = {
    "explanation": "Static extraction of the file format embodied by the current tree's MIR — trailer write/read sequences per version (width, endianness, source of each field, magic, seek distances), block framing, entry framing (symbolic layout), offset-table footer, index-entry value encoding, codec id table and its inverse, an inventory of every integer<->bytes conversion with its endianness, varint tables — compared as data with the constants of the statement, with the opposite side (writer vs reader), and, with the same extractor, with grenad 0.4.7 from the cargo registry (XVER, both tiers). Also re-runs the structural rules that make index levels map last keys to child offsets. Byte-level conformance of emitted files needs execution and is not decided; the codec crates' own stream formats are trusted. Files written by 0.4.7 are read through this cursor: the shared cursor-traversal rules (rules/shared.py) are re-run as necessary conditions of interoperation.",
    "assumptions": ["byteorder's read_uN/write_uN::<E> read/write exactly N/8 bytes in endianness E", "the codec crate versions are the same on both sides in this sandbox"],
}

WANT_WRITE_V2 = [(8, "LE", "self.index_block_offset"), (1, "-", "discr(self.compression_type) as u8"), (8, "LE", "self.entries_count"), (1, "-", "self.index_levels"), (4, "LE", 0x6723D4C4)]
WANT_WRITE_V1 = [(8, "LE", "self.index_block_offset"), (1, "-", "discr(self.compression_type) as u8"), (8, "LE", "self.entries_count"), (4, "LE", 0x76324D4C)]


def run(ck):
    G = None
    for cfg in ck.configs():
        F = ck.facts(cfg)
        ck.guard("C09-R1", r1_trailer, ck, F)
        ck.guard("C09-R2", r2_block_frame, ck, F)
        ck.guard("C09-R3", r3_entry_frame, ck, F)
        ck.guard("C09-R4", r4_index_entry, ck, F)
        ck.guard("C09-R5", r5_endian, ck, F)
        ck.guard("C09-R6", r6_codec_ids, ck, F)
        # ... and each id selects the encoder / decoder family of that codec on both sides (shared with C01-R3)
        ck.guard("C09-R6", r3_codec_table, ck, F, "C09-R6")
        # index levels map the last key of each child to the child's offset; trailer last (shared)
        ck.guard("C09-R8", r4_index_pair, ck, F, "C09-R8")
        ck.guard("C09-R8", r1_lastkey, ck, F, "C09-R8")
        ck.guard("C09-R8", r4_offsets, ck, F, "C09-R8")
        ck.guard("C09-R8", r5_finish_order, ck, F, "C09-R8")
        # recorded offsets are the bytes the sink accepted (shared with C11-R2 / C11-R6)
        ck.guard("C09-R9", r2_count_accepted, ck, F, "C09-R9")
        ck.guard("C09-R9", r6_offsets_from_count, ck, F, "C09-R9")
        # the varint framing conditions (shared with C14)
        ck.guard("C09-R3", r123_tables, ck, F)
        from . import shared
        shared.file_wellformed(ck, F, "C09-R8")
        # "interoperates": files written by 0.4.7 are read by this cursor
        shared.cursor_traversal(ck, F, "C09-R10")
    ck.guard("C09-R7", r7_xver, ck)
    ck.trusted += ["rustc MIR construction", "byteorder", "the codec crates' stream formats"]


def tup(x):
    return tuple(tup(i) for i in x) if isinstance(x, (list, tuple)) else x


def r1_trailer(ck, F):
    R = "C09-R1"
    fm = anchors()["format"]
    w = fmt.trailer_write(F)
    wb = F.body(A("meta_write"))
    rb = F.body(A("meta_read"))
    ck.ob(R, "write-seq/V2", tup(w.get("FormatV2", {}).get("seq")) == tup(WANT_WRITE_V2), f"V2 trailer written as {w.get('FormatV2', {}).get('seq')} (expected u64 LE root offset, u8 codec id, u64 LE count, u8 levels, u32 LE magic 0x6723D4C4)", wb)
    ck.ob(R, "write-seq/V1", tup(w.get("FormatV1", {}).get("seq")) == tup(WANT_WRITE_V1), f"V1 trailer written as {w.get('FormatV1', {}).get('seq')}", wb)
    for ver, size_key in (("FormatV1", "meta_v1_size"), ("FormatV2", "meta_v2_size")):
        seq = w.get(ver, {}).get("seq", [])
        tot = sum(x[0] for x in seq if isinstance(x[0], int))
        ck.ob(R, f"write-width/{ver}", tot == fm[size_key] + 4, f"{ver}: widths sum to {tot} = METADATA size {fm[size_key]} + 4 magic bytes", wb)
        ck.ob(R, f"magic-last/{ver}", bool(seq) and seq[-1][0] == 4 and isinstance(seq[-1][2], int), f"{ver}: the magic is the last thing written", wb)
    ck.ob(R, "size-constants", F.const_int("metadata::METADATA_V1_SIZE") == fm["meta_v1_size"] and F.const_int("metadata::METADATA_V2_SIZE") == fm["meta_v2_size"] and F.const_int("metadata::MAGIC_V1") == fm["magic_v1"] and F.const_int("metadata::MAGIC_V2") == fm["magic_v2"],
          "METADATA_V1_SIZE=17, METADATA_V2_SIZE=18, MAGIC_V1=0x76324D4C, MAGIC_V2=0x6723D4C4", config=F.config)
    r = fmt.trailer_read(F)
    ck.ob(R, "read-magic", tup(r["magic_seek"]) == ("End", -4) and tup(r["magic_read"]) == (4, "LE") and r["magic_read_after_seek"], f"magic read at {r['magic_seek']} as {r['magic_read']}", rb)
    mt = r["magic_table"]
    ck.ob(R, "magic-table", mt.get(fm["magic_v1"]) == "FormatV1" and mt.get(fm["magic_v2"]) == "FormatV2" and "InvalidFormatVersion" in str(mt.get("otherwise")) and len(mt) == 3, f"magic table {mt}", rb)
    for ver, size_key, nread in (("FormatV1", "meta_v1_size", 3), ("FormatV2", "meta_v2_size", 4)):
        a = r.get(ver, {})
        seq = [x for x in a.get("seq", []) if x != ("seek",) and tuple(x) != ("seek",)]
        wseq = [(x[0], x[1]) for x in w.get(ver, {}).get("seq", [])[:-1]]
        ck.ob(R, f"read-seq-matches-write/{ver}", [tuple(x) for x in seq] == wseq, f"{ver}: record read as {seq}, written as {wseq}", rb)
        ck.ob(R, f"read-seek/{ver}", tup(a.get("seek")) == ("End", -(fm[size_key] + 4)), f"{ver}: record read at {a.get('seek')} (expected End(-{fm[size_key] + 4}))", rb)
        ck.ob(R, f"read-width/{ver}", sum(x[0] for x in seq) == fm[size_key], f"{ver}: read widths sum to {sum(x[0] for x in seq)} = {fm[size_key]}", rb)
        fl = a.get("fields", {})
        want = {"file_version": ("version",), "index_block_offset": ("read", 0, ()), "compression_type": ("read", 1, ("from_u8",)), "entries_count": ("read", 2, ())}
        want["index_levels"] = ("read", 3, ()) if ver == "FormatV2" else ("const", 0)
        ck.ob(R, f"read-fields/{ver}", {k: tup(v) for k, v in fl.items()} == want, f"{ver}: fields filled from {fl}", rb)


def r2_block_frame(ck, F):
    R = "C09-R2"
    w = fmt.block_frame_write(F)
    r = fmt.block_frame_read(F)
    ck.ob(R, "write", tup(w) == ((8, "BE", "len(compressed)", True), ("bytes", "compressed", True)), f"block written as {w} (expected u64 BE length of the compressed bytes, then exactly those bytes)", F.body(A("write_block")))
    ck.ob(R, "read", tup(r) == ((8, "BE"), ("take", "len-just-read"), ("decompress", "take", "into self.buffer")), f"block read as {r}", F.body(A("block_read_from")))


def r3_entry_frame(ck, F):
    R = "C09-R3"
    w = fmt.entry_frame_write(F)
    ck.ob(R, "entry-write", tup(w) == (("varint", "len(key)", "u32"), ("varint", "len(val)", "u32"), ("bytes", "key"), ("bytes", "val")), f"entry written as {w}", F.body(A("bw_insert")))
    r = fmt.entry_frame_read(F)
    ok = r.get("key") is not None and tuple(r["key"]) == ("n1+n2+s", "k+n1+n2+s") and tuple(r["val"]) == ("k+n1+n2+s", "k+n1+n2+s+v") and r["decode1_from"] == "s" and r["decode2_from"] == "n1+s" and r["returns_next"] == "k+n1+n2+s+v"
    ck.ob(R, "entry-read", ok, f"entry read as {r}", F.body(A("block_entry_at")))
    for ok_, msg, site in fmt.entry_none_guards(F):
        ck.ob(R, "entry-read-none-only-past-the-entry", ok_, "entry_at answers None only at the end of the payload or on malformed data — " + msg, F.body(A("block_entry_at")), site)
    fw = fmt.footer_write(F)
    ck.ob(R, "footer-write", tup(fw) == (("table", "index_offsets", ("u64>::to_be_bytes",), False), ("count", "index_offsets", ("u32>::to_be_bytes",))), f"footer written as {fw} (offset table u64 BE in order, then its u32 BE count)", F.body(A("bw_finish")))
    fr = fmt.footer_read(F)
    okc = fr.get("count") and fr["count"][0] == "u32 BE" and tup(fr["count"][1]) == (("-4+len", "len"),)
    okt = fr.get("table") and "u64 BE" in fr["table"][0] and fr["table"][1] == 8 and fr["table"][2] is False and tup(fr["table"][3]) == (("-4+-8*count+len", "-4+len"),)
    okp = fr.get("payload_size") == "-4+-8*count+len"
    ck.ob(R, "footer-read", bool(okc and okt and okp), f"footer read as {fr}", F.body(A("block_read_from")))


def r4_index_entry(ck, F):
    R = "C09-R4"
    w, r = fmt.index_entry_values(F)
    ck.ob(R, "values-written-be-u64", len(w) >= 4 and all(x[1] == "u64 BE" for x in w), f"index entry values are written with {sorted(set(x[1] for x in w))} at {len(w)} sites", config=F.config)
    ck.ob(R, "values-read-be-u64", len(r) >= 4 and all(x[1] == "u64 BE" for x in r), f"index entry values are decoded with {sorted(set(x[1] for x in r))} at {len(r)} sites", config=F.config)


def r5_endian(ck, F):
    R = "C09-R5"
    inv = fmt.endianness_inventory(F)
    bad = []
    for f, fn, cv in inv:
        if "_ne_bytes" in cv or "NativeEndian" in cv or " NE " in cv:
            bad.append((f, fn, cv, "native endian"))
        elif f == "metadata":
            if " LE " not in cv:
                bad.append((f, fn, cv, "trailer must be little endian"))
        elif f in ("writer", "block_writer", "block", "reader::reader_cursor"):
            if " BE " not in cv:
                bad.append((f, fn, cv, "blocks / index entries must be big endian"))
    ck.ob(R, "endianness-per-module", not bad, f"{len(inv)} integer<->bytes conversions: trailer little-endian, everything else big-endian" + (f" — deviations: {bad}" if bad else ""), config=F.config, conversions=len(inv))
    ck.floor(R, "integer<->bytes conversions inventoried", len(inv), 18, F.config)


def r6_codec_ids(ck, F):
    R = "C09-R6"
    ids = fmt.codec_ids(F)
    ck.ob(R, "ids", ids == dict(anchors()["format"]["codec_ids"]), f"codec ids {ids}", config=F.config)
    t = fmt.from_u8_table(F)
    inv = {v: k for k, v in ids.items()}
    ck.ob(R, "from_u8-inverse", all(t[x] == inv.get(x) for x in range(256)), "from_u8 inverts the id table on all 256 byte values", F.body(A("from_u8")))
    ck.exhaustive = True


def r7_xver(ck):
    R = "C09-R7"
    F = ck.facts("default")
    G = ck.facts("v047")
    a = fmt.all_format_facts(F)
    b = fmt.all_format_facts(G)
    for k in sorted(a):
        ck.ob(R, f"equal-0.4.7/{k}", tup_json(a[k]) == tup_json(b[k]), f"format fact `{k}` extracted from the working tree equals the one extracted from grenad 0.4.7" + ("" if tup_json(a[k]) == tup_json(b[k]) else f" — tree: {str(a[k])[:200]} / 0.4.7: {str(b[k])[:200]}"), config="default+v047")
    pub = lambda t: {k: v for k, v in t.items() if not k.startswith("_")} if isinstance(t, dict) else t   # `_x` keys are bookkeeping of the extractor, not format facts
    va = (varint.encode_table(F)[0], pub(varint.decode_table(F)[0]), varint.length_scanner(F))
    vb = (varint.encode_table(G)[0], pub(varint.decode_table(G)[0]), varint.length_scanner(G))
    ck.ob(R, "equal-0.4.7/varint", va == vb, "varint encode/decode/scanner tables equal grenad 0.4.7's", config="default+v047")
    xver_codec_helpers(ck, F, G, R)


def xver_codec_helpers(ck, F, G, R):
    """every codec id both versions support selects the same external encoder / decoder entry points as in the frozen
    0.4.7 sibling: what each arm of compress / decompress reaches in the codec crates, through the per-codec helpers
    or with them spliced in (which encoder / decoder, raw or framed; buffer management around them is not part of
    the format) — shared with C01-R3"""
    from .c01 import dispatch_table, _codec_calls
    tabs = {}
    for nm, X in (("tree", F), ("0.4.7", G)):
        comp, deco = X.body(A("compress")), X.body(A("decompress"))
        _, _, tc = dispatch_table(comp, comp.arg_name(1))
        _, _, td = dispatch_table(deco, deco.arg_name(1))
        tabs[nm] = {("compress", v): _codec_calls(X, comp, lst)[0] for v, lst in tc.items()}
        tabs[nm].update({("decompress", v): _codec_calls(X, deco, lst)[0] for v, lst in td.items()})
    n = 0
    for key in sorted(tabs["0.4.7"]):
        cb = sorted(tabs["0.4.7"][key])
        if not cb or key not in tabs["tree"]:
            continue  # identity arm / feature compiled out in the sibling build: nothing to compare with
        ca = sorted(tabs["tree"][key])
        n += 1
        ck.ob(R, f"codec-arm-equal-0.4.7/{key[1]}_{key[0]}", ca == cb, f"{key[0]} arm {key[1]} reaches the same codec-crate entry points as in grenad 0.4.7" + ("" if ca == cb else f" — tree only: {sorted(set(ca) - set(cb))}; 0.4.7 only: {sorted(set(cb) - set(ca))}"), F.body(A(key[0])), config="default+v047")
    ck.floor(R, "codec arms compared with 0.4.7", n, 4, "default+v047")


def tup_json(x):
    import json

    def norm(o):
        if isinstance(o, dict):
            return {str(k): norm(v) for k, v in o.items()}
        if isinstance(o, (list, tuple)):
            return [norm(v) for v in o]
        return o

    return json.dumps(norm(x), sort_keys=True, default=str)
