"""factcache — (re)generates fact files from the *current working tree* of the repository under
analysis by running `cargo +nightly check --offline` with the factgen driver as RUSTC_WRAPPER.

Freshness: the fact directory is keyed by a hash of every input of the build (src/**,
Cargo.toml, Cargo.lock, the driver binary, the configuration); any edit changes the key and
forces a new extraction. Each extraction passes a fresh nonce to the driver and fails closed
unless the fact file exists and carries that nonce (cargo replays cached output and silently
skips the wrapper on a warm target dir, so grenad's own fingerprints are deleted first).
"""
import fcntl
import hashlib
import json
import os
import shutil
import subprocess
import sys
import time
import uuid

VERIF = os.path.dirname(os.path.dirname(os.path.abspath(__file__)))
CACHE = os.path.join(VERIF, ".cache")
DRIVER_DIR = os.path.join(VERIF, "factgen")
DRIVER = os.path.join(DRIVER_DIR, "target", "debug", "factgen")

BASE_FLAGS = "-Zmir-opt-level=0 -Awarnings"
CONFIGS = {
    # id: (cargo args, extra rustflags)
    "default": ([], ""),
    "all": (["--all-features"], ""),
    "none": (["--no-default-features"], ""),
    "rel": ([], "-C debug-assertions=off -C overflow-checks=off"),
}


class FactError(Exception):
    pass


def sysroot_lib():
    out = subprocess.run(["rustc", "+nightly", "--print", "sysroot"], capture_output=True, text=True)
    if out.returncode != 0:
        raise FactError("nightly toolchain not available: " + out.stderr)
    return os.path.join(out.stdout.strip(), "lib")


def base_env():
    env = dict(os.environ)
    env["CARGO_NET_OFFLINE"] = "true"
    env["LD_LIBRARY_PATH"] = sysroot_lib() + (":" + env["LD_LIBRARY_PATH"] if env.get("LD_LIBRARY_PATH") else "")
    env.pop("RUSTC_WORKSPACE_WRAPPER", None)
    env.pop("CARGO_TARGET_DIR", None)
    env.pop("RUSTFLAGS", None)
    env.pop("CARGO_ENCODED_RUSTFLAGS", None)
    return env


def build_driver(force=False):
    """build the factgen driver (nightly, zero dependencies)"""
    os.makedirs(CACHE, exist_ok=True)
    with open(os.path.join(CACHE, "driver.lock"), "w") as lk:
        fcntl.flock(lk, fcntl.LOCK_EX)
        srcs = [os.path.join(DRIVER_DIR, "src", f) for f in sorted(os.listdir(os.path.join(DRIVER_DIR, "src")))]
        newest = max(os.path.getmtime(p) for p in srcs + [os.path.join(DRIVER_DIR, "Cargo.toml")])
        if not force and os.path.exists(DRIVER) and os.path.getmtime(DRIVER) >= newest:
            return DRIVER
        env = base_env()
        r = subprocess.run(["cargo", "+nightly", "build", "--offline"], cwd=DRIVER_DIR, env=env, capture_output=True, text=True)
        if r.returncode != 0 or not os.path.exists(DRIVER):
            raise FactError("factgen driver build failed:\n" + r.stderr[-4000:])
        return DRIVER


def driver_hash():
    h = hashlib.sha256()
    for f in sorted(os.listdir(os.path.join(DRIVER_DIR, "src"))):
        with open(os.path.join(DRIVER_DIR, "src", f), "rb") as fh:
            h.update(fh.read())
    return h.hexdigest()[:12]


def tree_hash(repo):
    h = hashlib.sha256()
    files = []
    for root, dirs, fs in os.walk(os.path.join(repo, "src")):
        dirs.sort()
        for f in sorted(fs):
            files.append(os.path.join(root, f))
    for extra in ("Cargo.toml", "Cargo.lock", "build.rs", ".cargo/config.toml", "rust-toolchain.toml", "rust-toolchain"):
        p = os.path.join(repo, extra)
        if os.path.exists(p):
            files.append(p)
    for p in files:
        h.update(os.path.relpath(p, repo).encode())
        h.update(b"\0")
        with open(p, "rb") as fh:
            h.update(fh.read())
        h.update(b"\0")
    h.update(driver_hash().encode())
    return h.hexdigest()[:20]


def _repo_tag(repo):
    return hashlib.sha256(os.path.abspath(repo).encode()).hexdigest()[:8]


def gen(repo, config, verbose=False):
    """returns path of the fact file for (repo working tree, config)"""
    if config == "v047":
        return gen_v047(verbose)
    if config == "fixtures":
        return gen_fixture(verbose)
    if config not in CONFIGS:
        raise FactError(f"unknown config {config}")
    build_driver()
    th = tree_hash(repo)
    outdir = os.path.join(CACHE, "facts", th, config)
    os.makedirs(outdir, exist_ok=True)
    lockp = os.path.join(CACHE, f"gen-{config}-{_repo_tag(repo)}.lock")
    with open(lockp, "w") as lk:
        fcntl.flock(lk, fcntl.LOCK_EX)
        done = os.path.join(outdir, "DONE")
        if os.path.exists(done):
            fp = open(done).read().strip()
            if os.path.exists(fp):
                return fp
        cargo_args, extra = CONFIGS[config]
        target = os.path.join(CACHE, "target", f"{config}-{_repo_tag(repo)}")
        seed = os.path.join(CACHE, "target", f"{config}-{_repo_tag('/repo')}")
        if not os.path.exists(target) and os.path.exists(seed) and seed != target:
            # scratch copies start from the dependency artefacts of the main tree
            shutil.copytree(seed, target, symlinks=True)
        os.makedirs(target, exist_ok=True)
        _drop_fingerprints(target, "grenad-")
        nonce = uuid.uuid4().hex
        env = base_env()
        env["RUSTFLAGS"] = (BASE_FLAGS + " " + extra).strip()
        env["RUSTC_WRAPPER"] = DRIVER
        env["FACTGEN_OUT"] = outdir
        env["FACTGEN_NONCE"] = nonce
        env["FACTGEN_CONFIG"] = config
        env["FACTGEN_CRATES"] = "grenad"
        env["CARGO_TARGET_DIR"] = target
        t0 = time.time()
        r = subprocess.run(["cargo", "+nightly", "check", "--offline", "--lib"] + cargo_args, cwd=repo, env=env, capture_output=True, text=True)
        if verbose:
            sys.stderr.write(f"[factcache] {config}: cargo check {time.time()-t0:.1f}s rc={r.returncode}\n")
        if r.returncode != 0:
            raise FactError(f"cargo check failed for config {config} (the tree does not build):\n" + r.stderr[-6000:])
        fp = _find_fact(outdir, "0.4.7", exclude=True)
        if fp is None:
            raise FactError(f"no fact file produced for config {config} (driver skipped?)\n" + r.stderr[-2000:])
        with open(fp) as fh:
            head = fh.read(400)
        if nonce not in head:
            raise FactError(f"stale fact file for config {config}: nonce mismatch (cargo replayed a cached build)")
        with open(done, "w") as fh:
            fh.write(fp)
        _prune_old_facts(keep=th)
        return fp


def _find_fact(outdir, version, exclude=False):
    for f in sorted(os.listdir(outdir)):
        if f.startswith("grenad-") and f.endswith(".json"):
            is_v = f == f"grenad-{version}.json"
            if is_v != exclude:
                return os.path.join(outdir, f)
    return None


def _drop_fingerprints(target, prefix):
    for prof in ("debug", "release"):
        fpd = os.path.join(target, prof, ".fingerprint")
        if os.path.isdir(fpd):
            for d in os.listdir(fpd):
                if d.startswith(prefix):
                    shutil.rmtree(os.path.join(fpd, d), ignore_errors=True)


def _prune_old_facts(keep, limit=40):
    base = os.path.join(CACHE, "facts")
    try:
        ds = [d for d in os.listdir(base) if d not in (keep, "v047")]
    except FileNotFoundError:
        return
    def _mt(d):
        try:
            return os.path.getmtime(os.path.join(base, d))
        except OSError:
            return 0.0      # removed by a concurrent check in the meantime
    ds.sort(key=_mt)
    now = time.time()
    for d in ds[:-limit] if len(ds) > limit else []:
        # never remove facts another process may just have been handed: only entries untouched for two hours
        try:
            if now - os.path.getmtime(os.path.join(base, d)) > 7200:
                shutil.rmtree(os.path.join(base, d), ignore_errors=True)
        except OSError:
            pass


def gen_fixture(verbose=False):
    """facts of the fixture crate (positive examples of the zero-expected rules)"""
    build_driver()
    fx = os.path.join(VERIF, "fixtures")
    h = hashlib.sha256()
    with open(os.path.join(fx, "src", "lib.rs"), "rb") as fh:
        h.update(fh.read())
    h.update(driver_hash().encode())
    outdir = os.path.join(CACHE, "facts", "fixtures", h.hexdigest()[:16])
    os.makedirs(outdir, exist_ok=True)
    with open(os.path.join(CACHE, "gen-fixtures.lock"), "w") as lk:
        fcntl.flock(lk, fcntl.LOCK_EX)
        done = os.path.join(outdir, "DONE")
        if os.path.exists(done):
            fp = open(done).read().strip()
            if os.path.exists(fp):
                return fp
        target = os.path.join(CACHE, "target", "fixtures")
        _drop_fingerprints(target, "vfix-")
        nonce = uuid.uuid4().hex
        env = base_env()
        env["RUSTFLAGS"] = BASE_FLAGS
        env["RUSTC_WRAPPER"] = DRIVER
        env["FACTGEN_OUT"] = outdir
        env["FACTGEN_NONCE"] = nonce
        env["FACTGEN_CONFIG"] = "fixtures"
        env["FACTGEN_CRATES"] = "vfix"
        env["CARGO_TARGET_DIR"] = target
        r = subprocess.run(["cargo", "+nightly", "check", "--offline"], cwd=fx, env=env, capture_output=True, text=True)
        if r.returncode != 0:
            raise FactError("cargo check of the fixture crate failed:\n" + r.stderr[-4000:])
        fp = os.path.join(outdir, "vfix-0.0.0.json")
        if not os.path.exists(fp):
            raise FactError("no fact file for the fixture crate")
        with open(fp) as fh:
            if nonce not in fh.read(400):
                raise FactError("stale fixture fact file")
        with open(done, "w") as fh:
            fh.write(fp)
        return fp


def gen_v047(verbose=False):
    """facts of the frozen sibling implementation grenad 0.4.7 (registry source, compiled through
    a tiny harness crate that depends on nothing else; lock file copied from the repository)"""
    build_driver()
    outdir = os.path.join(CACHE, "facts", "v047", driver_hash())
    os.makedirs(outdir, exist_ok=True)
    with open(os.path.join(CACHE, "gen-v047.lock"), "w") as lk:
        fcntl.flock(lk, fcntl.LOCK_EX)
        done = os.path.join(outdir, "DONE")
        if os.path.exists(done):
            fp = open(done).read().strip()
            if os.path.exists(fp):
                return fp
        h = os.path.join(CACHE, "xver047")
        os.makedirs(os.path.join(h, "src"), exist_ok=True)
        with open(os.path.join(h, "Cargo.toml"), "w") as fh:
            fh.write('[package]\nname = "xver047"\nversion = "0.0.0"\nedition = "2018"\n\n[dependencies]\ngrenad = "=0.4.7"\n\n[workspace]\n')
        with open(os.path.join(h, "src", "lib.rs"), "w") as fh:
            fh.write("pub use grenad as g047;\n")
        shutil.copy(os.path.join(os.environ.get("VERIF_LOCK_FROM", "/repo"), "Cargo.lock"), os.path.join(h, "Cargo.lock"))
        target = os.path.join(CACHE, "target", "v047")
        _drop_fingerprints(target, "grenad-")
        nonce = uuid.uuid4().hex
        env = base_env()
        env["RUSTFLAGS"] = BASE_FLAGS
        env["RUSTC_WRAPPER"] = DRIVER
        env["FACTGEN_OUT"] = outdir
        env["FACTGEN_NONCE"] = nonce
        env["FACTGEN_CONFIG"] = "v047"
        env["FACTGEN_CRATES"] = "grenad"
        env["CARGO_TARGET_DIR"] = target
        r = subprocess.run(["cargo", "+nightly", "check", "--offline"], cwd=h, env=env, capture_output=True, text=True)
        if r.returncode != 0:
            raise FactError("cargo check of the grenad 0.4.7 harness failed:\n" + r.stderr[-6000:])
        fp = _find_fact(outdir, "0.4.7")
        if fp is None:
            raise FactError("no fact file for grenad 0.4.7\n" + r.stderr[-2000:])
        with open(fp) as fh:
            if nonce not in fh.read(400):
                raise FactError("stale fact file for grenad 0.4.7")
        with open(done, "w") as fh:
            fh.write(fp)
        return fp


if __name__ == "__main__":
    repo = os.environ.get("VERIF_REPO", "/repo")
    for c in sys.argv[1:] or ["default"]:
        t = time.time()
        print(c, gen(repo, c, verbose=True), f"{time.time()-t:.1f}s")
