"""dev tool: python3 -m rules.show <config> <regex> [calls|mir|ret|stores]"""
import sys, glob
from .mirlib import *
from . import factcache

def main():
    cfg, pat = sys.argv[1], sys.argv[2]
    mode = sys.argv[3] if len(sys.argv) > 3 else "calls"
    import os
    f = Facts(factcache.gen(os.environ.get("VERIF_REPO", "/repo"), cfg))
    for b in f.find_bodies(pat):
        print(f"== {b.path} {b.loc()}")
        if mode == "mir":
            dump_body(b)
        elif mode == "calls":
            for site, c, t in b.calls():
                args = [e.show() for e in b.arg_exprs(site)]
                print(f"  {site} L{t['span']['line']} {callee_name(c)}({', '.join(args)})  -> {place_str(t['dest'], b)}")
        elif mode == "stores":
            for site, st in b.sites():
                if site.i is not None and st["s"] == "assign" and st["pl"]["p"]:
                    print(f"  {site} L{st['span']['line']} {place_str(st['pl'], b)} := {b._expr_of_def((site,'assign',st['rv']),0,frozenset(),None).show()}")
        elif mode == "ret":
            print("  ", b.expr_at_return().show())
main()
