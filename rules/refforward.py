"""refforward — `*p` where `p = &mut <place>` (or `&<place>`) becomes `<place>`.

A helper that takes `&mut self.field` (or `&mut local`) and reads / writes through it, once spliced into its caller,
leaves accesses of the form `(*p).x` with `p` a local whose only definition is a borrow of a place of the caller.
Rules look for accesses of the place itself (a store to `self.current_offset`, a read of `self.buffer`): this pass
rewrites every `(*p)…` into `<place>…` when that is exactly what it denotes:
  * p has a single definition in the body, `p = &[mut] <place>` or `p = move/copy q` with q such a local;
  * <place> is rooted at a local that is an argument or is itself defined once, and its projections contain no
    index by a local (the place cannot denote something else later).
Only applied to bodies that had something spliced into them (inline.py / desugar.py)."""
import copy


def _defs(body):
    d = {}
    for bi, blk in enumerate(body["blocks"]):
        for st in blk["stmts"]:
            if st.get("s") == "assign" and not st["pl"]["p"]:
                d.setdefault(st["pl"]["l"], []).append(st["rv"])
        t = blk["term"]
        if t.get("t") == "call" and not t["dest"]["p"]:
            d.setdefault(t["dest"]["l"], []).append({"rv": "call"})
    return d


def forward(raw, only_paths=None):
    n = 0
    for body in raw["bodies"]:
        if only_paths is not None and body["path"] not in only_paths:
            continue
        n += _forward_body(body)
    return n


def _stable_place(pl, defs, argc):
    if any(isinstance(el, dict) and "index" in el for el in pl["p"]):
        return False
    l = pl["l"]
    return 1 <= l <= argc or len(defs.get(l, [])) == 1


def _forward_body(body):
    defs = _defs(body)
    argc = body["arg_count"]
    target = {}
    changed = True
    while changed:
        changed = False
        for l, ds in defs.items():
            if l in target or len(ds) != 1 or l <= argc:
                continue
            rv = ds[0]
            if rv.get("rv") == "ref" and rv.get("bk") in ("mut", "Mut", "shared", "Shared", "unique") and _stable_place(rv["pl"], defs, argc):
                pl = rv["pl"]
                # reborrow of another forwarded pointer: &mut *q
                if pl["p"] and pl["p"][0] == "*" and pl["l"] in target:
                    base = target[pl["l"]]
                    target[l] = {"l": base["l"], "p": list(base["p"]) + list(pl["p"][1:])}
                else:
                    target[l] = {"l": pl["l"], "p": list(pl["p"])}
                changed = True
            elif rv.get("rv") == "use" and rv["op"].get("k") in ("move", "copy") and not rv["op"]["pl"]["p"] and rv["op"]["pl"]["l"] in target:
                target[l] = target[rv["op"]["pl"]["l"]]
                changed = True
    # only pointers to a place with at least one projection, or to a local, are interesting; skip self-typed params
    target = {l: t for l, t in target.items() if t["l"] != l}
    if not target:
        return 0
    n = 0

    def walk(o):
        nonlocal n
        if isinstance(o, dict):
            if "l" in o and "p" in o and isinstance(o["p"], list):
                if o["p"] and o["p"][0] == "*" and o["l"] in target:
                    t = target[o["l"]]
                    o["l"] = t["l"]
                    o["p"] = copy.deepcopy(t["p"]) + o["p"][1:]
                    n += 1
                return
            for k, v in o.items():
                if k not in ("span", "fn"):
                    walk(v)
        elif isinstance(o, list):
            for v in o:
                walk(v)
    for blk in body["blocks"]:
        walk(blk["stmts"])
        walk(blk["term"])
    # a forwarded pointer nobody mentions any more: its borrow statement goes too (a leftover `&mut self.field`
    # would read as "this function borrows the field mutably" although every access was rewritten to the place)
    used = set()
    def note(o):
        if isinstance(o, dict):
            if "l" in o and "p" in o and isinstance(o["p"], list):
                used.add(o["l"])
                for el in o["p"]:
                    if isinstance(el, dict) and "index" in el:
                        used.add(el["index"])
                return
            for k, v in o.items():
                if k not in ("span", "fn"):
                    note(v)
        elif isinstance(o, list):
            for v in o:
                note(v)
    for _round in range(6):
        used = set()
        for blk in body["blocks"]:
            for st in blk["stmts"]:
                if st.get("s") == "assign" and not st["pl"]["p"] and st["pl"]["l"] in target:
                    note(st["rv"])
                else:
                    note(st)
            note(blk["term"])
        dead = 0
        for blk in body["blocks"]:
            keep = [st for st in blk["stmts"] if not (st.get("s") == "assign" and not st["pl"]["p"] and st["pl"]["l"] in target and st["pl"]["l"] not in used)]
            dead += len(blk["stmts"]) - len(keep)
            blk["stmts"] = keep
        if not dead:
            break
    return n
