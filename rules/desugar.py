"""desugar — MIR-level normalisation of Option/Result combinators.

`x.map(f)`, `x.and_then(f)`, `x.map_err(f)`, `x.map_or(d, f)`, `x.map_or_else(g, f)`,
`x.unwrap_or_else(g)`, `x.ok_or_else(g)`, `x.or_else(g)`, `x.filter(p)` on Option / Result are
rewritten, before any rule runs, into the match they are defined as in std: a discriminant
switch whose arms apply the function argument — a closure of the crate is inlined at that point
(its environment becomes a borrow of the closure value, its parameters assignments), a function
item becomes an ordinary call.  After this pass code written with combinators, with closures, with
named helper functions or with an explicit `match` has the same shape, so rules are insensitive to
that choice.  Sites whose function argument is not statically known (a closure received as a
parameter) are left as calls."""
import copy

from .inline import _renum

INLINED_CLOSURES = set()
OPTION = "std::option::Option"
RESULT = "std::result::Result"

# callee path -> (subject enum, {variant: action}, result enum)
#   actions: ("wrap", V, i)   result = V(f_i(payload))        ("call", i)    result = f_i(payload)
#            ("keep", V)      result = V(payload) / V         ("arg", i)     result = args[i]
#            ("call0", i)     result = f_i()                   ("wrap0", V, i) result = V(f_i())
#            ("payload",)     result = payload                 ("filter", i)  Some(x) if f_i(&x) else None
SPECS = {
    "std::option::Option::<T>::map": (OPTION, {"Some": ("wrap", "Some", 1), "None": ("keep", "None")}, OPTION),
    "std::option::Option::<T>::and_then": (OPTION, {"Some": ("call", 1), "None": ("keep", "None")}, OPTION),
    "std::option::Option::<T>::map_or": (OPTION, {"Some": ("call", 2), "None": ("arg", 1)}, None),
    "std::option::Option::<T>::map_or_else": (OPTION, {"Some": ("call", 2), "None": ("call0", 1)}, None),
    "std::option::Option::<T>::unwrap_or_else": (OPTION, {"Some": ("payload",), "None": ("call0", 1)}, None),
    "std::option::Option::<T>::ok_or_else": (OPTION, {"Some": ("keepas", "Ok"), "None": ("wrap0", "Err", 1)}, RESULT),
    "std::option::Option::<T>::ok_or": (OPTION, {"Some": ("keepas", "Ok"), "None": ("wraparg", "Err", 1)}, RESULT),
    "std::option::Option::<T>::unwrap_or": (OPTION, {"Some": ("payload",), "None": ("arg", 1)}, None),
    "std::option::Option::<T>::or": (OPTION, {"Some": ("keep", "Some"), "None": ("arg", 1)}, OPTION),
    "std::result::Result::<T, E>::ok": (RESULT, {"Ok": ("keepas", "Some"), "Err": ("unit", "None")}, OPTION),
    "std::result::Result::<T, E>::unwrap_or": (RESULT, {"Ok": ("payload",), "Err": ("arg", 1)}, None),
    "std::option::Option::<T>::or_else": (OPTION, {"Some": ("keep", "Some"), "None": ("call0", 1)}, OPTION),
    "std::option::Option::<T>::filter": (OPTION, {"Some": ("filter", 1), "None": ("keep", "None")}, OPTION),
    "std::result::Result::<T, E>::map": (RESULT, {"Ok": ("wrap", "Ok", 1), "Err": ("keep", "Err")}, RESULT),
    "std::result::Result::<T, E>::map_err": (RESULT, {"Ok": ("keep", "Ok"), "Err": ("wrap", "Err", 1)}, RESULT),
    "std::result::Result::<T, E>::and_then": (RESULT, {"Ok": ("call", 1), "Err": ("keep", "Err")}, RESULT),
    "std::result::Result::<T, E>::or_else": (RESULT, {"Ok": ("keep", "Ok"), "Err": ("call", 1)}, RESULT),
    "std::result::Result::<T, E>::unwrap_or_else": (RESULT, {"Ok": ("payload",), "Err": ("call", 1)}, None),
    "std::result::Result::<T, E>::map_or_else": (RESULT, {"Ok": ("call", 2), "Err": ("call", 1)}, None),
    # presence tests: a match on the discriminant yielding a constant (so that a value tested twice — `x.is_some()`
    # here, `if let Some(..) = x` there — is pruned and threaded like any other known variant)
    "std::option::Option::<T>::is_some": (OPTION, {"Some": ("bool", 1), "None": ("bool", 0)}, None),
    "std::option::Option::<T>::is_none": (OPTION, {"Some": ("bool", 0), "None": ("bool", 1)}, None),
    "std::result::Result::<T, E>::is_ok": (RESULT, {"Ok": ("bool", 1), "Err": ("bool", 0)}, None),
    "std::result::Result::<T, E>::is_err": (RESULT, {"Ok": ("bool", 0), "Err": ("bool", 1)}, None),
}
VIDX = {OPTION: {"None": 0, "Some": 1}, RESULT: {"Ok": 0, "Err": 1}}
NFIELDS = {"None": 0, "Some": 1, "Ok": 1, "Err": 1}


def _ctor_table(raw):
    """def path of every tuple-variant constructor usable as a function value -> (enum path, variant, variant index)"""
    out = {"std::option::Option::Some": (OPTION, "Some", 1), "std::result::Result::Ok": (RESULT, "Ok", 0), "std::result::Result::Err": (RESULT, "Err", 1)}
    for a in raw.get("adts", []):
        if a.get("kind") == "Enum":
            for i, v in enumerate(a.get("variants", [])):
                if v.get("fields"):
                    out[f"{a['path']}::{v['name']}"] = (a["path"], v["name"], i)
    return out


def _rewrite_ctor_calls(raw):
    """`Enum::Variant(x)` written as a call of the constructor function (as happens when the constructor is used as a
    function value: `.map_err(Error::Merge)`) is the construction of that variant"""
    tab = _ctor_table(raw)
    n = 0
    for b in raw["bodies"]:
        for blk in b["blocks"]:
            t = blk["term"]
            if t.get("t") != "call" or t.get("target") is None:
                continue
            f = t.get("func", {})
            if not (f.get("k") == "const" and "fn" in f):
                continue
            hit = tab.get(f["fn"]["path"])
            if hit is None:
                continue
            enum, variant, vidx = hit
            blk["stmts"].append({"s": "assign", "pl": t["dest"], "rv": {"rv": "agg", "ak": "adt", "adt": enum, "adt_inst": enum, "variant": variant, "vidx": vidx, "fields": [str(i) for i in range(len(t["args"]))], "ops": t["args"]}, "span": t.get("span")})
            blk["term"] = {"t": "goto", "target": t["target"], "span": t.get("span")}
            n += 1
    return n


def desugar(raw, max_rounds=6):
    INLINED_CLOSURES.clear()
    by_path = {}
    for b in raw["bodies"]:
        by_path.setdefault(b["path"], []).append(b)
    _rewrite_ctor_calls(raw)
    n = 0
    for _ in range(max_rounds):
        changed = False
        for b in raw["bodies"]:
            for bi in range(len(b["blocks"])):
                t = b["blocks"][bi]["term"]
                if t.get("t") != "call" or t.get("target") is None:
                    continue
                f = t.get("func", {})
                if not (f.get("k") == "const" and "fn" in f):
                    continue
                if f["fn"]["path"] == "std::option::Option::<T>::zip":
                    if _rewrite_zip(b, bi, t):
                        n += 1
                        changed = True
                    continue
                if f["fn"]["path"] == "std::cmp::Ordering::then_with":
                    if _rewrite_then_with(b, bi, t, by_path):
                        n += 1
                        changed = True
                    continue
                if f["fn"]["path"] in CLOSURE_CALLS:
                    if _rewrite_closure_call(b, bi, t, by_path):
                        n += 1
                        changed = True
                    continue
                if f["fn"]["path"] in ITER_CONSUMERS:
                    if _rewrite_iter(b, bi, t, ITER_CONSUMERS[f["fn"]["path"]], by_path):
                        n += 1
                        changed = True
                    continue
                spec = SPECS.get(f["fn"]["path"])
                if spec is None:
                    continue
                if _rewrite(b, bi, t, spec, by_path):
                    n += 1
                    changed = True
        if not changed:
            break
    n += _rewrite_ctor_calls(raw)
    raw["_inlined_closures"] = sorted(INLINED_CLOSURES)
    return n


class B:
    """builder of new locals / blocks in a caller body"""

    def __init__(self, body, span):
        self.b = body
        self.span = span

    def local(self, ty):
        self.b["locals"].append({"ty": ty})
        return len(self.b["locals"]) - 1

    def block(self):
        self.b["blocks"].append({"stmts": [], "term": {"t": "unreachable", "span": self.span}, "cleanup": False})
        return len(self.b["blocks"]) - 1

    def assign(self, bb, pl, rv):
        self.b["blocks"][bb]["stmts"].append({"s": "assign", "pl": pl, "rv": rv, "span": self.span})

    def term(self, bb, t):
        t["span"] = self.span
        self.b["blocks"][bb]["term"] = t


def P(l, ty="?", proj=None):
    return {"l": l, "p": proj or [], "ty": ty}


def mv(l, ty="?"):
    return {"k": "move", "pl": P(l, ty)}


def cp(l, ty="?"):
    return {"k": "copy", "pl": P(l, ty)}


def agg(enum, variant, ops):
    return {"rv": "agg", "ak": "adt", "adt": enum, "adt_inst": enum, "variant": variant, "vidx": VIDX[enum][variant], "fields": ["0"] if ops else [], "ops": ops}


def payload_place(l, enum, variant, ty="?"):
    return P(l, ty, [{"downcast": variant, "vidx": VIDX[enum][variant]}, {"f": 0, "ty": ty, "name": "0", "adt": enum, "variant": variant}])


def _closure_of(body, op):
    """if operand is a local whose definitions are all the same closure aggregate: (local, closure path)"""
    if op.get("k") not in ("move", "copy") or op["pl"]["p"]:
        return None
    l = op["pl"]["l"]
    found = None
    for blk in body["blocks"]:
        for st in blk["stmts"]:
            if st["s"] == "assign" and not st["pl"]["p"] and st["pl"]["l"] == l:
                rv = st["rv"]
                if rv["rv"] == "agg" and rv.get("ak") == "closure":
                    if found and found != rv["closure"]:
                        return None
                    found = rv["closure"]
                else:
                    return None
        t = blk["term"]
        if t.get("t") == "call" and not t["dest"]["p"] and t["dest"]["l"] == l:
            return None
    return (l, found) if found else None


def _fn_item(op):
    if op.get("k") == "const" and "fn" in op:
        return op
    return None


def _apply(B_, body, by_path, bb, fop, arg_ops, dest_local, dest_ty, unwind):
    """emit `dest = f(args)` starting in block bb; returns the block in which control continues,
    or None if f is not statically known"""
    fi = _fn_item(fop)
    if fi is not None:
        nxt = B_.block()
        B_.term(bb, {"t": "call", "func": copy.deepcopy(fi), "args": arg_ops, "dest": P(dest_local, dest_ty), "target": nxt, "unwind": unwind})
        return nxt
    cl = _closure_of(body, fop)
    if cl is None:
        return None
    cl_local, cpath = cl
    cands = by_path.get(cpath, [])
    if len(cands) != 1:
        return None
    callee = cands[0]
    if callee["arg_count"] != 1 + len(arg_ops):
        return None
    # splice the closure body
    lo = len(body["locals"])
    bo = len(body["blocks"])
    body["locals"].extend(copy.deepcopy(callee["locals"]))
    blocks = copy.deepcopy(callee["blocks"])
    cont = B_.block()  # allocated before the copy is appended? no: allocate after
    # (cont was appended at index bo; the copied blocks follow it)
    bo = len(body["blocks"])
    for blk in blocks:
        _renum(blk["stmts"], lo, bo)
        _renum(blk["term"], lo, bo)
        if blk["term"].get("t") == "return":
            sp = blk["term"]["span"]
            blk["stmts"].append({"s": "assign", "pl": P(dest_local, dest_ty), "rv": {"rv": "use", "op": mv(lo, callee["locals"][0]["ty"])}, "span": sp})
            blk["term"] = {"t": "goto", "target": cont, "span": sp}
        elif blk["term"].get("t") == "resume" and isinstance(unwind, int):
            blk["term"] = {"t": "goto", "target": unwind, "span": blk["term"]["span"]}
    body["blocks"].extend(blocks)
    INLINED_CLOSURES.add(cpath)
    for n in callee["names"]:
        n2 = copy.deepcopy(n)
        _renum(n2["place"], lo, 0)
        if not n2["place"]["p"] and n2["place"]["l"] == lo + 1:
            continue
        body["names"].append(n2)
    # environment
    env_ty = callee["locals"][1]["ty"]
    if env_ty.startswith("&mut"):
        B_.assign(bb, P(lo + 1, env_ty), {"rv": "ref", "bk": "mut", "pl": P(cl_local)})
    elif env_ty.startswith("&"):
        B_.assign(bb, P(lo + 1, env_ty), {"rv": "ref", "bk": "shared", "pl": P(cl_local)})
    else:
        B_.assign(bb, P(lo + 1, env_ty), {"rv": "use", "op": mv(cl_local)})
    for i, a in enumerate(arg_ops):
        B_.assign(bb, P(lo + 2 + i, callee["locals"][2 + i]["ty"]), {"rv": "use", "op": a})
    B_.term(bb, {"t": "goto", "target": bo, "inlined": cpath})
    return cont


def _rewrite_zip(body, bi, t):
    """a.zip(b): Some((x, y)) when both are Some, None otherwise — as the two nested matches"""
    args = t["args"]
    if len(args) != 2 or t["dest"]["p"] or t.get("target") is None:
        return False
    Bd = B(body, t["span"])
    dl, dty = t["dest"]["l"], t["dest"]["ty"]
    target = t["target"]
    locs = []
    for a in args:
        if a.get("k") in ("move", "copy") and not a["pl"]["p"]:
            locs.append((a["pl"]["l"], body["locals"][a["pl"]["l"]]["ty"]))
        else:
            ty = a.get("ty") or a.get("pl", {}).get("ty", "?")
            l = Bd.local(ty)
            Bd.assign(bi, P(l, ty), {"rv": "use", "op": a})
            locs.append((l, ty))
    none_bb, unreach = Bd.block(), Bd.block()
    Bd.assign(none_bb, P(dl, dty), agg(OPTION, "None", []))
    Bd.term(none_bb, {"t": "goto", "target": target})
    d1 = Bd.local("isize")
    Bd.assign(bi, P(d1, "isize"), {"rv": "discr", "pl": P(locs[0][0], locs[0][1])})
    some1 = Bd.block()
    Bd.term(bi, {"t": "switch", "discr": mv(d1, "isize"), "discr_ty": "isize", "arms": [["0", none_bb], ["1", some1]], "otherwise": unreach, "desugared": True})
    d2 = Bd.local("isize")
    Bd.assign(some1, P(d2, "isize"), {"rv": "discr", "pl": P(locs[1][0], locs[1][1])})
    both = Bd.block()
    Bd.term(some1, {"t": "switch", "discr": mv(d2, "isize"), "discr_ty": "isize", "arms": [["0", none_bb], ["1", both]], "otherwise": unreach, "desugared": True})
    p1, p2, tup = Bd.local("?"), Bd.local("?"), Bd.local("(?, ?)")
    Bd.assign(both, P(p1), {"rv": "use", "op": {"k": "move", "pl": payload_place(locs[0][0], OPTION, "Some")}})
    Bd.assign(both, P(p2), {"rv": "use", "op": {"k": "move", "pl": payload_place(locs[1][0], OPTION, "Some")}})
    Bd.assign(both, P(tup, "(?, ?)"), {"rv": "agg", "ak": "tuple", "ops": [mv(p1), mv(p2)]})
    Bd.assign(both, P(dl, dty), agg(OPTION, "Some", [mv(tup, "(?, ?)")]))
    Bd.term(both, {"t": "goto", "target": target})
    return True


CLOSURE_CALLS = {"std::ops::FnMut::call_mut", "std::ops::Fn::call", "std::ops::FnOnce::call_once"}


def _closure_behind(body, op, depth=0):
    """the local holding the closure value that operand `op` is (a reference to / a copy of), if statically known"""
    if op.get("k") not in ("move", "copy") or op["pl"]["p"] or depth > 5:
        return None
    l = op["pl"]["l"]
    if _closure_of(body, op) is not None:
        return op
    defs = []
    for blk in body["blocks"]:
        for st in blk["stmts"]:
            if st["s"] == "assign" and not st["pl"]["p"] and st["pl"]["l"] == l:
                defs.append(st["rv"])
        t = blk["term"]
        if t.get("t") == "call" and not t["dest"]["p"] and t["dest"]["l"] == l:
            return None
    if len(defs) != 1:
        return None
    rv = defs[0]
    if rv["rv"] == "ref" and (not rv["pl"]["p"] or rv["pl"]["p"] == ["*"]):
        return _closure_behind(body, {"k": "move", "pl": {"l": rv["pl"]["l"], "p": [], "ty": "?"}}, depth + 1)
    if rv["rv"] == "use" and rv["op"].get("k") in ("move", "copy") and not rv["op"]["pl"]["p"]:
        return _closure_behind(body, rv["op"], depth + 1)
    return None


def _rewrite_closure_call(body, bi, t, by_path):
    """`f(args)` where f is a closure of the crate whose value is statically known at the call (typically after
    a helper taking `impl FnMut` was spliced into its caller): the closure body is inlined"""
    args = t["args"]
    if len(args) != 2 or t["dest"]["p"] or t.get("target") is None:
        return False
    cop = _closure_behind(body, args[0])
    if cop is None:
        return False
    cl = _closure_of(body, cop)
    cands = by_path.get(cl[1], [])
    if len(cands) != 1:
        return False
    callee = cands[0]
    tup = args[1]
    if tup.get("k") not in ("move", "copy") or tup["pl"]["p"]:
        if not (tup.get("k") == "const"):
            return False
    nparams = callee["arg_count"] - 1
    arg_ops = []
    for i in range(nparams):
        arg_ops.append({"k": "move", "pl": {"l": tup["pl"]["l"], "p": [{"f": i, "ty": "?", "name": str(i)}], "ty": "?"}})
    Bd = B(body, t["span"])
    dl, dty = t["dest"]["l"], t["dest"]["ty"]
    target, unwind = t["target"], t.get("unwind")
    cont = _apply(Bd, body, by_path, bi, cop, arg_ops, dl, dty, unwind)
    if cont is None:
        return False
    Bd.term(cont, {"t": "goto", "target": target})
    return True


def _rewrite_then_with(body, bi, t, by_path):
    """`a.then_with(f)` with a statically known closure f that calls nothing of the crate (a pure comparison):
    `a.then(f())` — evaluating f eagerly changes nothing a rule can observe, and the ordering decoders read `then`"""
    args = t["args"]
    if len(args) != 2 or t["dest"]["p"] or t.get("target") is None:
        return False
    cl = _closure_of(body, args[1])
    if cl is None:
        return False
    cands = by_path.get(cl[1], [])
    if len(cands) != 1 or cands[0]["arg_count"] != 1:
        return False
    for blk in cands[0]["blocks"]:
        tt = blk["term"]
        if tt.get("t") == "call":
            fn = tt.get("func", {}).get("fn") if tt.get("func", {}).get("k") == "const" else None
            if fn is None or fn.get("local") or fn.get("resolved_local"):
                return False
    Bd = B(body, t["span"])
    tmp = Bd.local("std::cmp::Ordering")
    target, unwind = t["target"], t.get("unwind")
    dest = copy.deepcopy(t["dest"])
    first = copy.deepcopy(args[0])
    cont = _apply(Bd, body, by_path, bi, args[1], [], tmp, "std::cmp::Ordering", unwind)
    if cont is None:
        return False
    fn = copy.deepcopy(t["func"])
    fn["fn"]["path"] = "std::cmp::Ordering::then"
    for k in ("resolved", "inst"):
        if k in fn["fn"]:
            fn["fn"][k] = fn["fn"][k].replace("then_with", "then") if isinstance(fn["fn"][k], str) else fn["fn"][k]
    Bd.term(cont, {"t": "call", "func": fn, "args": [first, mv(tmp, "std::cmp::Ordering")], "dest": dest, "target": target, "unwind": unwind})
    return True


ITER_CONSUMERS = {"std::iter::Iterator::for_each": "for_each", "std::iter::Iterator::try_for_each": "try_for_each"}


def _rewrite_iter(body, bi, t, kind, by_path):
    """iter.for_each(f) / iter.try_for_each(f) with a statically known f: the loop they are defined as —
    `while let Some(x) = iter.next() { f(x) }`, for try_for_each leaving with the first Err"""
    args = t["args"]
    if len(args) != 2 or t["dest"]["p"]:
        return False
    if _fn_item(args[1]) is None:
        cl = _closure_of(body, args[1])
        if cl is None or len(by_path.get(cl[1], [])) != 1:
            return False
    dl, dty = t["dest"]["l"], t["dest"]["ty"]
    if kind == "try_for_each" and not dty.startswith(RESULT + "<(), "):
        return False
    span = t["span"]
    Bd = B(body, span)
    target, unwind = t["target"], t.get("unwind")
    it = args[0]
    ity = it.get("ty") or it.get("pl", {}).get("ty", "?")
    if it.get("k") in ("move", "copy") and not it["pl"]["p"]:
        ity = body["locals"][it["pl"]["l"]]["ty"]
    il = Bd.local(ity)
    Bd.assign(bi, P(il, ity), {"rv": "use", "op": it})
    head, nx, some, none, unreach = Bd.block(), Bd.block(), Bd.block(), Bd.block(), Bd.block()
    Bd.term(bi, {"t": "goto", "target": head})
    ref = Bd.local("&mut " + ity)
    Bd.assign(head, P(ref, "&mut " + ity), {"rv": "ref", "bk": "mut", "pl": P(il, ity)})
    item = Bd.local(OPTION + "<?>")
    nextfn = {"k": "const", "ty": "?", "fn": {"path": "std::iter::Iterator::next", "inst": f"<{ity} as std::iter::Iterator>::next", "args": [ity], "local": False, "trait": "std::iter::Iterator"}}
    Bd.term(head, {"t": "call", "func": nextfn, "args": [mv(ref, "&mut " + ity)], "dest": P(item, OPTION + "<?>"), "target": nx, "unwind": unwind})
    d = Bd.local("isize")
    Bd.assign(nx, P(d, "isize"), {"rv": "discr", "pl": P(item, OPTION + "<?>")})
    Bd.term(nx, {"t": "switch", "discr": mv(d, "isize"), "discr_ty": "isize", "arms": [["0", none], ["1", some]], "otherwise": unreach, "desugared": True})
    pay = Bd.local("?")
    Bd.assign(some, P(pay), {"rv": "use", "op": {"k": "move", "pl": payload_place(item, OPTION, "Some")}})
    if kind == "for_each":
        r = Bd.local("()")
        cont = _apply(Bd, body, by_path, some, args[1], [mv(pay)], r, "()", unwind)
        if cont is None:
            return False
        Bd.term(cont, {"t": "goto", "target": head})
        Bd.assign(none, P(dl, dty), {"rv": "agg", "ak": "tuple", "ops": []})
    else:
        r = Bd.local(dty)
        cont = _apply(Bd, body, by_path, some, args[1], [mv(pay)], r, dty, unwind)
        if cont is None:
            return False
        d2 = Bd.local("isize")
        brk = Bd.block()
        Bd.assign(cont, P(d2, "isize"), {"rv": "discr", "pl": P(r, dty)})
        Bd.term(cont, {"t": "switch", "discr": mv(d2, "isize"), "discr_ty": "isize", "arms": [["0", head], ["1", brk]], "otherwise": unreach, "desugared": True})
        Bd.assign(brk, P(dl, dty), {"rv": "use", "op": mv(r, dty)})
        Bd.term(brk, {"t": "goto", "target": target})
        unit = Bd.local("()")
        Bd.assign(none, P(unit, "()"), {"rv": "agg", "ak": "tuple", "ops": []})
        Bd.assign(none, P(dl, dty), agg(RESULT, "Ok", [mv(unit, "()")]))
    Bd.term(none, {"t": "goto", "target": target})
    return True


def _only_branched_on(body, l, depth=0):
    """every use of local l is `switchInt(l)` or `!l` whose result is itself only branched on"""
    if depth > 3:
        return False

    def uses(o):
        if isinstance(o, dict):
            if "l" in o and isinstance(o.get("p"), list):
                return 1 if o["l"] == l or any(isinstance(el, dict) and el.get("index") == l for el in o["p"]) else 0
            return sum(uses(v) for k, v in o.items() if k not in ("span", "fn"))
        if isinstance(o, list):
            return sum(uses(v) for v in o)
        return 0
    for blk in body["blocks"]:
        for st in blk["stmts"]:
            if st.get("s") == "assign":
                n = uses(st["rv"])
                if n:
                    rv = st["rv"]
                    if rv.get("rv") == "un" and rv.get("op") == "Not" and not st["pl"]["p"] and _only_branched_on(body, st["pl"]["l"], depth + 1):
                        continue
                    return False
                if st["pl"]["p"] and uses({"x": st["pl"]}):
                    return False
            elif uses(st):
                # storage markers etc. carry no place in the fact format; anything else is a use
                return False
        t = blk["term"]
        if t.get("t") == "switch":
            if uses(t.get("discr")) and t["discr"].get("pl", {}).get("p"):
                return False
            continue
        if t.get("t") == "call":
            # the call that defines l itself has it as destination only
            if uses(t.get("args")) or uses(t.get("func")):
                return False
            continue
        if uses({k: v for k, v in t.items() if k != "span"}):
            return False
    return True


def _rewrite(body, bi, t, spec, by_path):
    subject_enum, actions, result_enum = spec
    args = t["args"]
    # every function argument used by the spec must be statically known, otherwise leave the call
    used = set()
    for act in actions.values():
        if act[0] in ("wrap", "wrap0"):
            used.add(act[2])
        elif act[0] in ("call", "call0", "filter"):
            used.add(act[1])
    for i in used:
        if i >= len(args):
            return False
        if _fn_item(args[i]) is None and _closure_of(body, args[i]) is None:
            return False
        if _fn_item(args[i]) is None:
            cl = _closure_of(body, args[i])
            if len(by_path.get(cl[1], [])) != 1:
                return False
    span = t["span"]
    Bd = B(body, span)
    subj = args[0]
    dest = t["dest"]
    if dest["p"]:
        return False
    if all(act[0] == "bool" for act in actions.values()) and not _only_branched_on(body, dest["l"]):
        return False      # the verdict is stored / returned / passed on: it stays a call
    dl, dty = dest["l"], dest["ty"]
    target, unwind = t["target"], t.get("unwind")
    blk = body["blocks"][bi]
    # subject into a local
    if subj.get("k") in ("move", "copy") and not subj["pl"]["p"]:
        sl = subj["pl"]["l"]
        sty = body["locals"][sl]["ty"]
    else:
        sty = subj.get("ty") or subj.get("pl", {}).get("ty", "?")
        sl = Bd.local(sty)
        Bd.assign(bi, P(sl, sty), {"rv": "use", "op": subj})
    d = Bd.local("isize")
    only_bool = all(act[0] == "bool" for act in actions.values())
    if only_bool and sty.startswith("&"):
        Bd.assign(bi, P(d, "isize"), {"rv": "discr", "pl": {"l": sl, "p": ["*"], "ty": sty.lstrip("&").replace("mut ", "", 1).strip()}})
    else:
        Bd.assign(bi, P(d, "isize"), {"rv": "discr", "pl": P(sl, sty)})
    arm_bb = {v: Bd.block() for v in actions}
    unreach = Bd.block()
    Bd.term(bi, {"t": "switch", "discr": mv(d, "isize"), "discr_ty": "isize", "arms": [[str(VIDX[subject_enum][v]), arm_bb[v]] for v in actions], "otherwise": unreach, "desugared": True})
    for v, act in actions.items():
        bb = arm_bb[v]
        has_payload = NFIELDS[v] == 1 and act[0] != "bool"
        pay = None
        if has_payload:
            pay = Bd.local("?")
            Bd.assign(bb, P(pay), {"rv": "use", "op": {"k": "move", "pl": payload_place(sl, subject_enum, v)}})
        kind = act[0]
        cur = bb
        if kind == "bool":
            Bd.assign(cur, P(dl, dty), {"rv": "use", "op": {"k": "const", "ty": "bool", "bits": str(act[1]), "size": 1, "int": str(act[1])}})
        elif kind == "keep":
            V = act[1]
            enum = result_enum or subject_enum
            Bd.assign(cur, P(dl, dty), agg(enum, V, [mv(pay)] if has_payload else []))
        elif kind == "keepas":
            Bd.assign(cur, P(dl, dty), agg(result_enum, act[1], [mv(pay)]))
        elif kind == "wraparg":
            Bd.assign(cur, P(dl, dty), agg(result_enum, act[1], [args[act[2]]]))
        elif kind == "unit":
            Bd.assign(cur, P(dl, dty), agg(result_enum, act[1], []))
        elif kind == "payload":
            Bd.assign(cur, P(dl, dty), {"rv": "use", "op": mv(pay)})
        elif kind == "arg":
            Bd.assign(cur, P(dl, dty), {"rv": "use", "op": args[act[1]]})
        elif kind in ("call", "call0"):
            cur = _apply(Bd, body, by_path, cur, args[act[1]], [mv(pay)] if (kind == "call" and has_payload) else [], dl, dty, unwind)
            if cur is None:
                return False
        elif kind in ("wrap", "wrap0"):
            r = Bd.local("?")
            cur = _apply(Bd, body, by_path, cur, args[act[2]], [mv(pay)] if (kind == "wrap" and has_payload) else [], r, "?", unwind)
            if cur is None:
                return False
            Bd.assign(cur, P(dl, dty), agg(result_enum, act[1], [mv(r)]))
        elif kind == "filter":
            ref = Bd.local("&?")
            Bd.assign(cur, P(ref, "&?"), {"rv": "ref", "bk": "shared", "pl": P(pay)})
            verdict = Bd.local("bool")
            cur = _apply(Bd, body, by_path, cur, args[act[1]], [mv(ref, "&?")], verdict, "bool", unwind)
            if cur is None:
                return False
            yes, no = Bd.block(), Bd.block()
            Bd.term(cur, {"t": "switch", "discr": mv(verdict, "bool"), "discr_ty": "bool", "arms": [["0", no]], "otherwise": yes})
            Bd.assign(yes, P(dl, dty), agg(OPTION, "Some", [mv(pay)]))
            Bd.term(yes, {"t": "goto", "target": target})
            Bd.assign(no, P(dl, dty), agg(OPTION, "None", []))
            Bd.term(no, {"t": "goto", "target": target})
            continue
        Bd.term(cur, {"t": "goto", "target": target})
    return True
