"""MIR-level inlining of *unknown* local helper functions.

Rules are written against the call structure of the pinned tree.  A maintainer who extracts a
private helper (or splits a function) introduces a local function the rules have never heard of;
to stay silent on such behaviour-preserving edits, every call to a local function that is not in
the frozen list of known functions (rules/known_fns.txt, generated from the pinned tree) is
inlined into its callers before any rule runs: blocks are spliced with renumbered locals, the
arguments become assignments, `return` becomes a goto to the call's continuation.  Known functions
stay calls (rules anchor on them); recursion is never inlined."""
import copy
import os

_KNOWN = None


def known_fns():
    global _KNOWN
    if _KNOWN is None:
        p = os.path.join(os.path.dirname(os.path.abspath(__file__)), "known_fns.txt")
        with open(p) as f:
            _KNOWN = {l.rstrip("\n") for l in f if l.strip() and not l.startswith("#")}
    return _KNOWN


def _renum(o, lo, bo):
    """renumber locals (+lo) and blocks (+bo) in a JSON fragment (in place on a deep copy)"""
    if isinstance(o, dict):
        if "l" in o and "p" in o and isinstance(o["p"], list):
            o["l"] += lo
            for el in o["p"]:
                if isinstance(el, dict) and "index" in el:
                    el["index"] += lo
            return
        for k, v in o.items():
            if k in ("target", "otherwise") and isinstance(v, int):
                o[k] = v + bo
            elif k == "unwind" and isinstance(v, int):
                o[k] = v + bo
            elif k == "arms" and isinstance(v, list):
                for a in v:
                    a[1] += bo
            elif k in ("span", "fn"):
                continue
            else:
                _renum(v, lo, bo)
    elif isinstance(o, list):
        for v in o:
            _renum(v, lo, bo)


def _callee_path(term):
    f = term.get("func", {})
    if f.get("k") == "const" and "fn" in f:
        c = f["fn"]
        if "resolved" in c:
            return c["resolved"], c.get("resolved_local", False)
        return c["path"], c.get("local", False)
    return None, False


# Known private helpers that are *always* spliced into their callers: the rules that concern them are written
# against the caller (a region of it), so that the tree where the helper exists and the tree where a maintainer
# inlined it by hand are one and the same shape for the analysis.  One line of reason each.
ALWAYS_INLINE = {
    "reader::prefix_iter::move_on_last_prefix",   # C05-R3 reads the first-call region of RevPrefixIter::next
    "reader::range_iter::end_contains",           # C04-R1/R3 read the far-side membership test as a region of RangeIter::next
    "reader::range_iter::start_contains",         # ... and of RevRangeIter::next
    "sorter::Sorter::<MF, CC>::threshold_exceeded",   # C08-R1/R2 read the budget comparison as an atom of Sorter::insert's condition
    "reader::reader_cursor::IndexBlockCursor::new",   # C01-R2/C10-R3 read which trailer fields configure the index cursor in ReaderCursor::new, however they are handed over
}


def inline_unknown_helpers(raw, max_rounds=4):
    """raw: the fact file dict; mutates raw['bodies'] and returns the list of (caller, callee) inlined"""
    known = known_fns() - ALWAYS_INLINE
    _into_is_from(raw)
    by_path = {}
    for b in raw["bodies"]:
        by_path.setdefault(b["path"], []).append(b)
    done = []
    for _round in range(max_rounds):
        changed = False
        for b in raw["bodies"]:
            nblocks = len(b["blocks"])
            for bi in range(nblocks):
                t = b["blocks"][bi]["term"]
                if t.get("t") != "call":
                    continue
                path, local = _callee_path(t)
                if not path or not local or path in known or path == b["path"]:
                    continue
                cands = by_path.get(path, [])
                if len(cands) != 1:
                    continue
                callee = cands[0]
                if callee["kind"] not in ("Fn", "AssocFn"):
                    continue
                if callee["arg_count"] != len(t["args"]):
                    continue
                # do not inline something that (transitively, directly) calls the caller back
                if any(_callee_path(x["term"])[0] in (b["path"], path) for x in callee["blocks"] if x["term"].get("t") == "call"):
                    continue
                _splice(b, bi, callee, _subst_for(raw, t, callee), raw)
                done.append((b["path"], path))
                changed = True
        if not changed:
            break
    return done


def _into_is_from(raw):
    """`x.into()` is `U::from(x)` (std's blanket impl does nothing else): when that `From` impl is the crate's own,
    name it, so that a conversion the pinned tree does not have is analysed like any other new helper"""
    im = _impl_methods(raw)
    for b in raw["bodies"]:
        for blk in b["blocks"]:
            t = blk["term"]
            if t.get("t") != "call" or t.get("func", {}).get("k") != "const" or "fn" not in t["func"]:
                continue
            fn = t["func"]["fn"]
            if fn.get("path") != "std::convert::Into::into" or len(fn.get("args") or []) != 2 or fn.get("resolved_local"):
                continue
            src, dst = fn["args"]
            for i in im["impl"].get(("std::convert::From", _base(dst)), []):
                if i["trait_ref"] == "<%s as std::convert::From<%s>>" % (dst, src) and i["trait_ref"] + "::from" in im["paths"]:
                    fn.update({"path": "std::convert::From::from", "trait": "std::convert::From", "args": [dst, src],
                               "resolved": i["trait_ref"] + "::from", "resolved_local": True, "via_into": True})


def unknown_local_fns(raw):
    """local functions that are not part of the pinned tree (helpers introduced by an edit)"""
    known = known_fns()
    return {b["path"] for b in raw["bodies"] if b["kind"] in ("Fn", "AssocFn") and b["path"] not in known}


def value_referenced(raw, paths):
    """which of `paths` are used as function *values* (passed to map/and_then/...), by referrer"""
    out = {}

    def walk(o, referrer):
        if isinstance(o, dict):
            if o.get("k") == "const" and "fn" in o:
                p = o["fn"].get("resolved") or o["fn"]["path"]
                if p in paths:
                    out.setdefault(p, set()).add(referrer)
            for k, v in o.items():
                if k != "func":
                    walk(v, referrer)
        elif isinstance(o, list):
            for v in o:
                walk(v, referrer)

    for b in raw["bodies"]:
        for blk in b["blocks"]:
            walk(blk["stmts"], b["path"])
            t = blk["term"]
            walk({k: v for k, v in t.items() if k != "func"}, b["path"])
    return out


def _subst_for(raw, call, callee):
    """generic parameter name of the callee -> the argument this call site instantiates it with"""
    fn = call["func"]["fn"]
    gen = _generics(raw).get(callee["path"])
    args = fn.get("args")
    if fn.get("resolved") and fn.get("trait") and gen is not None and args is not None and len(args) != len(gen):
        # devirtualised call: the args are those of the trait method (Self first), the callee is the impl's method
        args = args[len(args) - len(gen):] if len(args) > len(gen) else None
    if not gen or args is None or len(gen) != len(args):
        return {}
    return {g: a for g, a in zip(gen, args) if g != a and not g.startswith("'")}


def _generics(raw):
    g = raw.get("_generics")
    if g is None:
        g = raw["_generics"] = {f["path"]: f.get("generics") for f in raw.get("fns", []) if f.get("generics") is not None}
    return g


import re
_ASSOC = re.compile(r"^<(\w+) as ([\w:]+(?:<.*>)?)>::(\w+)$")


def _consts(raw):
    c = raw.get("_consts_by_path")
    if c is None:
        c = raw["_consts_by_path"] = {x["path"]: x for x in raw.get("consts", [])}
    return c


def _base(ty):
    ty = ty.lstrip("&").strip()
    if ty.startswith("mut "):
        ty = ty[4:]
    return ty.split("<", 1)[0]


def _impl_methods(raw):
    """(trait, self type without its generic arguments) -> trait_ref of the one impl, and the set of body paths"""
    m = raw.get("_impl_methods")
    if m is None:
        m = raw["_impl_methods"] = {"paths": {b["path"] for b in raw["bodies"]}, "impl": {}}
        for im in raw.get("impls", []):
            if im.get("trait") and im.get("trait_ref") and not im.get("derived"):
                m["impl"].setdefault((im["trait"], _base(im["self_ty"])), []).append(im)
    return m


def _devirtualise(raw, blocks, subst):
    """A call `<S as Trait>::method` in a generic helper names no function until S is known.  Once the
    helper is spliced into a caller that instantiates S with a local type, the call is a plain call of that
    type's impl method: substitute the generic arguments and point the call at it."""
    if not subst:
        return
    im = _impl_methods(raw)

    def one(fn):
        if not fn.get("args"):
            return
        new = [subst.get(a, a) for a in fn["args"]]
        if new == fn["args"]:
            return
        fn["args"] = new
        tr = fn.get("trait")
        ims = im["impl"].get((tr, _base(new[0])), []) if tr and "resolved" not in fn else []
        if len(ims) == 1 and not new[0].startswith("&"):
            name = fn["path"].rsplit("::", 1)[-1]
            cand = ims[0]["trait_ref"] + "::" + name
            if name in ims[0].get("items", []) and cand in im["paths"]:
                fn["resolved"] = cand
                fn["resolved_local"] = True

    def assoc_const(o):
        """`<L as Trait>::NAME` with L now known: the value the impl gives it"""
        m = _ASSOC.match(o["text"])
        if not m or m.group(1) not in subst:
            return
        ty = subst[m.group(1)]
        ims = im["impl"].get((m.group(2).split("<", 1)[0], _base(ty)), [])
        if len(ims) != 1:
            return
        c = _consts(raw).get(ims[0]["trait_ref"] + "::" + m.group(3))
        if c is None or c.get("int") is None:
            return
        width = {"u8": 1, "u16": 2, "u32": 4, "u64": 8, "u128": 16, "usize": 8, "i8": 1, "i16": 2, "i32": 4, "i64": 8, "i128": 16, "isize": 8, "bool": 1}.get(c["ty"])
        if width is not None:
            v = int(c["int"])
            o.pop("text")
            o.update({"int": str(v), "bits": str(v % (1 << (8 * width))), "size": width, "assoc": ims[0]["trait_ref"] + "::" + m.group(3)})
            return
        for adt in raw.get("adts", []):
            if adt["path"] == c["ty"] and adt["kind"] == "Enum" and all(not v["fields"] for v in adt["variants"]):
                names = [v["name"] for v in adt["variants"] if v.get("discr") == c["int"]]
                if len(names) == 1:
                    o.update({"text": c["ty"] + "::" + names[0], "variant": names[0]})

    def walk(o):
        # calls and function values alike (`.map(D::step)`)
        if isinstance(o, dict):
            if o.get("k") == "const" and isinstance(o.get("fn"), dict):
                one(o["fn"])
                return
            if o.get("k") == "const" and isinstance(o.get("text"), str) and o["text"].startswith("<"):
                assoc_const(o)
                return
            for k, v in o.items():
                if k != "span":
                    walk(v)
        elif isinstance(o, list):
            for v in o:
                walk(v)

    for blk in blocks:
        walk(blk["stmts"])
        walk(blk["term"])


def _splice(caller, bi, callee, subst=None, raw=None):
    lo = len(caller["locals"])
    bo = len(caller["blocks"])
    call = caller["blocks"][bi]["term"]
    caller["locals"].extend(copy.deepcopy(callee["locals"]))
    for n in callee["names"]:
        n2 = copy.deepcopy(n)
        _renum(n2["place"], lo, 0)
        # inlined parameters are ordinary locals now; keep their names for reports only
        caller["names"].append(n2)
    blocks = copy.deepcopy(callee["blocks"])
    cont = call.get("target")
    dest = call["dest"]
    for blk in blocks:
        _renum(blk["stmts"], lo, bo)
        _renum(blk["term"], lo, bo)
        if blk["term"].get("t") == "return":
            sp = blk["term"]["span"]
            blk["stmts"].append({"s": "assign", "pl": copy.deepcopy(dest), "rv": {"rv": "use", "op": {"k": "move", "pl": {"l": lo, "p": [], "ty": callee["locals"][0]["ty"]}}}, "span": sp})
            if cont is None:
                blk["term"] = {"t": "unreachable", "span": sp}
            else:
                blk["term"] = {"t": "goto", "target": cont, "span": sp}
        elif blk["term"].get("t") == "resume" and isinstance(call.get("unwind"), int):
            blk["term"] = {"t": "goto", "target": call["unwind"], "span": blk["term"]["span"]}
    if raw is not None:
        _devirtualise(raw, blocks, subst)
    caller["blocks"].extend(blocks)
    # argument passing
    entry = caller["blocks"][bi]
    for i, a in enumerate(call["args"]):
        entry["stmts"].append({"s": "assign", "pl": {"l": lo + 1 + i, "p": [], "ty": callee["locals"][1 + i]["ty"]}, "rv": {"rv": "use", "op": a}, "span": call["span"]})
    entry["term"] = {"t": "goto", "target": bo, "span": call["span"], "inlined": callee["path"]}
