"""MIRROR — two sibling functions must be isomorphic as control-flow skeletons of
(resolved callee, comparison operator, constructed variant, switch shape) under a stated
renaming.  A change made to one twin only shows up as the first differing skeleton item."""
from .mirlib import Site, callee_of, callee_name

CMP = {"Lt", "Le", "Gt", "Ge", "Eq", "Ne"}


def swapper(pairs):
    pairs = sorted(pairs, key=lambda p: -max(len(p[0]), len(p[1])))

    def f(s):
        for i, (a, b) in enumerate(pairs):
            s = s.replace(a, f"\x00{i}A\x01").replace(b, f"\x00{i}B\x01")
        for i, (a, b) in enumerate(pairs):
            s = s.replace(f"\x00{i}A\x01", b).replace(f"\x00{i}B\x01", a)
        return s

    return f


DIRECTION = swapper([
    ("move_on_next", "move_on_prev"),
    ("move_on_first", "move_on_last"),
    ("next_block_from_index", "prev_block_from_index"),
    ("First", "Last"),
    ("Next", "Prev"),
    ("Forward", "Backward"),
])

RANGE = swapper([
    ("move_on_next", "move_on_prev"),
    ("move_on_first", "move_on_last"),
    ("move_on_key_greater_than_or_equal_to", "move_on_key_lower_than_or_equal_to"),
    ("start_bound", "end_bound"),
    ("start_contains", "end_contains"),
    ("RangeIter", "RevRangeIter"),
    ("::le", "::ge"),
    ("::lt", "::gt"),
    ("Le", "Ge"),
    ("Lt", "Gt"),
    ("Forward", "Backward"),
    ("Ascending", "Descending"),
])


RANGE_TYPE_ONLY = swapper([("RangeIter", "RevRangeIter")])
PREFIX_TYPE_ONLY = swapper([("PrefixIter", "RevPrefixIter")])


def rpo(body):
    seen = set()
    order = []

    def dfs(b):
        stack = [(b, iter(body.succs(b)))]
        seen.add(b)
        while stack:
            n, it = stack[-1]
            adv = False
            for s in it:
                if s not in seen:
                    seen.add(s)
                    stack.append((s, iter(body.succs(s))))
                    adv = True
                    break
            if not adv:
                order.append(n)
                stack.pop()

    dfs(0)
    order.reverse()
    return order


SIGNIFICANT_STD = ("::eq", "::ne", "::lt", "::le", "::gt", "::ge", "::cmp", "::starts_with", "Option::<T>::insert", "Seek::seek",
                   "::start_bound", "::end_bound", "Option::<T>::take", "Option::<T>::filter", "FnMut::call_mut", "::to_vec", "mem::transmute")


_FLIP_CMP = {"lt": "gt", "gt": "lt", "le": "ge", "ge": "le"}


def _oriented(body, site, name):
    """`bound > key` is `key < bound`: an ordering comparison whose *second* operand is the entry read through the
    cursor (and whose first is not) is reported with its operands exchanged, so that a one-sided operand swap in one
    twin does not look like a different relation"""
    last = name.rsplit("::", 1)[-1]
    if last not in _FLIP_CMP:
        return name
    from .common import cursor_sources
    a = body.arg_exprs(site)
    if len(a) == 2 and cursor_sources(a[1]) and not cursor_sources(a[0]):
        return name[: -len(last)] + _FLIP_CMP[last]
    return name


PURE_ACCESSORS = ("::start_bound", "::end_bound")


def _new_mode_enum(F, adt):
    from .normalize import pinned
    a = F.adts.get(adt)
    if a is None or a["kind"] != "Enum" or any(v["fields"] for v in a["variants"]):
        return False
    return adt not in pinned()["enums"]


def _A(role):
    from .common import A
    return A(role)


def skeleton(body, rename=lambda s: s):
    """the ordered (reverse post-order) sequence of *significant* operations of a function: calls to
    functions of the crate, key comparisons, cursor/source operations, constructions of crate types,
    each with how its error (if any) is consumed.  Control-flow shape, `?` vs explicit match, drops,
    temporaries and Option/Result plumbing are deliberately not part of it, so the comparison is
    insensitive to one-sided syntactic rewrites and sensitive to one-sided changes of what is done."""
    from .errflow import verdict_at
    order = rpo(body)
    out = []
    for bb in order:
        blk = body.blocks[bb]
        for i, st in enumerate(blk["stmts"]):
            if st["s"] != "assign":
                continue
            rv = st["rv"]
            if rv["rv"] == "bin" and rv["op"] in CMP:
                out.append((("cmp", rename(rv["op"])), Site(bb, i)))
            elif rv["rv"] == "agg" and rv["ak"] == "adt" and not rv["adt"].startswith(("std::", "core::", "alloc::")):
                if not rv.get("ops") and _new_mode_enum(body.facts, rv["adt"]):
                    # a constant of a field-less enum the pinned tree does not have (a direction / side selector handed
                    # to a shared helper): what it selects is compared through the helper's spliced, constant-pruned arms
                    continue
                out.append((("agg", rename(rv["adt"].split("::")[-1]), rename(rv["variant"])), Site(bb, i)))
            elif rv["rv"] == "cast" and rv["ck"].startswith("Transmute") and not st["span"].get("macros"):
                out.append((("transmute",), Site(bb, i)))
        t = blk["term"]
        if t["t"] == "call":
            c = callee_of(t)
            s = Site(bb, None)
            if c is None:
                out.append((("call", "<indirect>"), s))
                continue
            n = callee_name(c)
            if n == _A("transmute_entry"):
                continue      # an identity on the value (lifetime only, C17-R2): where it is applied is not part of the behaviour compared here
            local = c.get("resolved_local", c["local"]) if "resolved" in c else c["local"]
            if local or any(n.endswith(x) for x in SIGNIFICANT_STD):
                v = verdict_at(body.facts, body, s)
                consts = tuple(a.get("int") for a in t["args"] if a["k"] == "const" and "int" in a)
                n = _oriented(body, s, n)
                out.append((("call", rename(n), consts, v), s))
    # pure accessors evaluated back to back (`let (s, e) = (r.start_bound(), r.end_bound())`) have no order
    pure = lambda it: it[0][0] == "call" and it[0][1].endswith(PURE_ACCESSORS)
    i = 0
    while i < len(out):
        j = i
        while j < len(out) and pure(out[j]):
            j += 1
        if j - i > 1:
            out[i:j] = sorted(out[i:j], key=lambda it: it[0][1])
        i = max(j, i + 1)
    return out


def compare(body_a, body_b, rename):
    """None if isomorphic, else description of the first difference"""
    sa = skeleton(body_a, rename)
    sb = skeleton(body_b)
    for i, (x, y) in enumerate(zip(sa, sb)):
        if x[0] != y[0]:
            return f"item {i}: {body_a.path.split('::')[-1]} has {x[0]} at {body_a.loc(x[1])} where {body_b.path.split('::')[-1]} has {y[0]} at {body_b.loc(y[1])}"
    if len(sa) != len(sb):
        return f"skeleton lengths differ: {len(sa)} vs {len(sb)}"
    return None


def check_pair(ck, rule, F, pa, pb, rename, with_closures=True):
    a = F.body(pa)
    b = F.body(pb)
    key = f"{pa.split('::')[-1]}~{pb.split('::')[-1]}/{pa.split('::')[-2] if '::' in pa else ''}"
    diff = compare(a, b, rename)
    ck.ob(rule, f"mirror/{key}", diff is None, f"{pa} mirrors {pb}" + (f" — NOT: {diff}" if diff else f" ({len(skeleton(a))} skeleton items)"), a, config=F.config)
    if with_closures:
        ca = sorted(F.closures_of(pa), key=lambda x: x.path)
        cb = sorted(F.closures_of(pb), key=lambda x: x.path)
        ck.ob(rule, f"mirror-closures/{key}", len(ca) == len(cb), f"{pa} and {pb} have the same number of closures ({len(ca)} vs {len(cb)})", a, config=F.config, nontrivial=False)
        for x, y in zip(ca, cb):
            d = compare(x, y, rename)
            ck.ob(rule, f"mirror/{key}/{x.path.split('::')[-1]}", d is None, f"{x.path} mirrors {y.path}" + (f" — NOT: {d}" if d else ""), x, config=F.config)
