"""C03 — cursor results depend on content and logical position only: state-coherence rules for
every piece of cached cursor state (offset tag next to cached index block, current block cursor,
reset/clone).  See DESIGN.md §4 C03."""
from .common import *
from . import mirror
from .c01 import r7_mirror

PID = "C03"
META = {
    "explanation": "Static state-coherence analysis of the cursor code on the MIR of the current tree: every cached block is stored together with the offset it was loaded from (PAIR/DOM), absolute moves never reuse positional state (FLOW on return expressions), reset clears every mutable field, clones share nothing (SIG), every block load is preceded by an absolute seek whose operand comes from an index entry or the root offset. These are necessary conditions of history independence; the exhaustive (state x operation) behaviour is not decided. The property quantifies over files this Writer emits: the shared file-wellformedness rules (rules/shared.py) and the rest of the cursor-traversal rules are re-run as necessary conditions.",
    "assumptions": ["block offsets are unique per file (an offset identifies one block)", "std Option/Vec semantics"],
}


def run(ck):
    for cfg in ck.configs():
        F = ck.facts(cfg)
        ck.guard("C03-R1", r1_tag, ck, F)
        ck.guard("C03-R2", r2_abs_fresh, ck, F)
        ck.guard("C03-R3", r3_reset, ck, F)
        ck.guard("C03-R4", r4_clone, ck, F)
        ck.guard("C03-R5", r5_wrappers, ck, F)
        ck.guard("C03-R6", r6_current, ck, F)
        ck.guard("C03-R7", r7_seek_load, ck, F)
        ck.guard("C03-R5", r7_mirror, ck, F, "C03-R5")
        from . import shared
        shared.file_wellformed(ck, F, "C03-R8")
        shared.cursor_traversal(ck, F, "C03-R5")
    if ck.tier == "thorough" or True:
        from . import witness
        ck.guard("C03-R4", witness.run, ck, "C03")
    ck.trusted += ["rustc MIR construction and borrow checking", "std Option::insert / Vec / slice iteration semantics"]


# ---------------------------------------------------------------------------------------
_TAG_ADTS = {}


def is_tag_tuple(adt, F=None):
    """the (offset tag, cached index block) pair: the tuple (u64, BlockCursor<Block>) or a local struct
    with exactly those two field types"""
    if adt.startswith("(u64, ") and "BlockCursor<" in adt:
        return True
    return adt in _TAG_ADTS


def _register_tag_adts(F):
    _TAG_ADTS.clear()
    for p, a in F.adts.items():
        if a["kind"] == "Struct" and a["variants"]:
            tys = sorted(f["ty"] for f in a["variants"][0]["fields"])
            if len(tys) == 2 and "u64" in tys and any("BlockCursor<" in t for t in tys):
                _TAG_ADTS[p] = {f["name"]: (0 if f["ty"] == "u64" else 1) for f in a["variants"][0]["fields"]}


def tuple_elem(e):
    """e denotes the tag (0) / cursor (1) element of a tag pair: returns (base_ident, idx)"""
    e = e.strip()
    if e.k == "field" and is_tag_tuple(e.x.get("adt", "")):
        adt = e.x.get("adt", "")
        idx = _TAG_ADTS[adt].get(e.x["name"], e.x["idx"]) if adt in _TAG_ADTS else e.x["idx"]
        return e.a[0].ident(), idx
    return None


def decoded_offset(e):
    """`u64::from_be_bytes(<value part of entry X>.try_into().unwrap())` -> X (the entry-producing
    expression); whether the conversion is written with map(), a closure, a helper or a match"""
    e = e.strip()
    if e.k == "call" and e.x["path"].endswith("u64>::from_be_bytes") and e.a:
        t = e.a[0].strip()
        while t.k == "call" and t.a and t.x["path"].startswith("std::result::Result::<T, E>::") and t.x["path"].rsplit("::", 1)[-1] in ("unwrap", "expect"):
            t = t.a[0].strip()      # `.try_into().expect("..")` before the conversion instead of `.map(conv).unwrap()` after it
        if t.k == "call" and t.x["path"].endswith("TryInto<U>>::try_into"):
            src = t.a[0].strip()
            if src.k == "field" and src.x["name"] == "1":
                inner = unwrap_payload(src.a[0], "Some")
                if inner is not None:
                    return inner
    return None


def r1_tag(ck, F):
    R = "C03-R1"
    _register_tag_adts(F)
    nstores = 0
    ncons = 0
    nguards = [0]
    for b in F.user_bodies():
        cur, tag = [], []
        for site, st in b.sites():
            if site.i is not None and st["s"] == "assign" and st["pl"]["p"]:
                pl = st["pl"]
                # store through a reference: (*p) = v  or a direct field store
                e = b.expr_of_place(pl, site)
                te = tuple_elem(e)
                if te is not None:
                    (cur if te[1] == 1 else tag).append((site, te[0], st))
            elif site.i is None and st["t"] == "call":
                # &mut of a tuple element handed to a callee: an opaque write
                for op, ae in zip(st["args"], b.arg_exprs(site)):
                    ty = op["pl"]["ty"] if op["k"] in ("copy", "move") else ""
                    te = tuple_elem(ae)
                    if te is not None and ty.startswith("&mut") and te[1] == 0:
                        c = callee_of(st)
                        ck.ob(R, f"opaque-tag-write/{b.path}", False, f"the offset tag of a cached index block is written through a call ({callee_name(c)}) — its value and ordering relative to the block store cannot be established", b, site)
            if site.i is not None and st["s"] == "assign" and st["rv"]["rv"] == "agg" and ((st["rv"]["ak"] == "tuple" and is_tag_tuple(st["pl"]["ty"])) or (st["rv"]["ak"] == "adt" and st["rv"].get("adt") in _TAG_ADTS)):
                ncons += 1
                ti = 0
                if st["rv"]["ak"] == "adt":
                    ti = [i for i, fn_ in enumerate(st["rv"]["fields"]) if _TAG_ADTS[st["rv"]["adt"]].get(fn_) == 0][0]
                tv = b.expr_of_operand(st["rv"]["ops"][ti], site)
                ck.ob(R, f"construction/{b.path}", True, f"(tag, cursor) constructed with tag = {tv.show()[:120]} (construction tags are not armed: a tag of another level can never match a jump target)", b, site, nontrivial=False)
        if not cur and not tag:
            continue
        rets = [Site(r, None) for r in b.return_blocks()]
        for site, base, st in cur:
            nstores += 1
            mates = [t for t in tag if t[1] == base]
            # (a) every path from the cursor store to any exit passes a tag store of the same tuple
            ok_a = any(_postdominates_all_exits(b, t[0], site) for t in mates)
            ck.ob(R, f"tag-follows-cursor-store/{b.path}", ok_a,
                  "a cached index block is replaced" + (" and the offset stored beside it is updated on every path to the exit" if ok_a else " but the offset tag beside it is NOT updated on every path to the function exit (stale tag: a later absolute move may skip the reload and answer from the wrong block)"), b, site)
            if not ok_a:
                continue
            t = [t for t in mates if _postdominates_all_exits(b, t[0], site)][0]
            # (c) tag value = operand of the SeekFrom::Start that positioned the load
            tv = b._expr_of_def((t[0], "assign", t[2]["rv"]))
            seeks = [s for s, c, tt in calls(b, "Seek::seek") if b.dominates(s, site)]
            ok_c = False
            sv = None
            if seeks:
                s = max(seeks, key=lambda x: len(b.dominators().get(x.bb, ())))
                a = b.arg_exprs(s)[1].strip()
                if a.k == "agg" and a.x.get("variant") == "Start":
                    sv = a.a[0]
                    ok_c = sv.ident() == tv.ident()
            ck.ob(R, f"tag-is-load-offset/{b.path}", ok_c, f"tag := {tv.show()[:100]} ; block loaded after seek to {sv.show()[:100] if sv else '?'}", b, t[0])
            # (d) when the reload is conditional on the tag, it happens exactly when the tag differs from the
            #     offset about to be visited: the cached block is used as is only if it IS that block
            for csite, cst in b.sites():
                if csite.i is None or cst["s"] != "assign" or cst["rv"]["rv"] != "bin" or cst["rv"]["op"] not in ("Eq", "Ne"):
                    continue
                ce = b._expr_of_def((csite, "assign", cst["rv"]))
                x, y = ce.a
                tx, ty_ = tuple_elem(x), tuple_elem(y)
                if ty_ is not None and ty_ == (base, 0):
                    x, y, tx = y, x, ty_
                if tx != (base, 0) or not b.dominates(csite, site):
                    continue
                ed = bool_edges(b, value_site=csite)
                if ed is not None and cst["rv"]["op"] == "Eq":
                    ed = (ed[0], ed[2], ed[1])
                ok_d = ed is not None and sv is not None and y.ident() == sv.ident() and b.dominates(ed[1], site.bb) and not b.dominates(ed[2], site.bb)
                ck.ob(R, f"reload-iff-tag-differs/{b.path}", ok_d, f"`tag {BINCMP.get(cst['rv']['op'], cst['rv']['op'])} {y.show()[:60]}` guards the reload: the block is loaded on the tag-differs edge only, and what the tag is compared with is the offset that is then loaded ({sv.show()[:60] if sv else '?'})", b, csite)
                nguards[0] += 1
        for site, base, st in tag:
            mates = [c for c in cur if c[1] == base]
            ok_b = any(b.dominates(c[0], site) for c in mates)
            ck.ob(R, f"cursor-store-precedes-tag/{b.path}", ok_b, "the offset tag is only updated after the block it describes has been stored (a failed load cannot leave a new tag over an old block)", b, site)
    ck.floor(R, "stores replacing a cached index block", nstores, 2, F.config)
    ck.floor(R, "(tag, cursor) construction sites", ncons, 1, F.config)
    ck.ob(R, "reload-guards-seen", True, f"{nguards[0]} tag comparison(s) guard a reload (an unconditional reload is also coherent; its cost is C16's concern)", config=F.config, nontrivial=False)


def _postdominates_all_exits(b, t, c):
    """every normal path from site c to ANY return (success or error) passes site t"""
    if t.bb == c.bb:
        return t.key() > c.key()
    # remove t.bb: no return reachable from c
    seen = set()
    work = [s for s in b.succs(c.bb)]
    while work:
        x = work.pop()
        if x in seen or x == t.bb:
            continue
        seen.add(x)
        if b.term(x)["t"] == "return":
            return False
        work.extend(b.succs(x))
    return True


# ---------------------------------------------------------------------------------------
def return_alts(b):
    return flat_alts(b.expr_at_return())


def is_err_path(e):
    return e.k == "call" and e.x["path"].endswith("::from_residual")


def r2_abs_fresh(ck, F):
    R = "C03-R2"
    rc = A("rc_prefix")
    table = {
        "move_on_first": ("IndexBlockCursor::move_on_first", A("bc_first")),
        "move_on_last": ("IndexBlockCursor::move_on_last", A("bc_last")),
        "move_on_key_greater_than_or_equal_to": ("IndexBlockCursor::move_on_key_greater_than_or_equal_to", A("bc_ge")),
    }
    for name, (idx_fn, blk_fn) in table.items():
        b = F.body(rc + name)
        alts = [a for a in return_alts(b) if not is_err_path(a)]
        nfresh = 0
        for a in alts:
            inner = a.a[0] if (a.k == "agg" and a.x.get("variant") == "Ok") else None
            if inner is not None and inner.k == "agg" and inner.x.get("variant") == "None":
                continue
            ok = False
            if inner is not None and inner.k == "call" and inner.x["path"].endswith(blk_fn):
                tgt = inner.a[0].strip()
                if tgt.k == "call" and tgt.x["path"].endswith("Option::<T>::insert") and is_self_field(tgt.a[0], "current_cursor"):
                    fresh = any(True for _ in tgt.a[1].calls(A("block_new")))
                    ok = fresh
            nfresh += int(ok)
            ck.ob(R, f"entry-from-fresh-block/{name}", ok, f"{name} returns {a.show()[:160]} (expected Ok(<{blk_fn.split('::')[-1]}> on current_cursor.insert(<freshly loaded block>)) or Ok(None))", b)
        ck.floor(R, f"fresh-block exits of {name}", nfresh, 1, F.config)
        # does not read current_cursor before replacing it
        reads = [s for s, c, t in b.calls() if any(is_self_field(x, "current_cursor") for x in b.arg_exprs(s)) and not call_matches(c, "Option::<T>::insert")]
        ck.ob(R, f"no-positional-state-read/{name}", not reads, f"{name} never consults the previous block cursor" + (f" (reads at {[b.loc(s) for s in reads]})" if reads else ""), b)
        ix = calls(b, idx_fn)
        ck.exact(R, f"index descent calls in {name}", len(ix), 1, F.config)
    # the descent starts at the root offset
    for p in (A("ibc_iter"), A("ibc_initial")):
        b = F.body(p)
        seeks = calls(b, "Seek::seek")
        ck.exact(R, f"seek sites in {p.split('::')[-1]}", len(seeks), 1, F.config)
        for s, c, t in seeks:
            a = b.arg_exprs(s)[1].strip()
            ok = False
            srcs = []
            if a.k == "agg" and a.x.get("variant") == "Start":
                v = a.a[0].strip()
                comps = v.a if v.k == "phi" else [v]
                srcs = [x.show()[:80] for x in comps]
                root = [x for x in comps if is_self_field(x, "base_block_offset")]
                rest = [x for x in comps if x not in root]
                ok = len(root) == 1 and all(decoded_offset(x) is not None and is_call(decoded_offset(x), "FnMut::call_mut") for x in rest) and len(rest) >= 1
            ck.ob(R, f"descent-from-root/{p.split('::')[-1]}", ok, f"index descent seeks to {srcs} (expected: root offset first, then the offset decoded from the entry the move closure returned)", b, s)


# ---------------------------------------------------------------------------------------
def _post_all(b, t, c):
    return _postdominates_all_exits(b, t, c)


def mutated_fields(F, adt):
    """fields of `adt` that any non-derived body stores to or borrows mutably: {field: [(body, site)]}"""
    out = {}
    for b in F.user_bodies():
        for site, st in b.sites():
            if site.i is None or st["s"] != "assign":
                continue
            pls = []
            if st["pl"]["p"]:
                pls.append((st["pl"], True))
            rv = st["rv"]
            if rv["rv"] in ("ref", "rawptr") and rv["bk"] in ("mut", "Mut") and rv["pl"]["p"]:
                pls.append((rv["pl"], False))
            for pl, is_store in pls:
                for j, el in enumerate(pl["p"]):
                    if isinstance(el, dict) and el.get("adt") == adt and "name" in el:
                        # a store must end at the field; a &mut may go deeper (self.f.g)
                        if is_store and j != len(pl["p"]) - 1:
                            # store to a sub-place of the field: counts as mutation of the field
                            pass
                        out.setdefault(el["name"], []).append((b, site, is_store and j == len(pl["p"]) - 1))
    return out


def stores_none_to(b, adt, field):
    for site, st in b.sites():
        if site.i is not None and st["s"] == "assign" and st["pl"]["p"]:
            last = st["pl"]["p"][-1]
            if isinstance(last, dict) and last.get("adt") == adt and last.get("name") == field:
                e = b._expr_of_def((site, "assign", st["rv"]))
                if e.k == "agg" and e.x.get("variant") == "None":
                    return site
    return None


def r3_reset(ck, F, R="C03-R3"):
    rc, ibc, bc = A("rc_struct"), A("ibc_struct"), A("block_cursor")
    reset = F.body(A("rc_prefix") + "reset")
    ireset = F.body(A("ibc_prefix") + "reset")
    cleared_rc = set()
    if stores_none_to(reset, rc, "current_cursor") is not None:
        cleared_rc.add("current_cursor")
    cr = calls(reset, A("ibc_prefix") + "reset")
    if cr and is_self_field(reset.arg_exprs(cr[0][0])[0], "index_block_cursor"):
        cleared_rc.add("index_block_cursor")
    cleared_ibc = set()
    if stores_none_to(ireset, ibc, "inner") is not None:
        cleared_ibc.add("inner")
    ck.ob(R, "reset-clears-block-cursor", "current_cursor" in cleared_rc, "ReaderCursor::reset stores None to current_cursor", reset)
    ck.ob(R, "reset-clears-index-cursor", "index_block_cursor" in cleared_rc and "inner" in cleared_ibc, "ReaderCursor::reset reaches IndexBlockCursor::reset which stores None to `inner`", reset)
    mut_rc = set(mutated_fields(F, rc)) - {"reader"}
    mut_ibc = set(mutated_fields(F, ibc))
    ck.ob(R, "no-state-reset-forgets/ReaderCursor", mut_rc <= cleared_rc, f"mutable state of ReaderCursor {sorted(mut_rc)} is a subset of what reset clears {sorted(cleared_rc)} (`reader` is the source itself, see C03-R7)", reset)
    ck.ob(R, "no-state-reset-forgets/IndexBlockCursor", mut_ibc <= cleared_ibc, f"mutable state of IndexBlockCursor {sorted(mut_ibc)} is a subset of what reset clears {sorted(cleared_ibc)}", ireset)
    # in-block cursor: every absolute in-block move (re)writes every mutable field
    mut_bc = mutated_fields(F, bc)
    fields = set(mut_bc) - {"block"}
    ck.floor(R, "mutable fields of BlockCursor", len(fields), 1, F.config)
    for fn in (A("bc_first"), A("bc_last"), A("bc_le")):
        b = F.body(fn)
        written = {f for f, lst in mut_bc.items() if any(bb.path == b.path and st for bb, s, st in lst)}
        ck.ob(R, f"absolute-block-move-rewrites-state/{fn.split('::')[-1]}", fields <= written, f"{fn.split('::')[-1]} assigns {sorted(written)}; BlockCursor's positional state is {sorted(fields)}", b)
    # (a) whenever the position is (re)written, every other positional field is written with it
    others = sorted(fields - {"current_offset"})
    for b_ in F.user_bodies():
        if not b_.path.startswith("block::BlockCursor"):
            continue
        pos = [s for bb, s, st in mut_bc.get("current_offset", []) if bb.path == b_.path and st]
        for s in pos:
            for f in others:
                fs = [x for bb, x, st in mut_bc.get(f, []) if bb.path == b_.path and st]
                okp = any(b_.dominates(x, s) or _post_all(b_, x, s) for x in fs)
                ck.ob(R, f"position-written-without/{f}/{b_.path.split('::')[-1]}", okp, f"{b_.path.split('::')[-1]} assigns current_offset at {b_.loc(s)} without also assigning `{f}` on that path — the two pieces of positional state can disagree", b_, s)
    # (b) replacing the block under a cursor must reset its position (today the block is never replaced)
    for bb, s, st in mut_bc.get("block", []):
        resets = [x for b2, x, st2 in mut_bc.get("current_offset", []) if b2.path == bb.path and st2]
        okb = any(bb.dominates(x, s) or _post_all(bb, x, s) for x in resets)
        ck.ob(R, f"block-replaced-without-position-reset/{bb.path.split('::')[-1]}", okb, f"{bb.path.split('::')[-1]} mutates the cursor's block at {bb.loc(s)} but keeps current_offset: the offset then indexes into a different block", bb, s)
    ge = F.body(A("bc_ge"))
    ck.ob(R, "ge-delegates-to-le", len(calls(ge, A("bc_le"))) == 1 and all(ge.dominates(calls(ge, A("bc_le"))[0][0], Site(r, None)) for r in ge.return_blocks()), "BlockCursor's >=-seek starts with the <=-seek (which rewrites the state) on every path", ge)
    # fields of the cursor types: a new one shows up here
    for adt, want in ((rc, {"index_block_cursor", "current_cursor", "reader"}), (ibc, {"base_block_offset", "compression_type", "index_levels", "inner"}), (bc, {"block", "current_offset"})):
        have = {f["name"] for f in F.adts[adt]["variants"][0]["fields"]}
        extra = have - want
        if extra:
            # a new field is fine iff it is immutable configuration (never mutated) or cleared by the resets
            mf = set(mutated_fields(F, adt))
            bad = [x for x in extra if x in mf and x not in cleared_rc | cleared_ibc | (fields if adt == bc else set())]
            ck.ob(R, f"new-cursor-state/{adt.split('::')[-1]}", not bad, f"{adt} gained mutable field(s) {sorted(bad)} that no reset/absolute move accounts for", config=F.config)


# ---------------------------------------------------------------------------------------
def r4_clone(ck, F):
    R = "C03-R4"
    types = [A("rc_struct"), A("ibc_struct"), A("block_cursor"), A("block_struct"), A("reader_struct"), A("meta_struct")]
    for t in types:
        impls = [i for i in F.impls if i.get("self_adt") == t and i.get("trait") == "std::clone::Clone"]
        okc = len(impls) == 1 and impls[0]["derived"]
        if not okc and len(impls) == 1:
            # hand-written, but field by field exactly what the derive generates
            cb = [b_ for b_ in F.bodies if b_.path.startswith("<" + t) and b_.path.endswith(" as std::clone::Clone>::clone")]
            okc = len(cb) == 1 and cb[0].is_fieldwise_clone()
        ck.ob(R, f"derived-clone/{t}", okc, f"{t} implements Clone through a derived impl or a hand-written one that clones every field (field-wise deep clone)", config=F.config, nontrivial=False)
        bad = []
        for f in F.adts[t]["variants"][0]["fields"]:
            fl = f["flags"]
            if fl["raw_ptr"] or fl["rc"] or fl["cell"] or fl["reference"]:
                bad.append((f["name"], f["ty"]))
        ck.ob(R, f"no-shared-state/{t}", not bad, f"{t} holds no Rc/Arc, interior mutability, raw pointer or borrowed reference" + (f": {bad}" if bad else ""), config=F.config)
    # drop impls / unsafe impls on these types would change clone semantics
    bad = [i for i in F.impls if i.get("self_adt") in types and i.get("trait") in ("std::ops::Drop", "std::marker::Copy") and i.get("self_adt") != A("meta_struct")]
    ck.ob(R, "no-drop-on-cursor-types", not bad, "no Drop impl on cursor/reader types", config=F.config, nontrivial=False)


# ---------------------------------------------------------------------------------------
def r5_wrappers(ck, F, R="C03-R5"):
    ibc = A("ibc_prefix")
    table = {
        "move_on_first": (A("ibc_iter"), A("bc_first")),
        "move_on_last": (A("ibc_iter"), A("bc_last")),
        "move_on_key_greater_than_or_equal_to": (A("ibc_iter"), A("bc_ge")),
        "move_on_next": (A("ibc_recursive_outer"), A("bc_next")),
        "move_on_prev": (A("ibc_recursive_outer"), A("bc_prev")),
    }
    for name, (engine, blk) in table.items():
        b = F.body(ibc + name)
        cs = [(s, c, t) for s, c, t in b.calls()]
        ck.ob(R, f"wrapper-engine/{name}", len(cs) == 1 and call_matches(cs[0][1], engine), f"IndexBlockCursor::{name} is a single call to {engine.split('::')[-1]}", b)
        cl = F.closures_of(ibc + name)
        ok = len(cl) == 1
        got = None
        if ok:
            ccs = [callee_name(c) for s, c, t in cl[0].calls()]
            got = ccs
            ok = ccs == [blk]
        elif not cl and len(cs) == 1:
            # the block-level move handed over as a function item (`BlockCursor::move_on_first`) instead of
            # a closure that calls it
            fa = [a_.strip() for a_ in b.arg_exprs(cs[0][0])]
            fns = [a_.x["path"] for a_ in fa if a_.k == "fn"]
            got = fns
            ok = fns == [blk]
        ck.ob(R, f"wrapper-move/{name}", ok, f"IndexBlockCursor::{name} moves each level with {got} (expected [{blk}])", b)
    # the climbing routine re-applies the caller's move to the freshly loaded child
    rec = F.body(A("ibc_recursive"))
    movs = calls(rec, "FnMut::call_mut")
    ck.exact(R, "applications of the move closure in `recursive`", len(movs), 2, F.config)
    loads = calls(rec, A("block_new"))
    for s, c, t in movs:
        a = rec.arg_exprs(s)
        ck.ob(R, f"recursive-applies-callers-move/{rec.loc(s)}", is_arg(a[0], "mov"), f"`recursive` moves the level with {a[0].show()} (the caller's closure)", rec, s)
    if loads and movs:
        after = [s for s, c, t in movs if rec.dominates(loads[0][0], s)]
        ck.ob(R, "recursive-reapplies-after-reload", len(after) == 1, "after reloading a child index block the same move is applied to it (first entry when going forward, last entry when going backward)", rec, loads[0][0])
        if after:
            alts = [a for a in return_alts(rec) if not is_err_path(a)]
            hit = [a for a in alts if a.k == "agg" and a.x.get("variant") == "Ok" and a.a[0].k == "call" and a.a[0].x.get("site") == after[0]]
            ck.ob(R, "recursive-returns-reapplied-move", len(hit) == 1, "the result of the re-applied move is what `recursive` returns for the reloaded level", rec, after[0])
    # self-recursion on the strictly shorter head
    recs = calls(rec, A("ibc_recursive"))
    ck.exact(R, "self-recursive calls in `recursive`", len(recs), 1, F.config)
    for s, c, t in recs:
        a = rec.arg_exprs(s)
        sp = split_part(a[2])
        ck.ob(R, "recursion-on-head", sp is not None and sp[1] == 1 and is_arg(sp[2].a[0], "blocks"), f"`recursive` recurses on {a[2].show()[:80]} (the levels above the current one)", rec, s)


# ---------------------------------------------------------------------------------------
def _is_none_alt(a):
    """`None`, or the `None` that `x?` returns for an Option x"""
    if a.k == "agg" and a.x.get("variant") == "None":
        return True
    s = a.strip()
    return s.k == "call" and s.x["path"].endswith("::from_residual") and "option::Option" in s.x["path"]


def r6_current(ck, F):
    R = "C03-R6"
    cur = F.body(A("rc_prefix") + "current")
    alts = [a for a in return_alts(cur) if not _is_none_alt(a)]
    ok = len(alts) == 1 and alts[0].k == "call" and alts[0].x["path"].endswith(A("bc_current"))
    if ok:
        src = unwrap_payload(alts[0].a[0], "Some")
        ok = src is not None and is_self_field(src, "current_cursor")
    ck.ob(R, "current-reads-block-cursor", ok, f"ReaderCursor::current = {cur.expr_at_return().show()[:140]} (the block cursor's current entry, or None when there is no block cursor)", cur)
    bcur = F.body(A("bc_current"))
    alts = [a for a in return_alts(bcur) if not _is_none_alt(a)]
    ok = len(alts) == 1 and alts[0].k == "agg" and alts[0].x.get("variant") == "Some"
    ent = None
    if ok:
        tup = alts[0].a[0]
        ok = tup.k == "agg" and len(tup.a) == 2
        if ok:
            parts = []
            for i, comp in enumerate(tup.a):
                c = comp.strip()
                okc = c.k == "field" and c.x["idx"] == i
                src = unwrap_payload(c.a[0], "Some") if okc else None
                parts.append(src.strip() if src is not None else None)
            ok = all(p is not None and p.k == "call" and p.x["path"].endswith(A("block_entry_at")) for p in parts) and parts[0].x.get("site") == parts[1].x.get("site")
            ent = parts[0] if ok else None
    ck.ob(R, "block-current-reads-offset", ok, f"BlockCursor::current = Some((key, value)) of one decoded entry, or None ({bcur.expr_at_return().show()[:100]})", bcur)
    okd = False
    if ent is not None:
        off = unwrap_payload(ent.a[1], "Some")
        okd = off is not None and is_self_field(off, "current_offset") and is_self_field(ent.a[0], "block")
    ck.ob(R, "block-current-decodes-at-offset", okd, "BlockCursor::current decodes the entry at the stored offset (entry_at(current_offset))", bcur)
    # every in-block move returns self.current() (or delegates to a move that does)
    for fn in ("bc_first", "bc_last", "bc_next", "bc_prev", "bc_le"):
        b = F.body(A(fn))
        alts = return_alts(b)
        bad = []
        for a in alts:
            a_ = a
            if a_.k == "agg" and a_.x.get("variant") == "None":
                continue
            if a_.k == "call" and (a_.x["path"].endswith(A("bc_current")) or a_.x["path"].endswith(A("bc_first")) or a_.x["path"].endswith(A("bc_last"))) and is_arg(a_.a[0], "self"):
                continue
            if a_.k == "call" and a_.x["path"].endswith("::from_residual"):
                continue  # `?` on Option: returns None
            bad.append(a_.show()[:100])
        ck.ob(R, f"block-move-returns-current/{A(fn).split('::')[-1]}", not bad, f"{A(fn).split('::')[-1]} returns self.current() after positioning" + (f"; other returns: {bad}" if bad else ""), b)
    # ReaderCursor relative moves: entry comes from the block stored in current_cursor
    for name, blk, other in (("move_on_next", A("bc_next"), A("bc_first")), ("move_on_prev", A("bc_prev"), A("bc_last"))):
        b = F.body(A("rc_prefix") + name)
        alts = [a for a in return_alts(b) if not is_err_path(a)]
        kinds = set()
        bad = []
        for a in alts:
            if a.k == "call" and a.x["path"].startswith(A("rc_prefix")) and is_arg(a.a[0], "self"):
                kinds.add("delegate:" + a.x["path"].split("::")[-1])
                continue
            inner = a.a[0] if (a.k == "agg" and a.x.get("variant") == "Ok") else None
            if inner is None:
                bad.append(a.show()[:80])
                continue
            if inner.k == "agg" and inner.x.get("variant") == "None":
                kinds.add("none")
                continue
            if inner.k == "call" and inner.x["path"].endswith(other):
                tgt = inner.a[0].strip()
                if tgt.k == "call" and tgt.x["path"].endswith("Option::<T>::insert") and is_self_field(tgt.a[0], "current_cursor"):
                    kinds.add("crossed")
                    continue
            # Some((k, v)) from transmute_entry_to_static(<blk>(current_cursor))
            srcs = list(inner.calls(A("transmute_entry")))
            if srcs and all(any(is_self_field(x, "current_cursor") for x in s.walk()) and any(x.k in ("fn", "call") and x.x["path"].endswith(blk) for x in s.walk()) for s in srcs):
                kinds.add("in-block")
                continue
            bad.append(a.show()[:80])
        ck.ob(R, f"relative-move-sources/{name}", not bad and {"in-block", "crossed", "none"} <= kinds, f"{name} returns the in-block neighbour, the edge entry of the adjacent block, None, or delegates ({sorted(kinds)})" + (f"; unrecognised: {bad}" if bad else ""), b)


# ---------------------------------------------------------------------------------------
def r7_seek_load(ck, F, R="C03-R7"):
    n = 0
    for b in F.user_bodies():
        for site, c, t in calls(b, A("block_new")):
            n += 1
            src = b.arg_exprs(site)[0].ident()
            seeks = [s for s, c_, t_ in calls(b, "Seek::seek") if b.dominates(s, site) and b.arg_exprs(s)[0].ident() == src]
            if not seeks:
                ck.ob(R, f"load-after-seek/{b.path}", False, f"block load from `{src}` is not dominated by a seek on the same source", b, site)
                continue
            s = max(seeks, key=lambda x: len(b.dominators().get(x.bb, ())))
            a = b.arg_exprs(s)[1].strip()
            abs_ok = a.k == "agg" and a.x.get("variant") == "Start"
            between = []
            for m in b.sites_between(s, site):
                if m.i is None and b.at(m)["t"] == "call":
                    if any(x.ident() == src for x in b.arg_exprs(m)):
                        cm = callee_of(b.at(m))
                        if not call_matches(cm, "Try>::branch", "::from_residual"):
                            between.append(b.loc(m))
            ok_src = False
            if abs_ok:
                v = a.a[0].strip()
                comps = v.a if v.k == "phi" else [v]
                ok_src = all(decoded_offset(x) is not None or is_self_field(x, "base_block_offset") for x in comps)
            ck.ob(R, f"load-after-absolute-seek/{b.path}", abs_ok and not between and ok_src,
                  f"Block::new on `{src}` follows seek({a.show()[:110]}) with no other use of the source in between" + (f" — uses in between: {between}" if between else "") + ("" if ok_src else " — seek operand does not come from an index entry / root offset"), b, site)
    ck.floor(R, "block load sites", n, 8, F.config)
