"""helpers shared by the property modules"""
import os
import tomllib

from .mirlib import *  # noqa
from .mirlib import Site, Expr, callee_of, callee_name, call_matches, AnchorMissing

_ANCH = None


def anchors():
    global _ANCH
    if _ANCH is None:
        with open(os.path.join(os.path.dirname(os.path.dirname(os.path.abspath(__file__))), "anchors.toml"), "rb") as f:
            _ANCH = tomllib.load(f)
    return _ANCH


def A(name):
    """def path / symbol registered under `name` in anchors.toml"""
    a = anchors()["paths"]
    if name not in a:
        raise AnchorMissing(f"anchors.toml has no entry {name}")
    return a[name]


def calls(body, *suffixes):
    """call sites in `body` whose (resolved or declared) callee path ends with one of suffixes"""
    return body.calls_to(lambda c: call_matches(c, *suffixes))


def is_self_field(e, *names, selfname="self"):
    """expression (after stripping borrows) is self.<names[0]>.<names[1]>..."""
    e = e.strip()
    for n in reversed(names):
        if e.k != "field" or e.x["name"] != n:
            return False
        e = e.a[0].strip()
    return e.k == "arg" and (selfname is None or e.x["name"] == selfname)


def reader_meta_field(F, e):
    """the trailer field a value is read from, through `Reader`'s accessor or straight from `<reader>.metadata`:
    (field name, the reader expression), else None"""
    x = e.strip()
    if x.k == "call" and x.a and x.x["path"].startswith("reader::Reader::<R>::") and F.has_body(x.x["path"]):
        r = F.body(x.x["path"]).expr_at_return().strip()
        if r.k == "field" and is_self_field(r.a[0], "metadata"):
            return r.x["name"], x.a[0].strip()
        return None
    if x.k == "field" and x.a[0].strip().k == "field" and x.a[0].strip().x["name"] == "metadata":
        return x.x["name"], x.a[0].strip().a[0].strip()
    return None


def is_arg(e, name):
    e = e.strip()
    return e.k == "arg" and e.x["name"] == name


# the same operation under two spellings: `cmp::max(a, b)` and `a.max(b)` (Ord::max), likewise min
_SPELLINGS = {"cmp::max": ("cmp::max", "Ord::max"), "cmp::min": ("cmp::min", "Ord::min")}


def is_call(e, *suffixes):
    e = e.strip() if e.k in ("ref", "deref") else e
    if e.k != "call":
        return False
    p = e.x["path"]
    for s in suffixes:
        if any(p.endswith(x) for x in _SPELLINGS.get(s, (s,))):
            return True
    return False


def strip_casts(e):
    while True:
        e = e.strip()
        if e.k == "cast":
            e = e.a[0]
        else:
            return e


def unwrap_payload(e, variant):
    """x@Some.0 -> x (None if e is not the payload of that variant); `x?` is the Some / Ok payload of x as well"""
    t = e
    while t.k in ("ref", "deref") or (t.k == "cast" and t.x.get("transparent")):
        t = t.a[0]
    if t.k == "field" and t.x["name"] == "0" and t.a[0].k == "downcast" and t.a[0].x["variant"] == "Continue":
        br = t.a[0].a[0]
        if br.k == "call" and br.x["path"].endswith("Try>::branch") and br.a:
            is_opt = "option::Option" in br.x["path"]
            if (variant == "Some" and is_opt) or (variant == "Ok" and not is_opt):
                return br.a[0]
    e = e.strip()
    if e.k == "field" and e.x["name"] in ("0",) and e.a[0].k == "downcast" and e.a[0].x["variant"] == variant:
        return e.a[0].a[0]
    return None


def checked(e):
    """(a OpWithOverflow b).0  ->  ('Op', a, b); plain bin -> (op, a, b); the Some payload of
    a.checked_add(b) / checked_sub / checked_mul -> ('Add' | 'Sub' | 'Mul', a, b)"""
    e = e.strip()
    p = unwrap_payload(e, "Some")
    if p is None and e.k == "call" and e.a and e.x["path"].startswith("std::option::Option::<T>::") and e.x["path"].rsplit("::", 1)[-1] in ("expect", "unwrap"):
        p = e.a[0]      # `a.checked_mul(b).expect("..")`: the product, with a panic where it would wrap
    if p is not None:
        p = p.strip()
        if p.k == "call" and len(p.a) == 2 and p.x["path"].rsplit("::", 1)[-1] in ("checked_add", "checked_sub", "checked_mul") and "num::" in p.x["path"]:
            return {"checked_add": "Add", "checked_sub": "Sub", "checked_mul": "Mul"}[p.x["path"].rsplit("::", 1)[-1]], p.a[0], p.a[1]
    if e.k == "field" and e.x["name"] == "0" and e.a[0].strip().k == "bin":
        b = e.a[0].strip()
        op = b.x["op"]
        if op.endswith("WithOverflow"):
            return op[: -len("WithOverflow")], b.a[0], b.a[1]
    if e.k == "bin":
        return e.x["op"], e.a[0], e.a[1]
    return None


def const_val(e):
    e = e.strip()
    if e.k == "const":
        return e.x["v"]
    return None


def field_stores(facts, adt, field, include_derived=False):
    """all MIR stores into <adt>.<field> in the crate: list of (body, site, stmt)"""
    out = []
    # closures absorbed at the combinator that applies them and helpers spliced into every caller are analysed
    # there (user_bodies): their own bodies would report each store a second time, under the wrong name
    for b in (facts.bodies if include_derived else facts.user_bodies()):
        if b.is_derived() and not include_derived:
            continue
        for site, st in b.sites():
            if site.i is None:
                # call destinations can also be field places
                if st["t"] == "call" and st["dest"]["p"]:
                    last = st["dest"]["p"][-1]
                    if isinstance(last, dict) and last.get("name") == field and last.get("adt") == adt:
                        out.append((b, site, st))
                continue
            if st["s"] != "assign" or not st["pl"]["p"]:
                continue
            last = st["pl"]["p"][-1]
            if isinstance(last, dict) and last.get("name") == field and last.get("adt") == adt:
                out.append((b, site, st))
            elif st["pl"]["p"] == ["*"]:
                # a store through a reference: where does the reference point?
                tgt = b.expr_of_local(st["pl"]["l"], site)
                while tgt.k in ("ref", "deref"):
                    tgt = tgt.a[0]
                if tgt.k == "field" and tgt.x.get("name") == field and tgt.x.get("adt") == adt:
                    out.append((b, site, st))
    return out


def field_reads(facts, adt, field, include_derived=False):
    """sites whose operands / places read <adt>.<field> (by projection)"""
    out = []

    def walk(o, hit):
        if isinstance(o, dict):
            if "p" in o and "l" in o:
                for el in o["p"]:
                    if isinstance(el, dict) and el.get("name") == field and el.get("adt") == adt:
                        hit.append(1)
            for v in o.values():
                walk(v, hit)
        elif isinstance(o, list):
            for v in o:
                walk(v, hit)

    for b in facts.bodies:
        if b.is_derived() and not include_derived:
            continue
        for site, st in b.sites():
            hit = []
            if site.i is not None and st.get("s") == "assign":
                walk(st["rv"], hit)
                # projections *through* the field on the lhs (e.g. self.f.g = ..) read f's address only
                for el in st["pl"]["p"][:-1]:
                    if isinstance(el, dict) and el.get("name") == field and el.get("adt") == adt:
                        hit.append(1)
            elif site.i is None:
                t = dict(st)
                t.pop("dest", None)
                walk(t, hit)
            if hit:
                out.append((b, site, st))
    return out


def aggregates(facts, adt):
    """all aggregate constructions of <adt>: (body, site, rvalue)"""
    out = []
    for b in facts.bodies:
        if b.is_derived():
            continue
        for site, st in b.sites():
            if site.i is not None and st["s"] == "assign" and st["rv"]["rv"] == "agg" and st["rv"].get("adt") == adt:
                out.append((b, site, st["rv"]))
    return out


def agg_field_expr(body, site, rv, field):
    i = rv["fields"].index(field)
    return body.expr_of_operand(rv["ops"][i], site)


def mut_uses_between(body, a, b, is_target):
    """call sites between a and b that receive a `&mut` argument satisfying is_target(expr)"""
    out = []
    for s in body.sites_between(a, b):
        if s.i is not None:
            continue
        t = body.at(s)
        if t["t"] != "call":
            continue
        for op, e in zip(t["args"], body.arg_exprs(s)):
            ty = ""
            if op["k"] in ("copy", "move"):
                ty = op["pl"]["ty"]
            if ty.startswith("&mut") and is_target(e):
                out.append(s)
    return out


def switch_on(body, bb):
    """decode a switchInt terminator: returns (discr_expr, enum_path or None, {label: target}, otherwise)"""
    t = body.term(bb)
    assert t["t"] == "switch"
    e = body.expr_of_operand(t["discr"], Site(bb, None))
    enum = None
    labels = {}
    if e.k == "discr":
        ty = None
        # type of the place whose discriminant is read
        d, _ = body.defs()
        op = t["discr"]
        if op["k"] in ("copy", "move") and not op["pl"]["p"]:
            for site, kind, payload in d.get(op["pl"]["l"], []):
                if kind == "assign" and payload["rv"] == "discr":
                    ty = payload["pl"]["ty"]
        if ty:
            enum = enum_of_type(ty)
    table = body.facts.enum_tables.get(enum) if enum else None
    for v, tb in t["arms"]:
        iv = int(v)
        name = None
        if table:
            name = table.get(iv)
            if name is None and iv > 2**63:
                name = table.get(iv - 2**128) or table.get(iv - 2**64)
        labels[name if name is not None else iv] = tb
    oth = t["otherwise"]
    if table:
        missing = [n for n in table.values() if n not in labels]
        ob = body.blocks[oth]
        real = not (ob["term"]["t"] == "unreachable" and not ob["stmts"])
        if len(set(missing)) == 1 and real:
            labels[missing[0]] = oth
    return e, enum, labels, oth


def arm_region(body, sw_bb, target):
    """blocks reachable from `target` that are dominated by it (the arm's own region) plus target"""
    reg = {target}
    for b in body.reachable_from(target):
        if body.dominates(target, b) and b != sw_bb:
            reg.add(b)
    # if the target has other predecessors than the switch it is a join, region is just itself
    return reg


def region_calls(body, region):
    out = []
    for bb in sorted(region):
        t = body.term(bb)
        if t["t"] == "call":
            out.append((Site(bb, None), callee_of(t), t))
    return out


def ok_return_sites(body):
    """definitions of _0 that are not the `?` error path (from_residual) — the success exits.  A definition that only
    hands over a Result computed elsewhere (`_0 = move r`: the join of a spliced helper's Ok and Err returns) stands
    for the definitions of that Result"""
    d, _ = body.defs()
    out = []
    seen = set()

    def visit(l, depth):
        for site, kind, payload in d.get(l, []):
            if (l, site) in seen:
                continue
            seen.add((l, site))
            if kind == "call":
                c = callee_of(payload)
                if c and call_matches(c, "FromResidual::from_residual", "::from_residual"):
                    continue
            if kind == "assign":
                if depth < 6 and payload["rv"] == "use" and payload["op"].get("k") in ("move", "copy") and not payload["op"]["pl"]["p"] \
                        and d.get(payload["op"]["pl"]["l"]) and body.locals[payload["op"]["pl"]["l"]]["ty"].startswith("std::result::Result<"):
                    visit(payload["op"]["pl"]["l"], depth + 1)
                    continue
                e = body._expr_of_def((site, kind, payload))
                if e.k == "agg" and e.x.get("variant") == "Err" and e.x.get("adt", "").endswith("result::Result"):
                    continue      # `return Err(..)`: an explicit error exit is not a success exit either
            if site.bb in body.normal_blocks():
                out.append((site, kind, payload))
    visit(0, 0)
    return out


def error_only_blocks(body):
    """blocks from which no success exit can be reached: every return reachable from them yields an
    error (`?`, `return Err(..)`) or they diverge.  Branches into such blocks are validity checks, not
    decisions about what the function does when it succeeds."""
    oks = {s.bb for s, k, p in ok_return_sites(body)}
    rets = set(body.return_blocks())
    d, _ = body.defs()
    if not d.get(0):
        return set()
    good = set()
    for bb in body.normal_blocks():
        reach = body.reachable_from(bb) | {bb}
        if reach & oks:
            good.add(bb)
    return {bb for bb in body.normal_blocks() if bb not in good and (body.reachable_from(bb) | {bb}) & rets}


def success_guards(body, site):
    """the branches that decide whether `site` is reached on a succeeding run: switch blocks that dominate
    the site with exactly one successor leading to it, not counting branches whose other successors are
    all error-only (validity checks)"""
    eo = error_only_blocks(body)
    out = []
    for bb in sorted(body.normal_blocks()):
        if body.term(bb)["t"] == "switch" and bb != site.bb and body.dominates(bb, site.bb):
            succs = body.succs(bb)
            toward = [x for x in succs if body.dominates(x, site.bb)]
            if len(toward) == 1 and len(succs) > 1:
                others = [x for x in succs if x != toward[0]]
                if all(x in eo or diverges(body, x) for x in others):
                    continue
                out.append(bb)
    return out


def on_every_success_path_after(body, after_bb, site):
    """every path that starts at `after_bb` and reaches a success exit passes `site`"""
    if after_bb == site.bb:
        return True
    oks = {s.bb for s, k, p in ok_return_sites(body)}
    reach = reachable_without(body, banned_blocks={site.bb}, start=after_bb)
    return not (reach & oks)


def err_return_sites(body):
    d, _ = body.defs()
    out = []
    for site, kind, payload in d.get(0, []):
        if kind == "call":
            c = callee_of(payload)
            if c and call_matches(c, "::from_residual"):
                out.append((site, kind, payload))
    return out


def split_part(e):
    """e is `<slice>.split_last_mut()@Some.0.<i>` (or split_first_mut): returns (call_site, i, call_expr)"""
    e = e.strip()
    if e.k == "field" and e.x["name"] in ("0", "1"):
        m = e.a[0].strip() if e.a[0].k in ("ref", "deref") else e.a[0]
        p = unwrap_payload(m, "Some")
        if p is not None:
            p = p.strip()
            if p.k == "call" and (p.x["path"].endswith("::split_last_mut") or p.x["path"].endswith("::split_last")):
                return p.x["site"], int(e.x["name"]), p
    return None


# ---------------------------------------------------------------------------------------
# REL: comparisons on byte strings and the branches they steer

CMP_LAST = {"eq": "==", "ne": "!=", "lt": "<", "le": "<=", "gt": ">", "ge": ">=", "cmp": "cmp", "partial_cmp": "cmp", "starts_with": "starts_with"}
FLIP = {"<": ">", "<=": ">=", ">": "<", ">=": "<=", "==": "==", "!=": "!=", "cmp": "cmp-rev"}
BINCMP = {"Eq": "==", "Ne": "!=", "Lt": "<", "Le": "<=", "Gt": ">", "Ge": ">="}


def bool_edges(body, value_site=None, value_expr_pred=None):
    """find the switch that branches on the boolean produced at `value_site` (a call site or an
    assign site), looking through one `Not`. Returns (switch_bb, true_target, false_target)."""
    for bb in sorted(body.normal_blocks()):
        t = body.term(bb)
        if t["t"] != "switch":
            continue
        e = body.expr_of_operand(t["discr"], Site(bb, None))
        neg = False
        if e.k == "un" and e.x["op"] == "Not":
            neg = True
            e = e.a[0]
        hit = False
        es = e.strip() if e.k in ("field", "ref", "deref", "cast", "phi") else e      # the value seen through `Ok(v)?`, borrows, copies
        if value_site is not None and (e.x.get("site") == value_site or (es.k == "call" and es.x.get("site") == value_site)):
            hit = True
        if not hit and value_site is not None and es.k == "phi":
            # `matches!(x, PAT if v)` / `PAT && v`: false on the paths where the pattern does not match, v otherwise —
            # the true edge is taken exactly when v is true there
            alts = [a_.strip() for a_ in es.a]
            vs = [a_ for a_ in alts if a_.x.get("site") == value_site or (a_.k == "call" and a_.x.get("site") == value_site)]
            rest = [a_ for a_ in alts if a_ not in vs]
            if len(vs) == 1 and rest and all(a_.k == "const" and const_val(a_) == 0 for a_ in rest):
                hit = True
        if value_expr_pred is not None and value_expr_pred(e):
            hit = True
        if not hit:
            continue
        zero = [tb for v, tb in t["arms"] if int(v) == 0]
        if not zero:
            continue
        f_t, t_t = zero[0], t["otherwise"]
        if neg:
            f_t, t_t = t_t, f_t
        return bb, t_t, f_t
    return None


def diverges(body, bb):
    """no Return is reachable from bb along normal edges (the edge leads to a panic)"""
    if body.term(bb)["t"] == "return":
        return False
    return not any(body.term(x)["t"] == "return" for x in body.reachable_from(bb))


def byte_comparisons(body):
    """every comparison call whose operands are byte strings / keys: list of dicts
    {site, op, a, b, callee}"""
    out = []
    for site, c, t in body.calls():
        if c is None:
            continue
        n = callee_name(c)
        last = n.rsplit("::", 1)[-1]
        if last not in CMP_LAST:
            continue
        if not any(x in n for x in ("PartialOrd", "PartialEq", "Ord", "cmp::", "slice::")) and last != "starts_with":
            continue
        args = body.arg_exprs(site)
        tys = [op["pl"]["ty"] if op["k"] in ("copy", "move") else op.get("ty", "") for op in t["args"]]
        if not any("[u8]" in ty or "Vec<u8>" in ty for ty in tys):
            continue
        out.append({"site": site, "op": CMP_LAST[last], "a": args[0], "b": args[1], "callee": n, "tys": tys})
    return out


def reachable_without(body, banned_edges=(), banned_blocks=(), start=0):
    banned_edges = set(banned_edges)
    banned_blocks = set(banned_blocks)
    seen = {start}
    work = [start]
    while work:
        b = work.pop()
        for s in body.succs(b):
            if (b, s) in banned_edges or s in banned_blocks or s in seen:
                continue
            seen.add(s)
            work.append(s)
    return seen


def presence_edges(b, call_site):
    """(test site, target when Some, target when None) of the branch that decides whether the Option produced by
    the call at `call_site` (possibly through `?`) holds a value: `x.is_some()`, `x.is_none()`, or a match on it"""
    for s, c, t in b.calls():
        last = callee_name(c).rsplit("::", 1)[-1] if c else ""
        if last in ("is_some", "is_none") and "option::Option" in callee_name(c) and b.dominates(call_site, s):
            src = b.arg_exprs(s)[0]
            cands = [src.strip()] + [y.strip() for y in flat_alts(src)]
            okp = unwrap_payload(src, "Ok")
            if okp is not None:
                cands.append(okp.strip())
            if not any(x.k == "call" and x.x.get("site") == call_site for x in cands):
                continue
            ed = bool_edges(b, value_site=s)
            if ed is None:
                continue
            return (s, ed[1], ed[2]) if last == "is_some" else (s, ed[2], ed[1])
    for bb in sorted(b.normal_blocks()):
        if b.term(bb)["t"] != "switch":
            continue
        e, enum, labels, oth = switch_on(b, bb)
        if e.k == "discr" and enum == "std::option::Option" and "Some" in labels and "None" in labels:
            x = e.a[0].strip()
            if x.k == "call" and x.x.get("site") == call_site:
                return (Site(bb, None), labels["Some"], labels["None"])
    return None


def variant_of(F, e):
    """variant name of a field-less enum value: a literal `Enum::V`, or a constant of that enum type (a named
    `const X: Enum = Enum::V`, which MIR shows as its evaluated discriminant)"""
    s = e.strip()
    if s.k == "agg" and not s.a:
        return s.x.get("variant")
    if s.k == "const" and s.x.get("ty") in F.enum_tables and s.x.get("v") is not None:
        return F.enum_tables[s.x["ty"]].get(int(s.x["v"]))
    if s.k == "text" and s.x.get("variant"):
        return s.x["variant"]
    return None


def site_alts(e):
    """alternatives of a value kept apart by the *site* that produces them (flat_alts merges alternatives that
    print the same, e.g. the same getter called before a loop and inside it)"""
    if e.k == "phi":
        return [y for c in e.a for y in site_alts(c)]
    s = e.strip(keep_phi=True)
    if s is e:
        return [e]
    return site_alts(s)


def flat_alts(e):
    """alternatives of an expression: phi flattened, and Ok(phi(a|b)) / Some(phi(a|b)) distributed
    into Ok(a) | Ok(b) (a variant built around a join is the join of the variants)"""
    out = []

    def go(x):
        if x.k == "phi":
            for c in x.a:
                go(c)
        elif x.k == "agg" and x.x.get("ak") == "adt" and len(x.a) == 1 and x.a[0].k == "phi" and x.x.get("variant") in ("Ok", "Some", "Err") \
                and any(c.k == "agg" and c.x.get("ak") == "adt" for c in flat_alts(x.a[0])):
            # only a join of *variants* is distributed; a join of values stays one alternative
            for c in flat_alts(x.a[0]):
                kw = dict(x.x)
                if c.x.get("site") is not None:
                    kw["site"] = c.x["site"]      # the alternative is decided where the inner variant is built
                go(Expr("agg", [c], **kw))
        else:
            out.append(x)
    go(e)
    return out


def pure_option_view(e, *field_path):
    """e is `self.<field>` as an Option view: every alternative is None or Some(<payload of self.field>)"""
    if is_self_field(e, *field_path):
        return True
    alts = flat_alts(e)
    some = [a for a in alts if not (a.k == "agg" and a.x.get("variant") == "None")]
    if len(some) != 1:
        return False
    s = some[0]
    if s.k == "call" and s.x["path"].endswith("Option::<T>::map"):
        return is_self_field(s.a[0], *field_path) and s.a[1].k == "fn"
    if not (s.k == "agg" and s.x.get("variant") == "Some" and s.a):
        return False
    src = unwrap_payload(s.a[0].strip() if s.a[0].k in ("ref", "deref") else s.a[0], "Some")
    if src is None:
        x = s.a[0].strip()
        src = unwrap_payload(x, "Some")
    return src is not None and is_self_field(src, *field_path)


def source_sites(e, pred=None):
    """sites of the calls an expression's value comes from (through payload projections, phi, tuples)"""
    out = set()
    for x in e.walk():
        if x.k == "call" and x.x.get("site") is not None and (pred is None or pred(x)):
            out.add(x.x["site"])
    return out


def tuple_part(e):
    """which component(s) of the entry tuple an expression is: set of field indices found at the
    top of each alternative (through borrows, phi and `?`)"""
    out = set()
    for x in flat_alts(e):
        y = x.strip()
        if y.k == "phi":
            out |= tuple_part(y)
        elif y.k == "field":
            out.add(y.x["idx"])
        else:
            out.add(None)
    return out


def cursor_sources(e):
    """sites of the ReaderCursor / helper calls an entry (or a part of it) comes from"""
    return source_sites(e, lambda x: x.x["path"].startswith(A("rc_prefix")) or x.x["path"].endswith(A("last_prefix")))


def specialise_switch(b, pred, variant):
    """a copy of body `b` in which every switch selected by pred(discr_expr, enum) is replaced by a
    jump to the arm of `variant`.  Paths of the other variants disappear, so joins after the match
    (a value chosen per variant, code hoisted before or sunk after the match) resolve to what this
    variant does.  Block numbering is unchanged: sites of `b` remain valid in the copy."""
    import copy
    from .mirlib import Body
    raw = copy.deepcopy(b.raw)
    n = 0
    for bb in sorted(b.normal_blocks()):
        if b.term(bb)["t"] != "switch":
            continue
        e, enum, labels, oth = switch_on(b, bb)
        sel = pred(e, enum)
        if sel:
            # pred may name the variant itself (a string) or a truth value for a boolean switch
            want = sel if (isinstance(sel, str) or (isinstance(sel, int) and not isinstance(sel, bool))) else variant
            if want in ("true", "false") and not labels:
                t_ = b.term(bb)
                zero = [tb for v, tb in t_["arms"] if int(v) == 0]
                tgt = (t_["otherwise"] if want == "true" else (zero[0] if zero else None))
            elif want == "otherwise":
                tgt = oth
            else:
                tgt = labels.get(want, oth)
            if tgt is None:
                continue
            raw["blocks"][bb]["term"] = {"t": "goto", "target": tgt, "span": b.term(bb)["span"], "specialised": variant}
            n += 1

    def _succ(t):
        out = []
        for k in ("target", "unwind", "otherwise"):
            if isinstance(t.get(k), int):
                out.append(t[k])
        for v in t.get("arms", []) or []:
            out.append(v[1])
        return out
    seen, todo = {0}, [0]
    while todo:
        x = todo.pop()
        for y in _succ(raw["blocks"][x]["term"]):
            if y not in seen:
                seen.add(y)
                todo.append(y)
    # blocks no longer reachable are emptied so that their definitions reach nothing
    for i, blk in enumerate(raw["blocks"]):
        if i not in seen:
            blk["stmts"] = []
            blk["term"] = {"t": "unreachable", "span": blk["term"]["span"]}
    nb = Body(raw, b.facts)
    nb.specialised = (variant, n)
    return nb


def _reads_in(o, acc):
    """locals read by a MIR operand / rvalue / terminator fragment (json)"""
    if isinstance(o, dict):
        if o.get("k") in ("copy", "move") and "pl" in o:
            acc.append((o["pl"]["l"], tuple(_proj_key(p) for p in o["pl"]["p"])))
            for p in o["pl"]["p"]:
                if isinstance(p, dict) and "index" in p:
                    acc.append((p["index"], ()))
            return
        if "rv" in o and o.get("rv") in ("ref", "addr", "len", "discr") and "pl" in o:
            acc.append((o["pl"]["l"], tuple(_proj_key(p) for p in o["pl"]["p"])))
        for k, v in o.items():
            if k in ("span", "dest", "func"):
                continue
            _reads_in(v, acc)
    elif isinstance(o, list):
        for v in o:
            _reads_in(v, acc)


def _proj_key(p):
    if p == "*":
        return "*"
    if "downcast" in p:
        return "as:" + p["downcast"]
    if "f" in p:
        return "f:" + str(p["f"])
    return "x"


def dropped_fill_lengths(F, bodies=None):
    """calls that fill a caller-provided `&mut [u8]` and report how many bytes they produced
    (return type usize / Result<usize, _>) whose reported length is never read: the bytes past it
    are then treated as data.  Returns [(body, site, callee)]."""
    out = []
    for b in (bodies if bodies is not None else F.user_bodies()):
        for s, c, t in b.calls():
            fty = t.get("func", {}).get("ty", "")
            if "fn(" not in fty or t.get("target") is None:
                continue
            try:
                ins, ret = _sig_split(fty)
            except Exception:
                continue
            if not any(_erase(x).replace(" ", "") in ("&mut[u8]",) for x in ins):
                continue
            r = _erase(ret)
            if not (r == "usize" or r.startswith("std::result::Result<usize,")):
                continue
            if not _ok_payload_read(b, s, t, r == "usize"):
                if _exactly_sized_destination(b, s, c):
                    continue
                out.append((b, s, callee_name(c) if c else "<indirect>"))
    return out


def _exactly_sized_destination(b, s, c):
    """the one case where the produced length carries no information: raw snappy decoding into a buffer that was
    resized to `snap::raw::decompress_len(input)` of the very input being decoded — the decoder fills it exactly
    (or fails)"""
    if not (c and callee_name(c).endswith("snap::raw::Decoder::decompress")):
        return False
    a = b.arg_exprs(s)
    if len(a) < 3:
        return False
    src, dst = a[1], a[2]
    vec = None
    for x in dst.walk():
        if x.k in ("arg", "var", "field") and vec is None:
            vec = x
    for s2, c2, t2 in b.calls():
        if callee_name(c2).endswith("Vec::<T, A>::resize") and b.dominates(s2, s):
            a2 = b.arg_exprs(s2)
            n = a2[1].strip()
            pl = unwrap_payload(n, "Ok") or n
            pl = pl.strip()
            if pl.k == "call" and pl.x["path"].endswith("snap::raw::decompress_len") and pl.a and pl.a[0].ident() == src.ident() \
                    and vec is not None and any(y.ident() == vec.ident() for y in a2[0].walk()):
                return True
    return False


def _erase(ty):
    import re
    ty = ty.split("{")[0].strip()
    return re.sub(r"'\w+ ?", "", ty)


def _sig_split(sig):
    i = sig.index("fn(") + 3
    depth, j, parts, cur = 0, i, [], ""
    while j < len(sig):
        ch = sig[j]
        if ch in "(<[":
            depth += 1
        elif ch in ")>]":
            if depth == 0 and ch == ")":
                break
            if not (ch == ">" and sig[j - 1] == "-"):
                depth -= 1
        if ch == "," and depth == 0:
            parts.append(cur.strip())
            cur = ""
        else:
            cur += ch
        j += 1
    if cur.strip():
        parts.append(cur.strip())
    rest = sig[j + 1:]
    out = rest.split("->", 1)[1].strip() if "->" in rest else "()"
    return parts, out.split(" {")[0].strip()


def _ok_payload_read(b, site, term, plain):
    """is the usize produced by the call at `site` read anywhere (flow-insensitive, through moves, `?`
    and explicit matches)?  A Result handed on whole (returned, passed to another function) counts as read."""
    if term["dest"]["p"]:
        return True
    whole = {term["dest"]["l"]}      # locals holding the Result / ControlFlow whole
    pay = set() if not plain else {term["dest"]["l"]}   # locals holding the usize
    if plain:
        whole = set()
    changed = True
    stmts = []
    for bb in b.normal_blocks():
        for st in b.blocks[bb]["stmts"]:
            if st["s"] == "assign":
                stmts.append(("assign", st["pl"], st["rv"]))
        t = b.blocks[bb]["term"]
        stmts.append(("term", None, t))
    used = False
    while changed:
        changed = False
        for kind, pl, x in stmts:
            if kind == "assign":
                rv = x
                if rv["rv"] == "use" and rv["op"].get("k") in ("copy", "move"):
                    src = rv["op"]["pl"]
                    keys = [_proj_key(p) for p in src["p"]]
                    tgt_whole = not pl["p"]
                    if src["l"] in whole and not keys and tgt_whole and pl["l"] not in whole:
                        whole.add(pl["l"]); changed = True
                    elif src["l"] in whole and keys in (["as:Ok", "f:0"], ["as:Continue", "f:0"]) and tgt_whole and pl["l"] not in pay:
                        pay.add(pl["l"]); changed = True
                    elif src["l"] in pay and not keys and tgt_whole and pl["l"] not in pay and pl["l"] != 0:
                        pay.add(pl["l"]); changed = True
            else:
                t = x
                if t["t"] == "call" and t.get("func", {}).get("fn", {}).get("path", "").endswith("Try::branch"):
                    a = t["args"][0]
                    if a.get("k") in ("copy", "move") and a["pl"]["l"] in whole and not a["pl"]["p"] and not t["dest"]["p"] and t["dest"]["l"] not in whole:
                        whole.add(t["dest"]["l"]); changed = True
    # now: any read of a payload local other than the propagation moves above, or any escape of a whole local
    for kind, pl, x in stmts:
        acc = []
        if kind == "assign":
            rv = x
            if rv["rv"] == "use" and rv["op"].get("k") in ("copy", "move"):
                src = rv["op"]["pl"]
                keys = [_proj_key(p) for p in src["p"]]
                if src["l"] in pay and not keys:
                    if pl["p"] or pl["l"] == 0 or pl["l"] not in pay:
                        return True
                    continue
                if src["l"] in whole:
                    if not keys and (pl["p"] or pl["l"] == 0):
                        return True     # stored / returned whole
                    continue
            _reads_in(rv, acc)
            if any(l in pay for l, k in acc):
                return True
            if pl["l"] in () :
                pass
        else:
            t = x
            if t["t"] == "call":
                if t.get("func", {}).get("fn", {}).get("path", "").endswith("Try::branch"):
                    continue
                _reads_in(t["args"], acc)
                if any(l in pay for l, k in acc) or any(l in whole and not k for l, k in acc):
                    return True
            elif t["t"] == "switch":
                _reads_in(t["discr"], acc)
                if any(l in pay for l, k in acc):
                    return True
            elif t["t"] == "return":
                if 0 in whole or 0 in pay:
                    return True
    return False
