"""C02 — seeks return the exact ceiling / floor / match: the structural facts the search
algorithm's correctness argument rests on (index keyed by last keys, probe plumbing through the
descent, the relation and arm action of every key comparison, offset-table layout)."""
from .common import *
from .c01 import classify_block_writes, r4_index_pair, r7_mirror
from .c03 import return_alts, is_err_path, decoded_offset, r5_wrappers, r3_reset

PID = "C02"
META = {
    "explanation": "Static analysis of the seek path on the MIR of the current tree: (R1) every index entry is keyed by the flushed block's last key, (R2) one probe flows unchanged through every level of the descent and the offset followed is the one the last index level returned, (R3) every comparison that touches keys is inventoried in canonical form `stored REL probe` with the action of each outcome, (R4) the writer pushes offset-table slots exactly at interval boundaries before appending the entry and the reader rebuilds the table in the same order. Necessary conditions of exact ceiling/floor/match; the algorithm's correctness over all key sets is not decided. The property quantifies over files this Writer emits and is answered through this cursor: the shared file-wellformedness and cursor-traversal rules (rules/shared.py: counting sink, offsets read before the write, pending block, trailer last, varint / entry framing; wrappers, recursive reload, mirror, reset, in-block steps) are re-run as necessary conditions.",
    "assumptions": ["core::cmp lexicographic ordering on [u8] and Option<&[u8]>", "slice::binary_search_by_key contract"],
}


def run(ck):
    for cfg in ck.configs():
        F = ck.facts(cfg)
        ck.guard("C02-R1", r1_lastkey, ck, F)
        ck.guard("C02-R2", r2_descent, ck, F)
        ck.guard("C02-R3", r3_rel, ck, F)
        ck.guard("C02-R4", r4_offsets, ck, F)
        # the index maps each last key to the offset at which that child starts (shared with C01-R4)
        ck.guard("C02-R1", r4_index_pair, ck, F, "C02-R1")
        # the single steps the floor / ceiling seeks take across block boundaries (shared with C03-R5)
        ck.guard("C02-R5", r5_wrappers, ck, F, "C02-R5")
        ck.guard("C02-R5", r7_mirror, ck, F, "C02-R5")
        ck.guard("C02-R5", r3_reset, ck, F, "C02-R5")
        from . import shared
        shared.file_wellformed(ck, F, "C02-R6")
        shared.cursor_traversal(ck, F, "C02-R5")
    ck.trusted += ["rustc MIR construction", "core slice ordering and binary_search_by_key"]


def r1_lastkey(ck, F, R="C02-R1"):
    n = 0
    for path in (A("writer_insert"), A("writer_into_inner")):
        b = F.body(path)
        b0 = b
        for rec in classify_block_writes(ck, R, b0):
            b = rec.get("body", b0)
            if rec["kind"] == "paired":
                n += 1
                key = rec["lastkey_call"]
                ck.ob(R, f"index-keyed-by-last-key/{b.path.split('::')[-1]}/{rec['bw']}", key.x["path"].endswith(A("bw_last_key")) and b.dominates(key.x["site"], rec["site"]),
                      f"parent entry key = last_key() of `{rec['bw']}`, read before the block is finished", b, rec["insert_site"])
            elif rec["kind"] == "unpaired":
                ck.ob(R, f"unkeyed-block/{b.path.split('::')[-1]}", False, "block written without a parent entry keyed by its last key", b, rec["site"])
    ck.floor(R, "index entries keyed by last key", n, 4, F.config)
    lk = F.body(A("bw_last_key"))
    e = lk.expr_at_return()
    from .lastkey import LastKeyRepr
    ck.ob(R, "last-key-getter", LastKeyRepr(F).getter_pure(lk), f"BlockWriter::last_key returns {e.show()}", lk)


def r2_descent(ck, F, R="C02-R2"):
    b = F.body(A("rc_prefix") + "move_on_key_greater_than_or_equal_to")
    ix = calls(b, A("ibc_prefix") + "move_on_key_greater_than_or_equal_to")
    ck.exact(R, "index >=-seek calls in ReaderCursor >=-seek", len(ix), 1, F.config)
    blk = calls(b, A("bc_ge"))
    ck.exact(R, "data-block >=-seek calls", len(blk), 1, F.config)
    if not ix or not blk:
        return
    ia = b.arg_exprs(ix[0][0])
    ba = b.arg_exprs(blk[0][0])
    probe_i, probe_b = ia[1], ba[1]
    ck.ob(R, "same-probe-index-and-block", probe_i.ident() == probe_b.ident() and is_arg(probe_i, "key"), f"index level probed with `{probe_i.show()}`, data block with `{probe_b.show()}` (both the caller's key)", b, blk[0][0])
    seeks = calls(b, "Seek::seek")
    ck.exact(R, "seeks in ReaderCursor >=-seek", len(seeks), 1, F.config)
    if seeks:
        a = b.arg_exprs(seeks[0][0])[1].strip()
        src = decoded_offset(a.a[0]) if (a.k == "agg" and a.x.get("variant") == "Start") else None
        ok = src is not None and src.strip().k == "call" and src.strip().x.get("site") == ix[0][0]
        ck.ob(R, "follows-index-entry-value", ok, f"data block offset = {a.show()[:140]} (expected: decoded value part of the entry the index >=-seek returned)", b, seeks[0][0])
    # index wrapper: closure captures the probe and applies the >=-seek at every level
    w = F.body(A("ibc_prefix") + "move_on_key_greater_than_or_equal_to")
    cs = calls(w, A("ibc_iter"))
    ck.exact(R, "iter_index_blocks calls in index >=-seek", len(cs), 1, F.config)
    if cs:
        a = w.arg_exprs(cs[0][0])
        clo = a[2].strip()
        ck.ob(R, "closure-captures-probe", clo.k == "agg" and clo.x.get("ak") == "closure" and len(clo.a) == 1 and is_arg(clo.a[0], "key"), f"per-level move = {clo.show()} capturing the probe", w, cs[0][0])
    cl = F.closures_of(w.path)
    ck.exact(R, "closures of index >=-seek", len(cl), 1, F.config)
    for c in cl:
        ccs = calls(c, A("bc_ge"))
        ok = len(ccs) == 1 and len(list(c.calls())) == 1
        if ok:
            a = c.arg_exprs(ccs[0][0])
            p = a[1].strip()
            ok = p.k == "field" and p.x["idx"] == 0 and p.a[0].strip().k == "arg" and a[0].strip().k == "arg"
        ck.ob(R, "closure-applies-ge-with-probe", ok, "each index level is searched with BlockCursor's >=-seek on the captured probe", c)
    # iter_index_blocks applies the move to every level, following the value of what it returned
    it = F.body(A("ibc_iter"))
    mv = calls(it, "FnMut::call_mut")
    ck.exact(R, "move applications per level in iter_index_blocks", len(mv), 1, F.config)
    for s, c, t in mv:
        ck.ob(R, "move-in-level-loop", it.in_loop(s.bb) and is_arg(it.arg_exprs(s)[0], "mov"), "the caller's move is applied inside the per-level loop", it, s)


def _canon(c, probe_names):
    """(op, stored_expr, probe_expr) with the probe on the right"""
    a, b, op = c["a"], c["b"], c["op"]
    a_is_probe = any(is_arg(a, n) for n in probe_names) or _is_captured_probe(a)
    b_is_probe = any(is_arg(b, n) for n in probe_names) or _is_captured_probe(b)
    if a_is_probe and not b_is_probe:
        return FLIP.get(op, op), b, a, True
    return op, a, b, b_is_probe


def _is_captured_probe(e):
    e = e.strip()
    return e.k == "field" and e.a[0].strip().k == "arg" and e.a[0].strip().x["i"] == 1 and e.x.get("adt") == "closure"


def r3_rel(ck, F, R="C02-R3"):
    # --- BlockCursor <=-seek: binary search + linear scan
    le = F.body(A("bc_le"))
    bs = calls(le, "binary_search_by_key")
    ck.exact(R, "binary searches in BlockCursor <=-seek", len(bs), 1, F.config)
    if bs:
        a = le.arg_exprs(bs[0][0])
        tgt = a[1].strip()
        ok = tgt.k == "agg" and tgt.x.get("variant") == "Some" and is_arg(tgt.a[0], "key") and is_call(a[0], "Block::index_offsets")
        ck.ob(R, "binary-search-target", ok, f"binary_search_by_key(offset table, {tgt.show()}, stored key at slot) — natural Ord on Option<&[u8]>", le, bs[0][0])
        cl = [c for c in F.closures_of(le.path) if c.path.endswith("{closure#0}")]
        okc = False
        if cl:
            ents = calls(cl[0], A("block_entry_at"))
            alts_ = flat_alts(cl[0].expr_at_return())
            somes = [x for x in alts_ if x.k == "agg" and x.x.get("variant") == "Some"]
            # every alternative of the extractor's result is None (also `?` on an Option) or that one Some(key)
            rest = [x for x in alts_ if not any(x is y for y in somes) and not (x.k == "agg" and x.x.get("variant") == "None")
                    and not (x.k == "call" and x.x["path"].endswith("::from_residual") and "option::Option" in x.x["path"])]
            okc = len(ents) == 1 and len(somes) == 1 and not rest
            oki = False
            if okc:
                kx = somes[0].a[0].strip()
                src = unwrap_payload(kx.a[0], "Some") if (kx.k == "field" and kx.x["idx"] == 0) else None
                oki = src is not None and src.strip().x.get("site") == ents[0][0]
        else:
            oki = False
        ck.ob(R, "binary-search-key-fn", okc, "key extractor decodes the stored entry at the table slot (entry_at(off))", le)
        ck.ob(R, "binary-search-compares-key-part", oki, "the extractor projects the key (field 0) of the decoded entry", le)
    cmps = byte_comparisons(le)
    ck.exact(R, "scan comparisons in BlockCursor <=-seek", len(cmps), 1, F.config)
    for c in cmps:
        op, st, pr, okp = _canon(c, ["key"])
        stored_ok = any(True for _ in st.calls(A("block_entry_at")))
        # written as "stop when stored > probe" or as "go on while stored <= probe": the same relation
        ck.ob(R, "scan-break-relation", op in (">", "<=") and okp and stored_ok, f"linear scan decides on `stored {op} probe` (it stops at the first stored key strictly greater than the probe: an exact match off the table is kept)", le, c["site"])
        ed = bool_edges(le, value_site=c["site"])
        ok = False
        if ed:
            sw, t_t, f_t = ed
            if op == "<=":
                t_t, f_t = f_t, t_t      # t_t: the edge taken when stored > probe (stop); f_t: keep going
            # the stop edge leaves the loop without remembering the offset; the keep edge remembers it — either by
            # storing current_offset directly or by updating the value that is stored into it after the loop
            st_sites = []
            for s, s_ in le.sites():
                if s.i is not None and s_["s"] == "assign" and s_["pl"]["p"] and isinstance(s_["pl"]["p"][-1], dict) and s_["pl"]["p"][-1].get("name") == "current_offset":
                    st_sites.append(s)
                    v = le._expr_of_def((s, "assign", s_["rv"]))
                    for alt in flat_alts(v):
                        if alt.k == "agg" and alt.x.get("variant") == "Some" and alt.x.get("site") is not None:
                            st_sites.append(alt.x["site"])
            keep = [s for s in st_sites if le.dominates(f_t, s.bb)]
            brk = [s for s in st_sites if le.dominates(t_t, s.bb)]
            ok = len(keep) >= 1 and not brk and le.in_loop(c["site"].bb)
        ck.ob(R, "scan-arm-actions", ok, "not-greater => remember this offset and continue; greater => leave the loop with the previous offset", le, c["site"])
    # --- BlockCursor backward step: the scan from the previous table slot stops on the entry the cursor points at,
    # recognised by *whole-key* equality (keys are unique, so nothing weaker identifies it: a prefix test stops early
    # on `x` before `xy`, seeded C04-18)
    pv = F.body(A("bc_prev"))
    pc = [c for c in byte_comparisons(pv) if pv.in_loop(c["site"].bb)]
    ck.exact(R, "scan comparisons in BlockCursor backward step", len(pc), 1, F.config)
    for c in pc:
        ents = [x for side in (c["a"], c["b"]) for x in side.calls(A("block_entry_at"))]
        at_cur = [x for x in ents if len(x.a) > 1 and (lambda o: o is not None and is_self_field(o, "current_offset"))(unwrap_payload(x.a[1], "Some") or x.a[1])]
        ok = c["op"] in ("==", "!=") and len(ents) == 2 and len(at_cur) >= 1
        ck.ob(R, "prev-scan-stops-on-current-key", ok, f"the backward step's scan compares the scanned key with the key at the current offset by `{c['op']}` on whole keys ({c['callee'].rsplit('::', 2)[-2:]})", pv, c["site"])
        ed = bool_edges(pv, value_site=c["site"])
        okb = False
        if ed and ok:
            sw, t_t, f_t = ed
            if c["op"] == "!=":
                t_t, f_t = f_t, t_t
            # the current key ends the scan (that edge cannot come back to the comparison without leaving the loop),
            # any other key continues it (that edge does), and the scan remembers offsets only while it continues
            lp = [(h, blks) for h, blks in pv.loops() if c["site"].bb in blks]
            if lp:
                h, blks = min(lp, key=lambda x: len(x[1]))

                def comes_back(frm):
                    seen, work = set(), [frm]
                    while work:
                        x = work.pop()
                        if x in seen or x not in blks:
                            continue
                        seen.add(x)
                        if x == c["site"].bb:
                            return True
                        work += pv.succs(x)
                    return False
                stores_on_stop = [s for s, s_ in pv.sites() if s.i is not None and s_["s"] == "assign" and s_["pl"]["p"] and isinstance(s_["pl"]["p"][-1], dict)
                                  and s_["pl"]["p"][-1].get("name") == "current_offset" and pv.dominates(t_t, s.bb) and s.bb in blks]
                okb = comes_back(f_t) and not comes_back(t_t) and not stores_on_stop
        ck.ob(R, "prev-scan-arm-actions", okb, "different key => remember this offset and go on; the current key => leave the loop with the offset before it", pv, c["site"])
    # --- no answer without a probe: every success exit of the three ReaderCursor seeks is dominated by the seek it
    # delegates to (an early `return Ok(None)` for a special-cased probe — the empty key — answers without looking,
    # seeded C04-23 / C02-22)
    for nm, callee in ((A("rc_prefix") + "move_on_key_lower_than_or_equal_to", A("rc_prefix") + "move_on_key_greater_than_or_equal_to"),
                       (A("rc_prefix") + "move_on_key_equal_to", A("rc_prefix") + "move_on_key_greater_than_or_equal_to"),
                       (A("rc_prefix") + "move_on_key_greater_than_or_equal_to", A("ibc_prefix") + "move_on_key_greater_than_or_equal_to")):
        fb = F.body(nm)
        pr = calls(fb, callee)
        oks = ok_return_sites(fb)
        okp = len(pr) >= 1 and bool(oks) and all(any(fb.dominates(p_[0], o_[0]) for p_ in pr) for o_ in oks)
        ck.ob(R, f"probe-before-answer/{nm.split('::')[-1]}", okp, f"every success exit of {nm.split('::')[-1]} follows its probe ({callee.split('::')[-2]}::{callee.split('::')[-1]})", fb)
    # exact table hit => that slot; miss => previous slot, none => None
    # --- BlockCursor >=-seek
    ge = F.body(A("bc_ge"))
    _eq_then(ck, R, F, ge, "BlockCursor>=", seek_call=A("bc_le"), probe="key", eq_false=A("bc_next"), none_action=A("bc_first"))
    # --- ReaderCursor <=-seek
    rle = F.body(A("rc_prefix") + "move_on_key_lower_than_or_equal_to")
    _eq_then(ck, R, F, rle, "ReaderCursor<=", seek_call=A("rc_prefix") + "move_on_key_greater_than_or_equal_to", probe="target_key", eq_false=A("rc_prefix") + "move_on_prev", none_action=A("rc_prefix") + "move_on_last")
    flt = [cm for cm in byte_comparisons(rle) if cm["op"] != "=="]
    for c in F.closures_of(rle.path):
        flt += [dict(cm, body=c) for cm in byte_comparisons(c)]
    ck.exact(R, "filter comparisons in ReaderCursor <=-seek", len(flt), 1, F.config)
    for cm in flt:
        bdy = cm.get("body", rle)
        op, st, pr, okp = _canon(cm, ["target_key"])
        last_calls = calls(rle, A("rc_prefix") + "move_on_last")
        from_last = len(last_calls) == 1 and (bdy is not rle or any(e.k == "call" and e.x.get("site") == last_calls[0][0] for e in st.walk()))
        key_part = st.strip().k == "field" and st.strip().x.get("idx") == 0      # the key of the (key, value) entry, not its value
        ck.ob(R, "last-entry-filter", op == "<=" and okp and from_last and key_part, f"no ceiling: the last entry is kept iff `stored key {op} probe`" + ("" if key_part else f" — compared: {st.show()[:60]}"), bdy, cm["site"])
    # --- ReaderCursor ==-seek
    req = F.body(A("rc_prefix") + "move_on_key_equal_to")
    cs = calls(req, A("rc_prefix") + "move_on_key_greater_than_or_equal_to")
    ck.exact(R, ">=-seek calls in ==-seek", len(cs), 1, F.config)
    if cs:
        ck.ob(R, "eq-seek-probe", is_arg(req.arg_exprs(cs[0][0])[1], "key"), "==-seek runs the >=-seek on the caller's key", req, cs[0][0])
    flt = [dict(cm, body=req) for cm in byte_comparisons(req)]
    for c in F.closures_of(req.path):
        flt += [dict(cm, body=c) for cm in byte_comparisons(c)]
    ck.exact(R, "filter comparisons in ==-seek", len(flt), 1, F.config)
    for cm in flt:
        op, st, pr, okp = _canon(cm, ["key"])
        ck.ob(R, "eq-filter", op == "==" and okp, f"the ceiling is kept iff `stored {op} probe`", cm["body"], cm["site"])
    # --- no comparison anywhere on the seek path uses lengths or sub-slices of keys
    for b in (le, ge, rle, req):
        for cm in byte_comparisons(b):
            sub = []
            for x in (cm["a"], cm["b"]):
                y = x.strip()
                # follow payload / tuple projections down to what the compared value is a part of
                while y.k in ("field", "downcast"):
                    y = y.a[0].strip()
                if y.k == "index" or (y.k == "call" and y.x["path"].rsplit("::", 1)[-1] in ("len", "get", "split_at", "first", "last", "index", "split_first", "split_last")):
                    sub.append(y)
            ck.ob(R, f"whole-key-comparison/{b.path.split('::')[-1]}", not sub, "keys are compared as whole byte strings (no length / sub-slice comparison)", b, cm["site"])


def _eq_then(ck, R, F, b, tag, seek_call, probe, eq_false, none_action):
    sk = calls(b, seek_call)
    ck.exact(R, f"inner seek calls in {tag}", len(sk), 1, F.config)
    if not sk:
        return
    ck.ob(R, f"inner-seek-probe/{tag}", is_arg(b.arg_exprs(sk[0][0])[1], probe), f"{tag}: inner seek on the caller's probe", b, sk[0][0])
    cmps = [c for c in byte_comparisons(b) if c["op"] == "=="]
    ck.exact(R, f"equality comparisons in {tag}", len(cmps), 1, F.config)
    if len(cmps) != 1:
        return
    c = cmps[0]
    op, st, pr, okp = _canon(c, [probe])
    from_seek = any(e.k == "call" and e.x.get("site") == sk[0][0] for e in st.walk())
    key_part = st.strip().k == "field" and st.strip().x["idx"] == 0
    ck.ob(R, f"match-relation/{tag}", op == "==" and okp and from_seek and key_part, f"{tag}: `stored {op} probe` on the key of the entry the inner seek returned", b, c["site"])
    ed = bool_edges(b, value_site=c["site"])
    if not ck.ob(R, f"match-branches/{tag}", ed is not None, f"{tag}: the equality steers a branch", b, c["site"]):
        return
    sw, t_t, f_t = ed
    fa = calls(b, eq_false)
    na = calls(b, none_action)
    ok_f = len(fa) == 1 and b.dominates(f_t, fa[0][0].bb) and not b.dominates(t_t, fa[0][0].bb)
    ck.ob(R, f"mismatch-action/{tag}", ok_f, f"{tag}: entry found but not equal => exactly one step with {eq_false.split('::')[-1]}", b, c["site"])
    # None arm of the inner seek result
    ok_n = False
    for bb in sorted(b.normal_blocks()):
        if b.term(bb)["t"] == "switch":
            e, enum, labels, oth = switch_on(b, bb)
            if e.k == "discr" and enum == "std::option::Option" and any(x.k == "call" and x.x.get("site") == sk[0][0] for x in e.walk()):
                if "None" in labels and len(na) == 1 and b.dominates(labels["None"], na[0][0].bb) and not b.dominates(labels.get("Some", -1), na[0][0].bb):
                    ok_n = True
    ck.ob(R, f"none-action/{tag}", ok_n, f"{tag}: inner seek found nothing => {none_action.split('::')[-1]}", b)
    # equal => the entry itself
    alts = [a for a in return_alts(b) if not is_err_path(a)]
    same = []
    for a in alts:
        x = a.a[0] if (a.k == "agg" and a.x.get("variant") == "Ok") else a
        if x.k == "agg" and x.x.get("variant") == "Some":
            tup = x.a[0]
            if any(e.k == "call" and e.x.get("site") == sk[0][0] for e in tup.walk()):
                same.append(a)
    ck.ob(R, f"match-action/{tag}", len(same) == 1, f"{tag}: equal => the entry the inner seek returned is returned unchanged", b)


def r4_offsets(ck, F, R="C02-R4"):
    b = F.body(A("bw_insert"))
    push = [s for s, c, t in calls(b, "Vec::<T, A>::push") if is_self_field(b.arg_exprs(s)[0], "index_offsets")]
    ck.exact(R, "offset-table pushes in BlockWriter::insert", len(push), 1, F.config)
    from .c18 import buffer_appends
    apps = buffer_appends(b)
    if push:
        s = push[0]
        v = strip_casts(b.arg_exprs(s)[1])
        ck.ob(R, "slot-is-entry-start", is_call(v, "Vec::<T, A>::len") and is_self_field(v.strip().a[0], "buffer"), f"pushed slot = {v.show()} (offset at which the entry about to be appended starts)", b, s)
        ck.ob(R, "slot-before-append", all(not (a.bb in b.reaches(s.bb) or (a.bb == s.bb and a.key() < s.key())) for a in apps) and all(s.bb in b.reaches(a.bb) or True for a in apps),
              "the slot is pushed before any byte of the entry is appended", b, s)
        # guarded by counter == interval, then counter := 0
        guard = None
        for site, st in b.sites():
            if site.i is not None and st["s"] == "assign" and st["rv"]["rv"] == "bin" and st["rv"]["op"] == "Eq":
                e = b._expr_of_def((site, "assign", st["rv"]))
                x, y = e.a
                if not is_self_field(x, "index_key_counter"):
                    x, y = y, x
                if is_self_field(x, "index_key_counter") and is_call(y, "NonZero::<T>::get") and is_self_field(y.strip().a[0], "index_key_interval"):
                    guard = site
        okg = False
        if guard is not None:
            ed = bool_edges(b, value_site=guard)
            okg = ed is not None and b.dominates(ed[1], s.bb) and not b.dominates(ed[2], s.bb)
        ck.ob(R, "slot-every-interval", okg, "a slot is pushed exactly when index_key_counter == index_key_interval", b, s)
        zero = [site for site, st in b.sites() if site.i is not None and st["s"] == "assign" and st["pl"]["p"] and isinstance(st["pl"]["p"][-1], dict) and st["pl"]["p"][-1].get("name") == "index_key_counter" and const_val(b._expr_of_def((site, "assign", st["rv"]))) == 0]
        ck.ob(R, "counter-reset-with-slot", len(zero) == 1 and b.dominates(s, zero[0]) and guard is not None and b.dominates(bool_edges(b, value_site=guard)[1], zero[0].bb), "the counter is reset to 0 together with the push", b, s)
    inc = []
    for site, st in b.sites():
        if site.i is not None and st["s"] == "assign" and st["pl"]["p"] and isinstance(st["pl"]["p"][-1], dict) and st["pl"]["p"][-1].get("name") == "index_key_counter":
            c = checked(b._expr_of_def((site, "assign", st["rv"])))
            if c and c[0] == "Add" and const_val(c[2]) == 1 and is_self_field(c[1], "index_key_counter"):
                inc.append(site)
    rets = [Site(r, None) for r in b.return_blocks()]
    ck.ob(R, "counter-increment", len(inc) == 1 and all(b.dominates(inc[0], r) for r in rets), "index_key_counter += 1 once per inserted entry on every path", b)
    # ... and *after* the interval test of the same insert: the test reads how many entries precede this one since the
    # last slot (incremented first, slots land on entries interval-1, 2*interval-1, .. and interval 1 records offset 0
    # twice — seeded C09-23)
    dab = b.debug_assert_blocks()
    tests = [site for site, st in b.sites() if site.i is not None and st["s"] == "assign" and st["rv"]["rv"] == "bin" and st["rv"]["op"] in ("Eq", "Ne", "Ge", "Gt", "Le", "Lt")
             and site.bb not in dab and not any(m in ("debug_assert", "debug_assert_eq", "debug_assert_ne") for m in (st.get("span") or {}).get("macros", []))
             and any(is_self_field(x, "index_key_counter") for x in b._expr_of_def((site, "assign", st["rv"])).a)]
    ck.ob(R, "counter-incremented-after-test", len(inc) == 1 and len(tests) >= 1 and all(b.dominates(t_, inc[0]) and t_.bb not in b.reachable_from(inc[0].bb) for t_ in tests),
          "the interval test precedes the increment (it counts the entries before this one)", b)
    # first slot is the constant 0 (builder and reset)
    bld = F.body(A("bw_builder_build"))
    e = agg_field_expr(bld, *[(s, rv) for bb, s, rv in aggregates(F, A("bw_struct")) if bb.path == bld.path][0], "index_offsets")
    arr = [st for site, st in bld.sites() if site.i is not None and st["s"] == "assign" and st["rv"]["rv"] == "agg" and st["rv"]["ak"] == "array" and "vec" in st["span"].get("macros", [])]
    ok0 = len(arr) == 1 and [const_int(o) for o in arr[0]["rv"]["ops"]] == [0] and is_call(e, "box_assume_init_into_vec_unsafe", "into_vec", "from_elem")
    ck.ob(R, "first-slot-zero", ok0, f"a new block's offset table is vec![0] (array literal {[const_int(o) for st in arr for o in st['rv']['ops']]} boxed into {e.show()[:60]})", bld)
    rs = F.body(A("bw_reset"))
    tr = [s for s, c, t in calls(rs, "Vec::<T, A>::truncate") if is_self_field(rs.arg_exprs(s)[0], "index_offsets")]
    ck.ob(R, "reset-keeps-first-slot", len(tr) == 1 and const_val(rs.arg_exprs(tr[0])[1]) == 1, "reset truncates the table to its first slot (0)", rs)
    # ... and restarts the interval counter: a counter carried over from the previous block pushes a second slot
    # before the first entry of the next one (table [0, 0, ..]: the backward step inside the block loops on it)
    zc = [const_val(rs._expr_of_def((site, "assign", st["rv"]))) for site, st in rs.sites()
          if site.i is not None and st["s"] == "assign" and st["pl"]["p"] and isinstance(st["pl"]["p"][-1], dict) and st["pl"]["p"][-1].get("name") == "index_key_counter"]
    ck.ob(R, "reset-restarts-interval-counter", zc == [0], f"reset sets index_key_counter to 0 (stores: {zc})", rs)
    # reader side: table rebuilt in order from the bytes before the count
    rf = F.body(A("block_read_from"))
    from .fmt import table_rebuild
    tr = table_rebuild(F)
    ck.exact(R, "table rebuilds in Block::read_from", 1 if tr else 0, 1, F.config)
    if tr:
        ok = tr["chunk"] is not None and const_val(tr["chunk"].a[1]) == 8 and not tr["reversed"] and any(cv[:2] == ("u64", "BE") and cv[2] == "read" for cv in tr["convs"]) and all(cv[1] == "BE" for cv in tr["convs"] if cv[0] == "u64")
        ck.ob(R, "reader-table-order", ok, f"Block::read_from rebuilds the table with chunks_exact(8) -> u64::from_be_bytes in stored order ({tr['form']} form)", rf, tr["site"])
    clr = [s for s, c, t in calls(rf, "Vec::<T, A>::clear") if is_self_field(rf.arg_exprs(s)[0], "index_offsets")]
    okc = len(clr) == 1 and tr is not None and rf.dominates(clr[0], tr["site"]) and not rf.in_loop(clr[0].bb)
    ck.ob(R, "reader-table-cleared", okc, "the table is cleared (once, outside any loop) before it is rebuilt", rf)
