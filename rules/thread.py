"""thread — jump threading on known `Result` / `Option` variants, applied to the MIR after helpers and closures
were spliced into their callers.

A helper that ends in `Ok(x)` on one path and in `Err(e)` / `?` on the others, once inlined, becomes a join of
those paths followed by the caller's own `match` / `?` on the result: a switch on the discriminant right after
the join.  Path-insensitively every inlined path seems to reach every arm of that switch (an error path of the
helper appears to "continue" in the caller).  This pass removes those infeasible edges: for every predecessor
path on which the variant of the switched value is known from its construction (an `Ok{..}` / `Err{..}` /
`Some{..}` / `None` aggregate, or the result of `from_residual`, which is always the residual variant), the
blocks between the join and the switch are duplicated for that path and the copy of the switch becomes a jump
to the one arm that can be taken.  Nothing else changes: the same statements and calls are executed on every
path that exists."""
import copy

MAXCHAIN = 8
VIDX = {"std::option::Option": {"None": 0, "Some": 1}, "std::result::Result": {"Ok": 0, "Err": 1},
        # a private accessor that rebuilds a `Bound<&T>` from a `&Bound<T>` variant by variant (what `Bound::as_ref` does),
        # matched on again by its caller
        "std::ops::Bound": {"Included": 0, "Excluded": 1, "Unbounded": 2}}


def _succs(t):
    out = []
    k = t.get("t")
    if k == "goto":
        out.append(t["target"])
    elif k == "switch":
        out += [tb for _, tb in t["arms"]] + [t["otherwise"]]
    elif k in ("drop", "assert", "call"):
        if t.get("target") is not None:
            out.append(t["target"])
    return out


def _preds(body):
    p = {i: [] for i in range(len(body["blocks"]))}
    for i, blk in enumerate(body["blocks"]):
        for s in _succs(blk["term"]):
            p[s].append(i)
    return p


def _variant_before(body, preds, bb, idx, local, depth=0, seen=None):
    """which variant `local` holds just before statement `idx` of block bb (idx = len(stmts) means: at the
    terminator) — ("try", "continue"|"break") for ControlFlow-like knowledge is not needed: returns
    ("Ok"|"Err"|"Some"|"None") or None"""
    if depth > 24:
        return None
    seen = seen or set()
    blk = body["blocks"][bb]
    for i in range(min(idx, len(blk["stmts"])) - 1, -1, -1):
        st = blk["stmts"][i]
        if st["s"] == "assign" and st["pl"]["l"] == local:
            if st["pl"]["p"]:
                return None
            rv = st["rv"]
            if rv["rv"] == "agg" and rv.get("ak") == "adt" and rv.get("adt") in VIDX:
                return rv.get("variant")
            if rv["rv"] == "use" and rv["op"].get("k") == "const" and rv["op"].get("ty") == "bool" and "int" in rv["op"]:
                return "true" if int(rv["op"]["int"]) else "false"
            if rv["rv"] == "use" and rv["op"].get("k") in ("move", "copy") and not rv["op"]["pl"]["p"]:
                return _variant_before(body, preds, bb, i, rv["op"]["pl"]["l"], depth + 1, seen)
            return None
        if st["s"] == "set_discr" and st["pl"]["l"] == local:
            return None
    # not assigned in this block before idx: every predecessor must agree
    if (bb, local) in seen:
        return None
    seen = seen | {(bb, local)}
    ps = preds.get(bb, [])
    if not ps:
        return None
    vals = set()
    for p in ps:
        t = body["blocks"][p]["term"]
        if t.get("t") == "call" and not t["dest"]["p"] and t["dest"]["l"] == local and t.get("target") == bb:
            f = t.get("func", {}).get("fn", {})
            path = f.get("path", "")
            if path.endswith("FromResidual::from_residual"):
                inst = f.get("inst", "") + " " + " ".join(f.get("args", []))
                vals.add("None" if "option::Option" in inst.split(" as ")[0] else "Err")
            else:
                return None
            continue
        vals.add(_variant_before(body, preds, p, len(body["blocks"][p]["stmts"]), local, depth + 1, seen))
    if len(vals) == 1 and None not in vals:
        return vals.pop()
    return None


def _switch_pattern(body, k):
    """block k = `d = discriminant(D); switchInt(d)` where D is a local Option/Result, or D = Try::branch(R) computed
    by the single predecessor: returns (kind, local whose variant decides, first block of the chain, arm map)"""
    blk = body["blocks"][k]
    t = blk["term"]
    if t.get("t") != "switch" or t["discr"].get("k") not in ("move", "copy") or t["discr"]["pl"]["p"]:
        return None
    d = t["discr"]["pl"]["l"]
    src = None
    assigned = False
    for st in reversed(blk["stmts"]):
        if st["s"] == "assign" and st["pl"]["l"] == d and not st["pl"]["p"]:
            assigned = True
            if st["rv"]["rv"] == "discr" and not st["rv"]["pl"]["p"]:
                src = st["rv"]["pl"]
            break
    if src is None:
        # `if flag` on a bool local that was materialised on the way here (`matches!`, `a && b`): decided per
        # predecessor by the constant it was given
        if not assigned and body["locals"][d]["ty"] == "bool":
            return d, "bool"
        return None
    return src["l"], src.get("ty", "")


def thread(raw, max_rounds=3):
    n = 0
    for body in raw["bodies"]:
        for _ in range(max_rounds):
            if not _thread_body(body):
                break
            n += 1
    return n


def _thread_body(body):
    preds = _preds(body)
    changed = False
    nblocks = len(body["blocks"])
    for k in range(nblocks):
        pat = _switch_pattern(body, k)
        if pat is None:
            continue
        D, dty = pat
        t = body["blocks"][k]["term"]
        # two shapes: D is an Option/Result itself; or D = Try::branch(R) from the single predecessor J
        chain = [k]
        decide = D
        mode = "direct"
        ps = preds.get(k, [])
        if len(ps) == 1:
            j = ps[0]
            tj = body["blocks"][j]["term"]
            if tj.get("t") == "call" and not tj["dest"]["p"] and tj["dest"]["l"] == D and tj.get("func", {}).get("fn", {}).get("path", "").endswith("Try::branch") \
                    and tj["args"] and tj["args"][0].get("k") in ("move", "copy") and not tj["args"][0]["pl"]["p"] and tj.get("target") == k:
                if any(st["s"] == "assign" and st["pl"]["l"] == D for st in body["blocks"][k]["stmts"][:-1] if st["rv"].get("rv") != "discr"):
                    continue
                chain = [j, k]
                decide = tj["args"][0]["pl"]["l"]
                mode = "try"
        arms = {int(v): tb for v, tb in t["arms"]}

        def target_for(variant):
            if variant in ("true", "false"):
                if dty != "bool":
                    return None
                v = 1 if variant == "true" else 0
            elif dty == "bool":
                return None
            elif mode == "try":
                v = {"Ok": 0, "Some": 0, "Err": 1, "None": 1}.get(variant)
            else:
                v = {"None": 0, "Some": 1, "Ok": 0, "Err": 1, "Included": 0, "Excluded": 1, "Unbounded": 2}.get(variant)
            if v is None:
                return None
            return arms.get(v, t["otherwise"])
        # extend the chain upwards through blocks with a single predecessor that do not decide the variant
        head = chain[0]
        guard = 0
        while guard < MAXCHAIN:
            guard += 1
            hp = preds.get(head, [])
            if len(hp) != 1:
                break
            p = hp[0]
            # stop if p defines the variant by itself (then the switch is simply constant: handled by the CFG pruning)
            if len(_succs(body["blocks"][p]["term"])) != 1 or p in chain:
                break
            chain.insert(0, p)
            head = p
        hp = list(preds.get(head, []))
        if len(hp) < 2:
            continue
        # the local that decides, as named at the top of the chain (follow moves inside the chain backwards)
        loc = decide
        ok_chain = True
        for b_ in reversed(chain):
            blk = body["blocks"][b_]
            stmts = blk["stmts"]
            for st in reversed(stmts):
                if st["s"] == "assign" and st["pl"]["l"] == loc and not st["pl"]["p"]:
                    rv = st["rv"]
                    if rv["rv"] == "use" and rv["op"].get("k") in ("move", "copy") and not rv["op"]["pl"]["p"]:
                        loc = rv["op"]["pl"]["l"]
                    elif rv["rv"] == "discr":
                        continue
                    else:
                        ok_chain = False
                    break
            if not ok_chain:
                break
            tt = blk["term"]
            if b_ != chain[-1] and tt.get("t") == "call" and not tt["dest"]["p"] and tt["dest"]["l"] == loc and b_ != chain[-2 if mode == "try" else -1]:
                ok_chain = False
                break
        if not ok_chain:
            continue
        done_any = False
        for p in hp:
            tp = body["blocks"][p]["term"]
            var = None
            if tp.get("t") == "call" and not tp["dest"]["p"] and tp["dest"]["l"] == loc and tp.get("target") == head:
                f = tp.get("func", {}).get("fn", {})
                if f.get("path", "").endswith("FromResidual::from_residual"):
                    inst = f.get("inst", "")
                    var = "None" if "option::Option" in inst.split(" as ")[0] else "Err"
            else:
                var = _variant_before(body, preds, p, len(body["blocks"][p]["stmts"]), loc)
            if var is None:
                continue
            tgt = target_for(var)
            if tgt is None:
                continue
            # duplicate the chain for this predecessor
            base = len(body["blocks"])
            newids = {b_: base + i for i, b_ in enumerate(chain)}
            for b_ in chain:
                nb = copy.deepcopy(body["blocks"][b_])
                tt = nb["term"]
                if b_ == chain[-1]:
                    nb["term"] = {"t": "goto", "target": tgt, "span": tt.get("span"), "threaded": var}
                else:
                    for key in ("target",):
                        if tt.get(key) in newids:
                            tt[key] = newids[tt[key]]
                body["blocks"].append(nb)
            # redirect p -> head to the copy
            for key in ("target", "otherwise"):
                if tp.get(key) == head:
                    tp[key] = newids[head]
            if tp.get("t") == "switch":
                tp["arms"] = [[v, (newids[head] if tb == head else tb)] for v, tb in tp["arms"]]
            done_any = True
        if done_any:
            changed = True
            preds = _preds(body)
    return changed
