"""C17 — no undefined behaviour in buffer management: in safe Rust UB can only originate in
`unsafe` operations, so the property reduces to (1) the unsafe perimeter is what we think it is
and (2) each operation in it meets its local obligation on every path."""
from .common import *
from .c08 import r2_threshold, r3_grow
from . import bufarith

PID = "C17"
META = {
    "explanation": "Static analysis of the unsafe perimeter (from HIR: every user `unsafe` block / fn / impl and the unsafe operations inside) and of each operation's local obligation on the MIR of the current tree: the perimeter is exactly the reviewed set of (function, unsafe callee) pairs — no user `unsafe impl`, raw-pointer deref, `static mut` or FFI; every lifetime-extending transmute sits in a `&mut self` method whose returned slices carry the region of `self` (never 'static) and originate from data reached through `self`; alloc and dealloc use Layout::from_size_align(S, align_of::<EntryBound>()) with S the very value stored in / read from `len`, the pointer is null-checked before the struct is built, data/len have no other writer, the buffer type is neither Clone nor Copy and Drop holds the only dealloc; allocation sizes are bounded below by positive constants; from_raw_parts(_mut) receive exactly (data, len) under &self / &mut self; align_to / cast_slice target the repr(C), padding-free, derive(Pod) EntryBound; crate-wide no arithmetic is performed on a freshly truncated integer. Compile-fail witnesses show borrowed entries cannot outlive the next &mut call on the public API. For the sorter's two-ended buffer the clause `arithmetic on sizes never overflows` IS decided (C17-R10): a linear-invariant analysis shows entries_len + 16*bounds_count <= buffer.len() is preserved by every mutator and gives a Farkas certificate of non-overflow for each of the 23 checked +,-,* sites of Entries; size arithmetic elsewhere (block decoding of untrusted files, writer offsets) is not claimed; soundness of std, bytemuck, byteorder and the codec crates is trusted. The shared file-wellformedness rules (rules/shared.py) are re-run: depth arithmetic on configuration values and the sink count that places every block the reader slices.",
    "assumptions": ["soundness of std, bytemuck, byteorder, codec crates", "a &[u8] over freshly allocated bytes that are written before being read is accepted (Miri accepts it)"],
}

# the reviewed unsafe perimeter: (enclosing function, unsafe callee) -> count
PERIMETER = {
    ("block::BlockCursor::<B>::move_on_key_greater_than_or_equal_to", "std::intrinsics::transmute"): 2,
    ("block_writer::DEFAULT_INDEX_KEY_INTERVAL", "std::num::NonZero::<T>::new_unchecked"): 1,
    ("reader::range_iter::RangeIter::<R>::next", "transmute_entry_to_static"): 1,
    ("reader::range_iter::RevRangeIter::<R>::next", "transmute_entry_to_static"): 1,
    ("reader::reader_cursor::ReaderCursor::<R>::move_on_next", "transmute_entry_to_static"): 1,
    ("reader::reader_cursor::ReaderCursor::<R>::move_on_prev", "transmute_entry_to_static"): 1,
    ("reader::reader_cursor::ReaderCursor::<R>::move_on_key_lower_than_or_equal_to", "transmute_entry_to_static"): 1,
    ("sorter::Entries::fits", "core::slice::<impl [T]>::align_to"): 1,
    ("sorter::EntryBoundAlignedBuffer::new", "std::alloc::alloc"): 1,
    ("<sorter::EntryBoundAlignedBuffer as std::ops::Deref>::deref", "std::slice::from_raw_parts"): 1,
    ("<sorter::EntryBoundAlignedBuffer as std::ops::DerefMut>::deref_mut", "std::slice::from_raw_parts_mut"): 1,
    ("<sorter::EntryBoundAlignedBuffer as std::ops::Drop>::drop", "std::alloc::dealloc"): 1,
    ("transmute_entry_to_static", "std::intrinsics::transmute"): 2,
}


def run(ck):
    for cfg in ck.configs(quick=("default", "all", "none"), thorough=("default", "all", "none", "rel")):
        F = ck.facts(cfg)
        ck.guard("C17-R1", r1_perimeter, ck, F)
        ck.guard("C17-R2", r2_lifetime, ck, F)
        ck.guard("C17-R4", r4_layout, ck, F)
        ck.guard("C17-R5", r5_nonzero, ck, F)
        ck.guard("C17-R6", r6_raw_parts, ck, F)
        ck.guard("C17-R7", r7_trunc, ck, F)
        ck.guard("C17-R8", r8_pod, ck, F)
        ck.guard("C17-R10", bufarith.run_rule, ck, F)
        from . import shared
        # arithmetic on configuration values before they size anything (depth + 1 in u8), and the sink whose count
        # places every block the reader will slice
        shared.file_wellformed(ck, F, "C17-R11")
    from . import fixtures, witness
    ck.guard("C17-R7", fixtures.run, ck, "C17")
    ck.guard("C17-R3", witness.run, ck, "C17")
    ck.trusted += ["rustc type and borrow checking", "std / bytemuck / byteorder / codec crates' own unsafe code", "GlobalAlloc contract"]


def unsafe_perimeter(F):
    u = F.unsafety
    ops = {}
    kinds = {}
    unsafe_fns = {f["path"] for f in u["unsafe_fns"]}
    for o in u["ops"]:
        if not o["in_unsafe_block"] and o["owner"] not in unsafe_fns:
            continue  # compiler-generated (format_args! internals)
        if o.get("callee", "").startswith("std::fmt::Arguments") or o.get("callee", "").startswith("core::fmt::"):
            continue
        key = (o["owner"], o.get("callee") or o["kind"])
        ops[key] = ops.get(key, 0) + 1
        kinds[o["kind"]] = kinds.get(o["kind"], 0) + 1
    user_impls = []
    for i in u["unsafe_impls"]:
        if i["derived"]:
            continue
        mac = i["span"].get("macros", [])
        if i["trait"] in ("bytemuck::Pod", "bytemuck::Zeroable") and any(m in ("Pod", "Zeroable") for m in mac):
            continue  # bytemuck's derive: checked for padding at compile time
        user_impls.append(i["trait_ref"])
    kinds["static_mut"] = kinds.get("static_mut", 0) + len(u["statics_mut"])
    return {"ops": ops, "kinds": kinds, "unsafe_impls": len(user_impls), "user_impls": user_impls, "unsafe_fns": sorted(unsafe_fns), "unsafe_traits": u["unsafe_traits"], "foreign": u["foreign_mods"], "blocks": len(u["blocks"])}


def r1_perimeter(ck, F):
    R = "C17-R1"
    p = unsafe_perimeter(F)
    ck.extra.setdefault("unsafe_perimeter", {})[F.config] = {f"{k[0]} -> {k[1]}": v for k, v in sorted(p["ops"].items())}
    # lifetime extensions (transmute_entry_to_static / a raw transmute outside the helper) are a *kind* with a
    # per-site discharging rule: C17-R2 is evaluated for every function that performs one, wherever it is, so
    # these do not have to stay inside the table of reviewed (function, callee) pairs
    def by_r2(k):
        return k[0] != A("transmute_entry") and (k[1] == A("transmute_entry") or k[1].endswith("intrinsics::transmute"))
    new = {k: v for k, v in p["ops"].items() if k not in PERIMETER and not by_r2(k)}
    gone = {k: v for k, v in PERIMETER.items() if k not in p["ops"]}
    more = {k: (v, PERIMETER[k]) for k, v in p["ops"].items() if k in PERIMETER and v > PERIMETER[k] and not by_r2(k)}
    for k, v in sorted(new.items()):
        ck.ob(R, f"unreviewed-unsafe-operation/{k[0]}/{k[1].rsplit('::', 1)[-1]}", False, f"unsafe operation {k[1]} in {k[0]} is outside the reviewed perimeter: there is no rule that discharges its obligation", config=F.config)
    for k, v in sorted(more.items()):
        ck.ob(R, f"more-unsafe-operations/{k[0]}/{k[1].rsplit('::', 1)[-1]}", False, f"{k[0]} now performs {v[0]} x {k[1]} (reviewed: {v[1]})", config=F.config)
    ck.ob(R, "perimeter-is-reviewed-set", not new and not more, f"{sum(p['ops'].values())} unsafe operations in {len(p['ops'])} (function, callee) pairs, all inside the reviewed perimeter" + (f"; no longer present: {sorted(gone)}" if gone else ""), config=F.config)
    ck.floor(R, "unsafe operations seen", sum(p["ops"].values()), 12, F.config)
    ck.ob(R, "no-user-unsafe-impl", p["unsafe_impls"] == 0, f"no hand-written `unsafe impl` ({p['user_impls']})", config=F.config)
    ck.ob(R, "no-raw-deref-static-mut-ffi", not p["kinds"].get("raw_deref") and not p["kinds"].get("static_mut") and not p["foreign"] and not p["kinds"].get("asm") and not p["unsafe_traits"], f"no raw-pointer deref, static mut, inline asm, unsafe trait or extern block (operation kinds: {p['kinds']})", config=F.config)
    ck.ob(R, "single-unsafe-fn", p["unsafe_fns"] == [A("transmute_entry")], f"unsafe fns: {p['unsafe_fns']}", config=F.config)
    # MIR cross-check: every transmute cast in user code is inside the perimeter functions
    tm = set()
    for b in F.user_bodies():
        for s, st in b.sites():
            if s.i is not None and st["s"] == "assign" and st["rv"]["rv"] == "cast" and st["rv"]["ck"].startswith("Transmute") and not b.span_at(s).get("macros"):
                tm.add(b.path)
    owners = {k[0] for k in PERIMETER if k[1].endswith("transmute")} | set(lifetime_owners(F))
    ck.ob(R, "mir-transmutes-inside-perimeter", tm <= owners, f"MIR transmutes occur in {sorted(tm)}", config=F.config)


def _receiver_root(e, depth=0):
    """roots an expression is reached through: follows field / payload / cast / call-receiver chains,
    unions over phi alternatives and aggregate operands; returns a set of names"""
    if depth > 80:
        return {"?deep"}
    e = e.strip()
    if e.k in ("field", "downcast", "index", "cast"):
        return _receiver_root(e.a[0], depth + 1)
    if e.k == "call":
        if not e.a:
            return set()
        rty = e.x.get("ty", "")
        if rty and "?" not in rty and "&" not in rty and "*" not in rty:
            # the call hands out an owned value (BinaryHeap::pop, Vec::remove, mem::take ..): what is
            # borrowed from it is borrowed from a local of this function, not from the receiver
            return {"owned:" + e.x["path"].rsplit("::", 1)[-1]}
        return _receiver_root(e.a[0], depth + 1)
    if e.k == "phi":
        out = set()
        for x in e.a:
            out |= _receiver_root(x, depth + 1)
        return out
    if e.k == "agg":
        out = set()
        for x in e.a:
            out |= _receiver_root(x, depth + 1)
        return out
    if e.k == "arg":
        return {e.x["name"]}
    if e.k in ("const", "fn"):
        return set()
    if e.k == "var":
        return {"var:" + e.x["name"]}
    return {e.k + ":" + e.show()[:40]}


def lifetime_owners(F):
    """every function of the current tree that extends a lifetime: calls transmute_entry_to_static or
    performs a raw transmute (the helper itself excepted)"""
    out = set()
    for k in unsafe_perimeter(F)["ops"]:
        if k[0] != A("transmute_entry") and (k[1] == A("transmute_entry") or k[1].endswith("intrinsics::transmute")):
            out.add(k[0])
    return sorted(out)


def sig_parts(sig):
    """`for<'a> fn(&'a mut T, U) -> V` -> (["&'a mut T", "U"], "V") keeping region names"""
    i = sig.index("fn(") + 3
    depth, j, parts, cur = 0, i, [], ""
    while j < len(sig):
        ch = sig[j]
        if ch in "(<[":
            depth += 1
        elif ch in ")>]":
            if depth == 0 and ch == ")":
                break
            if not (ch == ">" and sig[j - 1] == "-"):
                depth -= 1
        if ch == "," and depth == 0:
            parts.append(cur.strip())
            cur = ""
        else:
            cur += ch
        j += 1
    if cur.strip():
        parts.append(cur.strip())
    rest = sig[j + 1:]
    out = rest.split("->", 1)[1].strip() if "->" in rest else "()"
    return parts, out


def _erase_regions(ty):
    import re
    return re.sub(r"'\w+ ?", "", ty)


def r2_lifetime(ck, F):
    import re
    R = "C17-R2"
    owners = lifetime_owners(F)
    n = 0
    for p in owners:
        if not F.has_body(p) or p not in F.fns:
            ck.ob(R, f"owner-present/{p}", False, f"{p} not found", config=F.config, nontrivial=False)
            continue
        b = F.body(p)
        f = F.fns[p]
        n += 1
        ins, out = sig_parts(f["sig"])
        # what is transmuted originates from data reached through one exclusively borrowed parameter
        srcs = []
        for s, c, t in calls(b, A("transmute_entry")):
            srcs += b.arg_exprs(s)
        for s, st in b.sites():
            if s.i is not None and st["s"] == "assign" and st["rv"]["rv"] == "cast" and st["rv"]["ck"].startswith("Transmute") and not b.span_at(s).get("macros"):
                srcs.append(b.expr_of_operand(st["rv"]["op"], s))
                frm = st["rv"]["op"].get("pl", {}).get("ty") or st["rv"]["op"].get("ty", "?")
                ck.ob(R, f"transmute-changes-lifetime-only/{p}", _erase_regions(frm) == _erase_regions(st["rv"]["to"]), f"transmute::<{frm}, {st['rv']['to']}> changes nothing but the region", b, s)
        roots = sorted(set().union(*[_receiver_root(x) for x in srcs])) if srcs else []
        recv = None
        for i, ty in enumerate(ins):
            m = re.match(r"^&('(\w+) )?mut ", ty)
            if m and roots == [b.arg_name(i + 1)]:
                recv = (i, b.arg_name(i + 1), m.group(2))
        ck.ob(R, f"takes-mut-self/{p}", recv is not None, f"{p.split('::')[-1]} reaches the extended references through {roots}, which must be one `&mut` parameter ({ins}): the returned borrow keeps that cursor exclusively borrowed", b)
        ck.ob(R, f"no-static-in-signature/{p}", "'static" not in out, f"return type `{out[:90]}` carries the region of the receiver, not 'static", b)
        if recv is not None:
            regs = set(re.findall(r"'(\w+)", out))
            ck.ob(R, f"returned-borrow-tied-to-receiver/{p}", regs <= {recv[2]} and bool(regs), f"every region of the return type ({sorted(regs)}) is the region of `&'{recv[2]} mut {recv[1]}`", b)
        ck.ob(R, f"extended-borrow-comes-from-self/{p}", len(roots) == 1 and len(srcs) >= 2, f"the references whose lifetime is extended are reached through {roots} (must be the exclusively borrowed receiver only: not a local that dies at return)", b)
    ck.floor(R, "lifetime-extending functions", n, 3, F.config)   # 6 on the pinned tree; twins may share one helper
    te = F.fns.get(A("transmute_entry"))
    ck.ob(R, "helper-private", te is not None and not te["pub"] and te["unsafe"], f"transmute_entry_to_static is `unsafe fn`, visibility {te['vis'] if te else '?'}", config=F.config)


def r4_layout(ck, F):
    R = "C17-R4"
    nb = F.body(A("aligned_new"))
    al = calls(nb, "alloc::alloc")
    lay = calls(nb, "Layout::from_size_align")
    ck.exact(R, "alloc sites in EntryBoundAlignedBuffer::new", len(al), 1, F.config)
    ag = [(s, rv) for b, s, rv in aggregates(F, A("aligned_buffer")) if b.path == nb.path]
    ck.exact(R, "constructions of EntryBoundAlignedBuffer", len(aggregates(F, A("aligned_buffer"))), 1, F.config)
    eb_align = F.adts[A("entry_bound")].get("align")
    fields = {f["name"]: f["ty"] for f in F.adts[A("aligned_buffer")]["variants"][0]["fields"]}
    mode = "len" if fields.get("len") == "usize" else ("layout" if any(t.endswith("alloc::Layout") for t in fields.values()) else None)
    lay_field = next((n for n, t in fields.items() if t.endswith("alloc::Layout")), None)
    ck.ob(R, "buffer-representation", mode is not None, f"EntryBoundAlignedBuffer keeps its size as {'`len: usize`' if mode == 'len' else ('the allocation `Layout` itself' if mode == 'layout' else 'an unrecognised set of fields ' + str(fields))}", config=F.config, nontrivial=False)
    if al and lay and ag and mode:
        la = nb.arg_exprs(lay[0][0])
        size_e, align_e = la[0], la[1]
        s, rv = ag[0]
        data_e = agg_field_expr(nb, s, rv, "data")
        a0 = nb.arg_exprs(al[0][0])[0]
        if mode == "len":
            len_e = agg_field_expr(nb, s, rv, "len")
            ck.ob(R, "alloc-size-is-stored-len", size_e.ident() == len_e.ident() and size_e.show() == len_e.show(), f"alloc layout size = {size_e.show()} ; stored len = {len_e.show()}", nb, al[0][0])
        else:
            lay_e = agg_field_expr(nb, s, rv, lay_field)
            ck.ob(R, "alloc-size-is-stored-len", lay_e.strip().ident() == a0.strip().ident(), f"the Layout handed to alloc is the Layout stored in the buffer ({lay_e.show()[:70]})", nb, al[0][0])
        ck.ob(R, "alloc-align", const_val(align_e) == eb_align, f"alloc alignment = {align_e.show()} = align_of::<EntryBound>() = {eb_align}", nb, lay[0][0])
        # alloc receives exactly the layout built by that from_size_align, and a failed from_size_align never reaches alloc
        uses = [x for x in a0.walk() if x.k == "call" and x.x.get("site") == lay[0][0]]
        st0 = a0.strip()
        via_unwrap = is_call(a0, "Result::<T, E>::unwrap") and st0.a[0].strip().x.get("site") == lay[0][0]
        via_payload = False
        if not via_unwrap and st0.k == "call" and st0.x.get("site") == lay[0][0]:
            # the Ok payload of the construction (through `?`, .ok(), and_then, let-else): alloc must not be
            # reachable from the construction's Err arm
            for bb in sorted(nb.normal_blocks()):
                if nb.term(bb)["t"] == "switch" and nb.dominates(bb, al[0][0].bb):
                    e, enum, labels, oth = switch_on(nb, bb)
                    if e.k == "discr" and e.a[0].strip().k == "call" and e.a[0].strip().x.get("site") == lay[0][0] and "Err" in labels:
                        via_payload = al[0][0].bb not in (nb.reachable_from(labels["Err"]) | {labels["Err"]})
        ck.ob(R, "alloc-uses-that-layout", via_unwrap or via_payload, "alloc receives the Layout built by Layout::from_size_align(size, align); a size the Layout type refuses never reaches alloc (unwrap / diverging else-branch)", nb, al[0][0])
        nn = calls(nb, "NonNull::<T>::new")
        ok = len(nn) == 1 and nb.arg_exprs(nn[0][0])[0].strip().x.get("site") == al[0][0]
        pay = unwrap_payload(data_e, "Some")
        ok = ok and pay is not None and pay.strip().x.get("site") == nn[0][0]
        # the None arm diverges
        okn = False
        for bb in sorted(nb.normal_blocks()):
            if nb.term(bb)["t"] == "switch":
                e, enum, labels, oth = switch_on(nb, bb)
                if e.k == "discr" and nn and e.a[0].strip().x.get("site") == nn[0][0] and "None" in labels:
                    okn = diverges(nb, labels["None"]) and nb.dominates(labels["Some"], s.bb)
        ck.ob(R, "null-checked-before-use", ok and okn, "data = NonNull::new(alloc(..)) with a diverging else-branch, before the struct is built", nb)
        # C17-R9: the size handed to alloc can never wrap (also without overflow checks): every arithmetic
        # node of its expression is constant, overflow-free by construction, or a checked_* call whose
        # None arm diverges
        bad = _wrapping_arith(nb, size_e)
        sz = F.adts[A("entry_bound")].get("size")
        rounded = [x for x in size_e.walk() if x.k == "call" and x.x["path"].rsplit("::", 1)[-1] in ("checked_next_multiple_of", "next_multiple_of", "div_ceil")]
        def _from_size(x):
            x = x.strip()
            if is_arg(x, "size"):
                return True
            return x.k == "call" and x.x["path"].rsplit("::", 1)[-1] == "max" and any(is_arg(y, "size") for y in x.a) and all(is_arg(y, "size") or (const_val(y) or 0) > 0 for y in x.a)
        okm = bool(rounded) and any(const_val(x.a[1]) == sz and _from_size(x.a[0]) for x in rounded)
        ck.ob("C17-R9", "alloc-size-cannot-wrap", not bad, f"allocation size = {size_e.show()[:90]}: no arithmetic in it can wrap" + (f" — may wrap when overflow checks are off: {bad} (a wrapped size of 0 makes `alloc` undefined behaviour)" if bad else ""), nb, al[0][0])
        ck.ob("C17-R9", "size-rounded-up-to-bound-multiple", okm, f"the requested size is rounded up to a multiple of size_of::<EntryBound>() = {sz}", nb)
    dr = F.body("<sorter::EntryBoundAlignedBuffer as std::ops::Drop>::drop")
    de = calls(dr, "alloc::dealloc")
    dl = calls(dr, "Layout::from_size_align")
    ok = len(de) == 1
    if ok:
        a = dr.arg_exprs(de[0][0])
        okp = is_call(a[0], "NonNull::<T>::as_ptr") and is_self_field(a[0].strip().a[0], "data")
        if mode == "len":
            ok = len(dl) == 1
            if ok:
                la = dr.arg_exprs(dl[0][0])
                ok = okp and is_self_field(la[0], "len") and const_val(la[1]) == eb_align and is_call(a[1], "Result::<T, E>::unwrap") and a[1].strip().a[0].strip().x.get("site") == dl[0][0]
        elif mode == "layout":
            ok = okp and is_self_field(a[1], lay_field) and not dl
        else:
            ok = False
    ck.ob(R, "dealloc-matches-alloc", ok, "dealloc(self.data, <the layout of the allocation>): recomputed from the stored len with the same alignment, or the stored Layout itself", dr)
    others = sorted({b.path for b in F.user_bodies() for s, c, t in b.calls() if callee_name(c) in ("std::alloc::dealloc", "std::alloc::realloc", "std::alloc::alloc_zeroed") or (callee_name(c) == "std::alloc::alloc" and b.path != nb.path)} - {dr.path})
    ck.ob(R, "only-drop-deallocates", not others, f"no other alloc/realloc/dealloc site ({others})", config=F.config)
    st = field_stores(F, A("aligned_buffer"), "data") + field_stores(F, A("aligned_buffer"), "len") + (field_stores(F, A("aligned_buffer"), lay_field) if lay_field else [])
    ck.exact(R, "stores to data/len after construction", len(st), 0, F.config)
    impls = sorted(i["trait"] for i in F.impls if i.get("self_adt") == A("aligned_buffer") and i.get("trait"))
    ck.ob(R, "not-clone-not-copy", "std::clone::Clone" not in impls and "std::marker::Copy" not in impls and "std::ops::Drop" in impls, f"EntryBoundAlignedBuffer implements {impls} (a Clone/Copy would double-free)", config=F.config)
    pubs = [f["name"] for f in F.adts[A("aligned_buffer")]["variants"][0]["fields"] if f["pub"]]
    ck.ob(R, "fields-private", not pubs and not F.adts[A("aligned_buffer")]["pub"], "data/len are private to sorter.rs", config=F.config, nontrivial=False)


CHECKED_OK = {"checked_next_multiple_of", "checked_mul", "checked_add", "checked_sub", "checked_shl", "checked_pow"}
NO_OVERFLOW_CALLS = {"div_ceil", "min", "max", "len", "size_of", "align_of", "get", "isqrt", "saturating_sub", "saturating_add", "saturating_mul"}


def _wrapping_arith(b, e):
    """arithmetic nodes in expression e that can wrap in a build without overflow checks"""
    bad = []
    for x in e.walk():
        if x.k == "bin":
            op = x.x["op"].replace("WithOverflow", "")
            if op in ("Add", "Mul", "Shl", "Sub"):
                from .fmt import fold
                if fold(x) is not None:
                    continue
                # len-of-a-live-allocation * small constant cannot exceed usize::MAX (len <= isize::MAX)
                ks = [fold(y) for y in x.a]
                other = [y for y in x.a if fold(y) is None]
                if op == "Mul" and any(k is not None and 0 <= k <= 2 for k in ks) and len(other) == 1 and is_call(other[0], "::len"):
                    continue
                bad.append(f"{op} in `{x.show()[:60]}`")
        elif x.k == "call":
            last = x.x["path"].rsplit("::", 1)[-1]
            if last in ("next_multiple_of", "pow", "wrapping_mul", "wrapping_add", "unchecked_mul", "unchecked_add", "next_power_of_two"):
                bad.append(f"{last}()")
            elif last in CHECKED_OK:
                # the None arm must diverge
                site = x.x.get("site")
                okd = False
                for bb in sorted(b.normal_blocks()):
                    if b.term(bb)["t"] == "switch":
                        ex, enum, labels, oth = switch_on(b, bb)
                        if ex.k == "discr" and ex.a[0].strip().x.get("site") == site and "None" in labels:
                            okd = diverges(b, labels["None"])
                ok_unwrap = False
                for y in e.walk():
                    if y.k == "call" and y.x["path"].rsplit("::", 1)[-1] in ("unwrap", "expect") and y.a and y.a[0].strip().x.get("site") == site:
                        ok_unwrap = True
                if not (okd or ok_unwrap):
                    bad.append(f"{last}() whose None case does not diverge")
    return bad


def r5_nonzero(ck, F):
    R = "C17-R5"
    callers = {}
    for b in F.user_bodies():
        for s, c, t in calls(b, A("aligned_new")):
            callers[b.path] = b.arg_exprs(s)[0]
    ck.ob(R, "allocation-callers", sorted(callers) == sorted([A("entries_with_cap"), A("entries_realloc")]), f"EntryBoundAlignedBuffer::new is called from {sorted(callers)}", config=F.config)
    for p, e in sorted(callers.items()):
        bad = _wrapping_arith(F.body(p), e)
        ck.ob("C17-R9", f"requested-size-cannot-wrap/{p.split('::')[-1]}", not bad, f"{p.split('::')[-1]} requests {e.show()[:70]} bytes" + (f" — may wrap: {bad}" if bad else " (no wrapping arithmetic)"), F.body(p))
    r2_threshold(ck, F, R)   # capacity = INITIAL (>0) or dump_threshold >= MIN_SORTER_MEMORY (>0)
    r3_grow(ck, F, R)        # or twice the length of an existing buffer
    wc = sorted({b.path for b in F.user_bodies() for s, c, t in calls(b, A("entries_with_cap"))})
    ck.ob(R, "with-capacity-callers", wc == [A("sorter_build")], f"Entries::with_capacity is called only from {wc}", config=F.config)
    ck.ob(R, "positive-lower-bounds", F.const_int("sorter::INITIAL_SORTER_VEC_SIZE") > 0 and F.const_int("sorter::MIN_SORTER_MEMORY") > 0 and F.const_int("sorter::DEFAULT_SORTER_MEMORY") > 0, "every size reaching alloc is bounded below by a positive constant (alloc with size 0 is UB)", config=F.config)


def r6_raw_parts(ck, F):
    R = "C17-R6"
    for p, fn, recv in (("<sorter::EntryBoundAlignedBuffer as std::ops::Deref>::deref", "slice::from_raw_parts", "&"), ("<sorter::EntryBoundAlignedBuffer as std::ops::DerefMut>::deref_mut", "slice::from_raw_parts_mut", "&mut")):
        b = F.body(p)
        cs = calls(b, fn)
        ok = len(cs) == 1
        if ok:
            a = b.arg_exprs(cs[0][0])
            ptr = strip_casts(a[0])
            ln = a[1].strip()
            ok_len = is_self_field(a[1], "len") or (ln.k == "call" and ln.x["path"].endswith("Layout::size") and ln.a and ln.a[0].strip().k == "field" and ln.a[0].strip().x.get("ty", "").endswith("alloc::Layout") and ln.a[0].strip().a[0].strip().k == "arg")
            ok = is_call(ptr, "NonNull::<T>::as_ptr") and is_self_field(ptr.strip().a[0], "data") and ok_len
            elem = [x for x in callee_of(b.at(cs[0][0]))["args"] if not x.startswith("'")]
            ok = ok and elem == ["u8"]
        f = F.fns[p]
        okr = f["inputs"][0].startswith("&mut") if recv == "&mut" else (f["inputs"][0].startswith("&") and not f["inputs"][0].startswith("&mut"))
        ck.ob(R, f"raw-parts/{p.split('::')[-1]}", ok and okr, f"{fn}(self.data.as_ptr(), self.len) over u8, receiver {f['inputs'][0][:40]}", b)


INT_BITS = {"u8": 8, "i8": 8, "u16": 16, "i16": 16, "u32": 32, "i32": 32, "u64": 64, "i64": 64, "usize": 64, "isize": 64, "u128": 128, "i128": 128}


def trunc_arith(b):
    """arithmetic whose operand is a freshly truncated integer (narrowing `as`)"""
    out = []
    for s, st in b.sites():
        if s.i is None or st["s"] != "assign" or st["rv"]["rv"] != "bin":
            continue
        op = st["rv"]["op"].replace("WithOverflow", "").replace("Unchecked", "")
        if op not in ("Add", "Sub", "Mul"):
            continue
        for o in (st["rv"]["a"], st["rv"]["b"]):
            e = b.expr_of_operand(o, s)
            x = e
            while x.k in ("ref", "deref"):
                x = x.a[0]
            if x.k == "cast" and x.x["ck"].startswith("IntToInt"):
                f, t = INT_BITS.get(x.x["frm"]), INT_BITS.get(x.x["to"])
                if f and t and t < f:
                    out.append((s, op, x))
    return out


def _trunc_exceptions(F):
    """one named exception, valid only while its reason is re-established on the current tree:
    varint_length_packed computes `i as u32 + 1` with i < data.len(); its only caller hands it a
    window of at most 5 bytes (the same fact C14-R2 `decode-window` checks)"""
    from . import varint
    callers = sorted({b.path for b in F.user_bodies() for s, c, t in calls(b, A("varint_length"))})
    dec, notes = varint.decode_table(F)
    f = F.fns.get(A("varint_length"))
    if callers == [A("varint_decode")] and dec is not None and dec.get("window") is not None and dec["window"] <= 5:
        return {A("varint_length")}
    return set()


def _decode_loop_index(F):
    """the loop form of varint_decode32 (rules/varint.py::_decode_loop_idiom) computes `7 * (i as u32)` where i is
    the enumerate() index over data[..len]; len is what the scanner returned for a window of at most 5 bytes and
    the scanner returns a position + 1 inside its argument or 0 (C14-R2 scanner-shape): i < 5.  Returns the
    identity of that index expression, or None when this is not established on the current tree"""
    from . import varint
    dec, notes = varint.decode_table(F)
    if dec is None or not dec.get("_loop_index") or dec.get("window") is None or dec["window"] > 5:
        return None
    scan = varint.length_scanner(F)
    if scan.get("returns") != ["counter+1", "zero"] or not scan.get("counter_incremented_by_one_in_loop"):
        return None
    return dec["_loop_index"]


def r7_trunc(ck, F):
    R = "C17-R7"
    hits = []
    exc = _trunc_exceptions(F)
    loop_index = _decode_loop_index(F)
    for b in F.user_bodies():
        for s, op, x in trunc_arith(b):
            if b.path in exc:
                ck.ob(R, f"bounded-by-caller/{b.path}", True, f"`{x.show()[:60]}` + 1: the counter is < data.len() and the only caller passes a window of at most 5 bytes (re-checked on this tree)", b, s)
                continue
            if b.path == A("varint_decode") and loop_index and x.a[0].ident() == loop_index and op == "Mul":
                ck.ob(R, f"bounded-by-loop/{b.path}", True, f"7 * `{x.show()[-40:]}`: the enumerate() index runs over data[..len] with len <= 5 (scanner over a window of at most 5 bytes; re-checked on this tree)", b, s)
                continue
            hits.append((b, s, op, x))
            ck.ob(R, f"arith-on-truncated/{b.path}", False, f"`{x.show()}` is narrowed ({x.x['frm']} -> {x.x['to']}) and then used in {op}: the cast admits values the arithmetic cannot represent (src: {b.src_at(s)[:60]})", b, s)
    ck.ob(R, "no-arithmetic-on-truncated-values", not hits, "no integer is narrowed with `as` and then used in +, - or * (subtract / add before narrowing)", config=F.config)
    # narrowing casts inventory (evidence)
    n = 0
    for b in F.user_bodies():
        for s, st in b.sites():
            if s.i is not None and st["s"] == "assign" and st["rv"]["rv"] == "cast" and st["rv"]["ck"].startswith("IntToInt"):
                f, t = INT_BITS.get(st["rv"]["from"]), INT_BITS.get(st["rv"]["to"])
                if f and t and t < f:
                    n += 1
    ck.floor(R, "narrowing casts inspected", n, 5, F.config)   # 20+ on the pinned tree, most of them in the unrolled varint encoder


def r8_pod(ck, F):
    R = "C17-R8"
    eb = F.adts[A("entry_bound")]
    fields = [(f["name"], f["ty"]) for f in eb["variants"][0]["fields"]]
    sizes = {"usize": 8, "u32": 4, "u64": 8, "u16": 2, "u8": 1, "isize": 8, "i32": 4, "i64": 8}
    tot = sum(sizes.get(t, 10**6) for n, t in fields)
    ck.ob(R, "entry-bound-layout", eb["repr_c"] and tot == eb.get("size") and eb.get("size", 1) % eb.get("align", 3) == 0, f"EntryBound is repr(C) with fields {fields}: sizes sum to {tot} = size_of = {eb.get('size')} (no padding), align {eb.get('align')}", config=F.config)
    traits = sorted(i["trait"] for i in F.impls if i.get("self_adt") == A("entry_bound") and i.get("trait"))
    ck.ob(R, "entry-bound-is-pod", "bytemuck::Pod" in traits and "bytemuck::Zeroable" in traits and "std::marker::Copy" in traits, f"EntryBound implements {traits}", config=F.config)
    n = 0
    for b in F.user_bodies():
        for s, c, t in b.calls():
            nme = callee_name(c)
            if nme in ("bytemuck::cast_slice", "bytemuck::cast_slice_mut") or nme.endswith("<impl [T]>::align_to"):
                n += 1
                tgt = c["args"][-1]
                src = c["args"][0]
                ck.ob(R, f"cast-target/{b.path}/{nme.rsplit('::', 1)[-1]}", tgt == A("entry_bound") and src == "u8", f"{nme}::<{', '.join(c['args'])}> reinterprets bytes as EntryBound only", b, s)
    ck.floor(R, "byte<->EntryBound reinterpretations", n, 3, F.config)
