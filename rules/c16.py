"""C16 — I/O per cursor operation is bounded by index depth: a symbolic cost analysis (maximum
number of block loads per call as a polynomial a*D + b in D = index_levels + 1) over the call
graph, with loops accepted only in recognised D-bounded forms."""
from .common import *
from .c03 import r7_seek_load, return_alts, is_err_path
from .c13 import closure_of

PID = "C16"
META = {
    "explanation": "Static cost analysis on the MIR of the current tree: block loads are exactly the calls to Block::new (8 sites, all in reader_cursor.rs); Block and BlockCursor hold no reader, so in-block work is memory-only; the closure of Reader::new reaches no load. For every cursor function the maximum number of loads on any path is computed as a*D + b (D = index_levels + 1): longest path over the loop-collapsed CFG, a loop or recursion whose body can reach a load is accepted only in one of three recognised D-bounded forms (iteration over the per-level vector, `0..index_levels+1`, self-recursion on the strictly shorter head of split_last_mut) and multiplies its body's cost by D; anything else is a finding. One typestate bit is tracked — whether the per-level cache is already initialised — established where a seek's Some result is matched, so that `floor seek = ceiling seek + one step back` is costed as (D+1) + (D+1). The maximum over the public cursor operations must be <= 2(D+1) = 2(index_levels+2). Bytes per block (C15) and wall time are not decided.",
    "assumptions": ["Vec/slice iteration visits each element once", "the per-level vector has exactly D elements (constructed only by initial_index_blocks' 0..D loop)"],
}


def run(ck):
    for cfg in ck.configs():
        F = ck.facts(cfg)
        ck.guard("C16-R1", r1_open_cost, ck, F)
        ck.guard("C16-R2", r2_load_sites, ck, F)
        ck.guard("C16-R3", r34_cost, ck, F)
        ck.guard("C16-R5", r7_seek_load, ck, F, "C16-R5")
    from . import fixtures
    ck.guard("C16-R3", fixtures.run, ck, "C16")
    ck.trusted += ["rustc MIR construction", "std Vec / slice iteration"]


def r1_open_cost(ck, F):
    R = "C16-R1"
    bodies, ext, rec = closure_of(F, A("reader_new"))
    loads = [n for n in list(bodies) + list(ext) if n.endswith(A("block_new")) or n.endswith(A("block_read_from")) or n.endswith(A("decompress"))]
    ck.ob(R, "open-reaches-no-load", not loads, f"the closure of Reader::new ({len(bodies)} bodies) reaches no block load", config=F.config)
    from . import fmt
    b = F.body(A("meta_read"))
    ios = fmt.io_calls(b)
    seeks = [x for x in ios if x[1] == "seek"]
    reads = [x for x in ios if x[1] == "read"]
    # per format version (the body specialised to each accepted magic): two seeks and fixed-width reads of the
    # magic plus that version's record — however the two versions share their code
    tr = fmt.trailer_read(F)
    per = {}
    for ver, size in (("FormatV1", 17), ("FormatV2", 18)):
        a_ = tr.get(ver, {})
        seq = [tuple(x) for x in a_.get("seq", [])]
        per[ver] = (sum(1 for x in seq if x == ("seek",)) + 1, 4 + sum(x[0] for x in seq if x != ("seek",)))
    okv = per.get("FormatV1") == (2, 21) and per.get("FormatV2") == (2, 22)
    ck.ob(R, "open-io-is-trailer-only", okv and not [x for x in ios if x[1] not in ("seek", "read")] and not b.loops(),
          f"Metadata::read_from: (seeks, bytes read) per version = {per} (expected 2 seeks and 4 + 17 | 18 bytes), no other I/O, no loop", b)
    for name in ("into_cursor", "into_prefix_iter", "into_rev_prefix_iter", "into_range_iter", "into_rev_range_iter"):
        bd, ex, _ = closure_of(F, "reader::Reader::<R>::" + name)
        io = [n for n in ex if n.startswith("std::io::") or n.startswith("byteorder::")]
        ld = [n for n in list(bd) + list(ex) if n.endswith(A("block_new"))]
        ck.ob(R, f"no-io/{name}", not io and not ld, f"Reader::{name} performs no I/O", config=F.config, nontrivial=False)


def r2_load_sites(ck, F):
    R = "C16-R2"
    sites = []
    for b in F.user_bodies():
        for s, c, t in calls(b, A("block_new")):
            sites.append((b, s))
    ck.exact(R, "Block::new call sites", len(sites), 8, F.config)
    from .fmt import module_of
    files = sorted({module_of(b.path) for b, s in sites})
    ck.ob(R, "loads-only-in-reader-cursor", files == ["reader::reader_cursor"], f"block loads occur only in module(s) {files}", config=F.config)
    rf = sorted({b.path for b in F.user_bodies() for s, c, t in calls(b, A("block_read_from"))})
    ck.ob(R, "read_from-only-via-new", rf == [A("block_new")], f"Block::read_from is called only from {rf}", config=F.config)
    for adt in (A("block_struct"), A("block_cursor")):
        bad = [f["name"] for f in F.adts[adt]["variants"][0]["fields"] if any(x in f["ty"] for x in ("Read", "File", "Cursor<", "dyn ")) or (adt == A("block_struct") and f["flags"]["params"])]
        ck.ob(R, f"no-reader-inside/{adt.split('::')[-1]}", not bad, f"{adt} holds no reader — in-block scans are memory-only", config=F.config)
    io = []
    for b in F.user_bodies():
        if b.path.startswith("block::BlockCursor") or (b.path.startswith("block::Block::") and b.path not in (A("block_new"), A("block_read_from"))):
            for s, c, t in b.calls():
                n = callee_name(c)
                if n.startswith("std::io::") or n.startswith("byteorder::"):
                    io.append((b.path, n))
    ck.ob(R, "block-cursor-does-no-io", not io, f"BlockCursor / Block accessors perform no I/O ({io})", config=F.config)


# ---------------------------------------------------------------------------------------
# cost polynomials a*D + b as tuples (a, b)
ZERO = (0, 0)


def padd(x, y):
    return (x[0] + y[0], x[1] + y[1])


def pmax(x, y):
    return (max(x[0], y[0]), max(x[1], y[1]))


def pmulD(x):
    if x[0] != 0:
        return None  # would be quadratic
    return (x[1], 0)


def pstr(x):
    if x is None:
        return "unbounded"
    a, b = x
    return (f"{a}D" if a else "") + (("+" if a and b else "") + (str(b) if b or not a else ""))


def loops_reaching(F, b, is_costly):
    """natural loops of b whose body contains a call satisfying is_costly(callee)"""
    out = []
    for h, blks in b.loops():
        hit = [s for s, c, t in b.calls() if s.bb in blks and c is not None and is_costly(c)]
        if hit:
            out.append((h, blks, hit))
    return out


class Cost:
    def __init__(self, F, ck, R):
        self.F = F
        self.ck = ck
        self.R = R
        self.memo = {}
        self.stack = []
        self.findings = []
        self.warming = {A("rc_prefix") + x for x in ("move_on_first", "move_on_last", "move_on_key_greater_than_or_equal_to", "move_on_key_lower_than_or_equal_to", "move_on_key_equal_to", "move_on_next", "move_on_prev")}
        self.warming |= {A("ibc_prefix") + x for x in ("move_on_first", "move_on_last", "move_on_key_greater_than_or_equal_to", "move_on_next", "move_on_prev")}
        self.warming |= {A("ibc_iter"), A("ibc_recursive_outer")}

    def callee_cost(self, c, warm):
        n = callee_name(c)
        if n.endswith(A("block_new")):
            return (0, 1)
        if c.get("resolved_local", c["local"]) and self.F.has_body(n):
            return self.cost(n, warm)
        return ZERO

    def cost(self, path, warm=False):
        key = (path, warm)
        if key in self.memo:
            return self.memo[key]
        if key in self.stack:
            return None  # recursion: handled by the caller
        self.stack.append(key)
        b = self.F.body(path)
        res = self._cost_body(b, warm)
        self.stack.pop()
        self.memo[key] = res
        return res

    def _warm_regions(self, b):
        """blocks where the per-level cache is known to be initialised: dominated by the Some arm of
        a match on the result of a warming call (a seek / move that returned an entry)"""
        warm = set()
        for bb in sorted(b.normal_blocks()):
            if b.term(bb)["t"] != "switch":
                continue
            try:
                e, enum, labels, oth = switch_on(b, bb)
            except Exception:
                continue
            if enum != "std::option::Option" or "Some" not in labels or e.k != "discr":
                continue
            src = e.a[0].strip()
            if src.k == "call" and src.x["path"] in self.warming:
                tgt = labels["Some"]
                for x in b.normal_blocks():
                    if b.dominates(tgt, x):
                        warm.add(x)
        return warm

    def _cost_body(self, b, warm):
        F = self.F
        # 1. blocks skipped because the cache is known initialised
        dead = set()
        if warm:
            for bb in sorted(b.normal_blocks()):
                t = b.term(bb)
                if t["t"] == "switch":
                    e = b.expr_of_operand(t["discr"], Site(bb, None))
                    if e.k == "call" and e.x["path"].endswith("Option::<T>::is_none") and is_self_field(e.a[0], "inner"):
                        dead |= {x for x in b.normal_blocks() if b.dominates(t["otherwise"], x)}
                    else:
                        try:
                            e2, enum, labels, oth = switch_on(b, bb)
                        except Exception:
                            continue
                        if e2.k == "discr" and enum == "std::option::Option" and "None" in labels and (is_self_field(e2.a[0], "inner") or (is_call(e2.a[0], "Option::<T>::as_mut", "Option::<T>::take", "Option::<T>::as_ref", "Option::<T>::as_deref_mut") and is_self_field(e2.a[0].strip().a[0], "inner"))):
                            dead |= {x for x in b.normal_blocks() if b.dominates(labels["None"], x)}
        wreg = self._warm_regions(b)
        # 2. block weights
        w = {}
        selfrec = []
        for bb in b.normal_blocks():
            if bb in dead:
                w[bb] = ZERO
                continue
            t = b.term(bb)
            cst = ZERO
            if t["t"] == "call":
                c = callee_of(t)
                if c is not None:
                    n = callee_name(c)
                    if n == b.path:
                        selfrec.append(Site(bb, None))
                    else:
                        cc = self.callee_cost(c, warm or bb in wreg)
                        if cc is None:
                            self.findings.append((b, Site(bb, None), f"mutual recursion through {n}"))
                            cc = ZERO
                        cst = cc
                    # closures passed as arguments are applied by the callee at most once per level:
                    # their cost is accounted where they are invoked (FnMut::call_mut has cost 0: in-block moves)
            w[bb] = cst
        # 3. loops: collapse
        loops = b.loops()
        node_of = {bb: bb for bb in b.normal_blocks()}
        loop_cost = {}
        for h, blks in sorted(loops, key=lambda x: len(x[1])):
            body_cost = self._longest(b, w, blks, h, within=blks, node_of=node_of, loop_cost=loop_cost, dead=dead)
            if body_cost == ZERO:
                loop_cost[h] = ZERO
            else:
                bound = self._loop_bound(b, h, blks)
                if bound == "D":
                    m = pmulD(body_cost)
                    if m is None:
                        self.findings.append((b, Site(h, None), f"nested D-bounded loops: cost {pstr(body_cost)} per iteration"))
                        m = (99, 0)
                    loop_cost[h] = m
                else:
                    self.findings.append((b, Site(h, None), f"loop around a block load with no recognised D bound (per-iteration cost {pstr(body_cost)})"))
                    loop_cost[h] = (999, 0)
            for x in blks:
                node_of[x] = h if node_of[x] == x or x in blks else node_of[x]
        total = self._longest(b, w, b.normal_blocks(), 0, within=None, node_of=node_of, loop_cost=loop_cost, dead=dead)
        # 4. self-recursion: accepted only on the strictly shorter head of split_last_mut
        if selfrec:
            okrec = True
            for s in selfrec:
                args = b.arg_exprs(s)
                if not any((split_part(a) or (None, None))[1] == 1 for a in args):
                    okrec = False
            if okrec:
                m = pmulD(total)
                if m is None:
                    self.findings.append((b, selfrec[0], f"recursive function with per-frame cost {pstr(total)}"))
                    m = (99, 0)
                total = m
            else:
                self.findings.append((b, selfrec[0], "self-recursion that is not on the head of split_last_mut (no D bound)"))
                total = (999, 0)
        return total

    def _loop_bound(self, b, h, blks):
        """'D' if the loop is one of the recognised D-bounded iteration forms"""
        for s, c, t in b.calls():
            if s.bb not in blks or c is None:
                continue
            n = callee_name(c)
            if n.endswith("Iterator>::next") or n.endswith("::next"):
                it = b.arg_exprs(s)[0]
                for x in it.walk():
                    # for (offset, cursor) in inner  — iteration over the per-level vector
                    if x.k == "field" and x.x["name"] == "inner" and x.x.get("adt") == A("ibc_struct"):
                        names = {y.x["path"].rsplit("::", 1)[-1] for y in it.walk() if y.k == "call"}
                        if names <= {"into_iter", "as_mut", "next", "iter_mut", "iter", "as_ref", "deref_mut", "deref"}:
                            return "D"
                    # for _ in 0..index_levels + 1
                    if x.k == "agg" and (x.x.get("adt") or "").endswith("ops::Range") and len(x.a) == 2 and const_val(x.a[0]) == 0:
                        if _is_depth(x.a[1]):
                            return "D"
                    # for _ in 0..=index_levels
                    if x.k == "call" and x.x["path"].endswith("RangeInclusive::<Idx>::new") and len(x.a) == 2 and const_val(x.a[0]) == 0 and is_self_field(strip_casts(x.a[1]), "index_levels"):
                        return "D"
        # while v.len() < index_levels + 1 { ..; v.push(..) } — a local vector that gains exactly one element on
        # every path back to the loop header: at most D iterations
        t = b.term(h) if b.term(h)["t"] == "switch" else None
        heads = [h] + [x for x in blks if b.term(x)["t"] == "switch" and b.dominates(x, h) is False]
        for hb in sorted(blks):
            tt = b.term(hb)
            if tt["t"] != "switch":
                continue
            e = b.expr_of_operand(tt["discr"], Site(hb, None))
            neg = False
            while e.k == "un" and e.x["op"] == "Not":
                neg, e = not neg, e.a[0]
            if e.k != "bin" or e.x["op"] not in ("Lt", "Gt", "Ne", "Ge", "Le"):
                continue
            x, y, op = e.a[0], e.a[1], e.x["op"]
            if op in ("Gt", "Le"):
                x, y, op = y, x, {"Gt": "Lt", "Le": "Ge"}[op]
            # x < y continues the loop (or !(x >= y))
            if not ((op in ("Lt", "Ne") and not neg) or (op == "Ge" and neg)):
                continue
            lx = x.strip()
            if not (lx.k == "call" and lx.x["path"].endswith("::len") and _is_depth(y)):
                continue
            vec = lx.a[0].strip()
            if vec.k not in ("var", "phi", "call", "agg"):
                continue
            exits = [sx for sx in b.succs(hb) if sx not in blks]
            if not exits:
                continue
            pushes = [s_ for s_, c_, t_ in b.calls() if s_.bb in blks and callee_name(c_).endswith("Vec::<T, A>::push")]
            if len(pushes) != 1:
                continue
            # every path from the test back to the loop header passes the push
            body_entry = [sx for sx in b.succs(hb) if sx in blks]
            reach = reachable_without(b, banned_blocks=[pushes[0].bb], start=body_entry[0]) if body_entry else set()
            back = [p_ for p_ in blks if h in b.succs(p_)]
            if body_entry and not any(p_ in reach for p_ in back):
                return "D"
        return None

    def _longest(self, b, w, nodes, entry, within, node_of, loop_cost, dead):
        """longest path cost from `entry` over `nodes`, ignoring back edges to loop headers;
        inner loops (already collapsed into loop_cost) contribute once"""
        nodes = set(nodes)
        doms = b.dominators()
        memo = {}
        inner_heads = {h for h in loop_cost if h in nodes and h != entry}

        def go(bb, seen):
            if bb in memo:
                return memo[bb]
            best = ZERO
            for s in b.succs(bb):
                if s not in nodes or s in seen:
                    continue
                if s in doms.get(bb, ()):  # back edge
                    continue
                best = pmax(best, go(s, seen | {s}))
            here = w.get(bb, ZERO)
            if bb in inner_heads:
                here = loop_cost[bb]
            elif any(bb in blks and h in inner_heads for h, blks in b.loops()):
                here = ZERO  # body of an already-collapsed inner loop: counted at its header
            memo[bb] = padd(here, best)
            return memo[bb]

        return go(entry, {entry})


def _is_depth(e):
    """index_levels + 1 (as usize), possibly through a local"""
    c_ = checked(e)
    if not (c_ and c_[0] == "Add" and const_val(c_[2]) == 1 and is_self_field(strip_casts(c_[1]), "index_levels")):
        return False
    # the `+ 1` is done on the widened value: `usize::from(index_levels + 1)` adds in u8 and overflows at 255 levels
    w = c_[1]
    while w.k in ("ref", "deref"):
        w = w.a[0]
    return (w.k == "cast" and w.x.get("to") in ("usize", "u64", "u32", "u16", "isize", "i64", "i32")) or \
        (w.k == "call" and w.x["path"].startswith("std::convert::num::<impl std::convert::From<u8> for"))


def r34_cost(ck, F):
    R3, R4 = "C16-R3", "C16-R4"
    C = Cost(F, ck, R3)
    rc, ibc = A("rc_prefix"), A("ibc_prefix")
    table = {}
    ops = ["move_on_first", "move_on_last", "move_on_next", "move_on_prev", "move_on_key_greater_than_or_equal_to", "move_on_key_lower_than_or_equal_to", "move_on_key_equal_to"]
    internals = [A("ibc_iter"), A("ibc_initial"), A("ibc_recursive"), A("ibc_recursive_outer"), rc + "next_block_from_index", rc + "prev_block_from_index"]
    for p in internals + [rc + o for o in ops]:
        table[p] = (C.cost(p, False), C.cost(p, True))
    for b, s, msg in C.findings:
        ck.ob(R3, f"unbounded/{b.path}", False, msg, b, s)
    nloops = 0
    for p in internals:
        b = F.body(p)
        for h, blks, hit in loops_reaching(F, b, lambda c: C.callee_cost(c, False) not in (ZERO, None)):
            nloops += 1
            ck.ob(R3, f"bounded-loop/{p.split('::')[-1]}", C._loop_bound(b, h, blks) == "D", f"loop at {b.loc(Site(h, None))} reaches a block load and is D-bounded (iteration over the per-level vector / 0..index_levels+1)", b, Site(h, None))
    ck.floor(R3, "load-reaching loops recognised", nloops, 2, F.config)
    rec = F.body(A("ibc_recursive"))
    ck.ob(R3, "recursion-recognised", table[A("ibc_recursive")][0] == (1, 0), f"`recursive` costs {pstr(table[A('ibc_recursive')][0])}: one load per frame, at most D frames (recursion on the head of split_last_mut)", rec)
    # the vector has exactly D elements
    ini = F.body(A("ibc_initial"))
    pushes = [s for s, c, t in calls(ini, "Vec::<T, A>::push")]
    ck.ob(R3, "per-level-vector-has-D-elements", len(pushes) == 1 and ini.in_loop(pushes[0].bb) and table[A("ibc_initial")][0] == (1, 0), f"initial_index_blocks pushes one (tag, cursor) per iteration of its 0..D loop and costs {pstr(table[A('ibc_initial')][0])}", ini)
    growers = sorted({b.path for b in F.user_bodies() for s, c, t in b.calls() if callee_name(c).rsplit("::", 1)[-1] in ("push", "extend", "insert", "append", "resize") and "Vec" in callee_name(c) and b.arg_exprs(s) and any(x.k == "field" and x.x["name"] == "inner" and x.x.get("adt") == A("ibc_struct") for x in b.arg_exprs(s)[0].walk())})
    ck.ob(R3, "vector-never-grows-elsewhere", not growers, f"the per-level vector is never extended after construction ({growers})", config=F.config)
    ck.extra.setdefault("cost_table", {})[F.config] = {p.split("::")[-1] if not p.startswith(rc) else "ReaderCursor::" + p.split("::")[-1]: {"cold": pstr(v[0]), "warm": pstr(v[1])} for p, v in table.items()}
    # R4: the bound
    limit = (2, 2)  # 2(D+1) = 2D + 2
    for o in ops:
        cold, warm = table[rc + o]
        ok = cold is not None and cold[0] <= limit[0] and (cold[0] < limit[0] or cold[1] <= limit[1]) and cold[0] * 1 + cold[1] <= 2 * 1 + 2 and cold[0] * 256 + cold[1] <= 2 * 256 + 2
        ck.ob(R4, f"bound/{o}", ok, f"ReaderCursor::{o}: at most {pstr(cold)} block loads (cache warm: {pstr(warm)}); allowed 2(D+1) = 2D+2 with D = index_levels + 1", F.body(rc + o))
    want = {"move_on_first": (1, 1), "move_on_last": (1, 1), "move_on_key_greater_than_or_equal_to": (1, 1), "move_on_key_equal_to": (1, 1)}
    for o, v in want.items():
        ck.ob(R4, f"lookup-cost/{o}", table[rc + o][0] == v, f"ReaderCursor::{o} costs exactly {pstr(table[rc + o][0])} (one block per index level plus the data block: a lookup never scans)", F.body(rc + o))
