"""fmt — extraction of the *format description the code embodies* (SEQ / TABLE / EXPR facts) from a
fact file.  The same extractor runs on the working tree and on grenad 0.4.7; results are plain
tuples compared as data (never as source or MIR text)."""
from .common import *

WIDTH = {"u8": 1, "i8": 1, "u16": 2, "u32": 4, "u64": 8, "i64": 8, "u128": 16}


def fold(e):
    """constant folding over reconstructed expressions: ints, int casts, + - * (checked or not),
    unary minus, size_of on concrete types (already folded by the driver)"""
    e = e.strip() if e.k in ("ref", "deref", "phi") else e
    if e.k == "const":
        return e.x["v"]
    if e.k == "cast":
        return fold(e.a[0])
    if e.k == "call" and e.a and is_transparent(e.x["path"]) and e.x["path"].startswith("std::convert::num::<impl std::convert::From<"):
        return fold(e.a[0])      # `u32::from(FLAG)`: lossless widening of a constant
    if e.k == "field" and e.x["name"] == "0" and e.a[0].k == "bin":
        return fold(e.a[0])
    if e.k == "field":
        s = e.strip()      # `Ok(7)?`, `Some(7).unwrap()`, `(a, b).1`: the payload when its construction is visible
        if s is not e:
            return fold(s)
    if e.k == "bin":
        a, b = fold(e.a[0]), fold(e.a[1])
        if a is None or b is None:
            return None
        op = e.x["op"].replace("WithOverflow", "").replace("Unchecked", "")
        if op == "Add":
            return a + b
        if op == "Sub":
            return a - b
        if op == "Mul":
            return a * b
        if op == "Shl":
            return a << b
        if op == "Shr":
            return a >> b
        if op == "BitOr":
            return a | b
        if op == "BitAnd":
            return a & b
        return None
    if e.k == "un" and e.x["op"] == "Neg":
        a = fold(e.a[0])
        return None if a is None else -a
    return None


def fold_set(e, limit=16):
    """every constant an expression can evaluate to when it only depends on joins of constants
    (`match v { A => 17, B => 18 } + 4` -> {21, 22}); None if it depends on anything else"""
    k = fold(e)
    if k is not None:
        return {k}
    s = e.strip() if e.k in ("ref", "deref") else e
    if s.k == "phi":
        out = set()
        for x in s.a:
            fs = fold_set(x, limit)
            if fs is None:
                return None
            out |= fs
            if len(out) > limit:
                return None
        return out
    if s.k == "cast":
        return fold_set(s.a[0], limit)
    if s.k == "field" and s.x["name"] == "0" and s.a[0].k == "bin":
        return fold_set(s.a[0], limit)
    if s.k == "un" and s.x["op"] == "Neg":
        a = fold_set(s.a[0], limit)
        return None if a is None else {-x for x in a}
    if s.k == "bin":
        a, b_ = fold_set(s.a[0], limit), fold_set(s.a[1], limit)
        if a is None or b_ is None:
            return None
        op = s.x["op"].replace("WithOverflow", "").replace("Unchecked", "")
        fn = {"Add": lambda x, y: x + y, "Sub": lambda x, y: x - y, "Mul": lambda x, y: x * y}.get(op)
        if fn is None:
            return None
        out = {fn(x, y) for x in a for y in b_}
        return out if len(out) <= limit else None
    return None


def dom_order(b, sites):
    """execution order of sites on the (acyclic) spine: reverse post-order of their blocks"""
    from .mirror import rpo
    idx = {bb: i for i, bb in enumerate(rpo(b))}
    return sorted(sites, key=lambda s: (idx.get(s.bb, 10**9), s.key()))


def io_calls(b, region=None):
    """ordered stream operations: (site, op, width, endian, operand-expr list)"""
    out = []
    for s, c, t in b.calls():
        if c is None or (region is not None and s.bb not in region):
            continue
        n = c["path"]
        last = n.rsplit("::", 1)[-1]
        tr = c.get("trait", "")
        if tr in ("byteorder::ReadBytesExt", "byteorder::WriteBytesExt") or n.startswith("byteorder::ReadBytesExt") or n.startswith("byteorder::WriteBytesExt"):
            kind = "read" if "Read" in n else "write"
            ty = last.split("_", 1)[1] if "_" in last else last
            endian = "-"
            for g in c["args"]:
                if g.endswith("LittleEndian"):
                    endian = "LE"
                elif g.endswith("BigEndian"):
                    endian = "BE"
                elif g.endswith("NativeEndian") or g.endswith("NetworkEndian"):
                    endian = g.rsplit("::", 1)[-1]
            out.append((s, kind, WIDTH.get(ty, ty), endian))
        elif last == "seek" and ("Seek" in n):
            out.append((s, "seek", None, None))
        elif last in ("write_all", "write", "read_exact", "read", "read_to_end", "flush", "take") and ("io::Write" in n or "io::Read" in n):
            iv = _int_bytes_arg(b, s) if last == "write_all" else None
            if iv is not None:
                # `w.write_all(&x.to_be_bytes())` is `w.write_u64::<BigEndian>(x)`: one write_all of the same bytes
                out.append((s, "write", iv[0], iv[1]))
            else:
                out.append((s, last, None, None))
    order = dom_order(b, [x[0] for x in out])
    pos = {s: i for i, s in enumerate(order)}
    out.sort(key=lambda x: pos[x[0]])
    return out


def _int_bytes_arg(b, s):
    """(width in bytes, endianness, integer expr) when the buffer handed to the write at `s` is `<int>.to_Xe_bytes()`"""
    a = b.arg_exprs(s)
    if len(a) < 2:
        return None
    v = a[1].strip()
    if v.k == "call":
        cv = int_conv(v.x.get("info") or {"path": v.x["path"]})
        if cv and cv[2] == "write" and v.a:
            return (WIDTH.get(cv[0], cv[0]), cv[1], v.a[0])
    return None


def io_value(b, s):
    """the integer written at site s of io_calls kind 'write', whichever spelling"""
    iv = _int_bytes_arg(b, s)
    return iv[2] if iv is not None else b.arg_exprs(s)[1]


def version_arms(b, on_self_field=None):
    """switch on the discriminant of a FileVersion value: {variant: region}"""
    for bb in sorted(b.normal_blocks()):
        if b.term(bb)["t"] == "switch":
            e, enum, labels, oth = switch_on(b, bb)
            if enum and enum.endswith("FileVersion") and e.k == "discr":
                return bb, {lab: arm_region(b, bb, tb) for lab, tb in labels.items()}
    raise AnchorMissing(f"no match on FileVersion in {b.path}")


def specialise(b, enum_suffix, variant):
    """the body with every `match <value of enum>` resolved to one variant (see common.specialise_switch)"""
    return specialise_switch(b, lambda e, enum: bool(enum) and enum.endswith(enum_suffix) and e.k == "discr", variant)


def trailer_write(F):
    b0 = F.body(A("meta_write"))
    bb, arms = version_arms(b0)
    out = {}
    for ver in arms:
        b = specialise(b0, "FileVersion", ver)
        reg = b.normal_blocks()
        seq = []
        for s, kind, w, en in io_calls(b, reg):
            if kind != "write":
                seq.append((kind,))
                continue
            v = io_value(b, s)
            k = fold(v)
            vs = v.strip()
            if k is not None:
                what = k
            elif vs.k == "field":
                what = "self." + vs.x["name"]
            elif vs.k == "cast" and vs.a[0].strip().k == "discr":
                what = "discr(self." + vs.a[0].strip().a[0].strip().x.get("name", "?") + ") as " + vs.x["to"]
            else:
                what = v.show()
            seq.append((w, en, what))
        # the usize returned
        out[ver] = {"seq": seq}
    return out


def trailer_read(F):
    b = F.body(A("meta_read"))
    ios = io_calls(b)
    out = {}
    # magic
    first_seek = [x for x in ios if x[1] == "seek"][0]
    pos = b.arg_exprs(first_seek[0])[1].strip()
    out["magic_seek"] = (pos.x.get("variant"), fold(pos.a[0]) if pos.a else None)
    mread = [x for x in ios if x[1] == "read"][0]
    out["magic_read"] = (mread[2], mread[3])
    out["magic_read_after_seek"] = b.dominates(first_seek[0], mread[0])
    # magic table: the body specialised to each accepted magic value (and to "anything else") tells which
    # version is built; all the per-version facts are read off the body specialised that way, so it does not
    # matter whether the versions are two separate arms or one shared sequence with a per-version step
    table = {}
    msw = None
    for bb in sorted(b.normal_blocks()):
        t = b.term(bb)
        if t["t"] == "switch":
            e = b.expr_of_operand(t["discr"], Site(bb, None)).strip()
            if e.k == "call" and e.x.get("site") == mread[0]:
                msw = bb
                break
    if msw is None:
        out["magic_table"] = {}
        return out
    is_magic = lambda sb_: (lambda e, enum: e.strip().k == "call" and e.strip().x.get("site") == mread[0])
    vals = [int(v) for v, tb in b.term(msw)["arms"]]
    spec = {}
    for v in vals + ["otherwise"]:
        sb = specialise_switch(b, lambda e, enum, _v=v: (_v if (e.strip().k == "call" and e.strip().x.get("site") == mread[0]) else None), None)
        ags = [(s, rv) for s, st in sb.sites() if s.i is not None and st["s"] == "assign" and st["rv"]["rv"] == "agg" and st["rv"].get("adt") == A("meta_struct") for rv in [st["rv"]]]
        if v == "otherwise":
            alts = flat_alts(sb.expr_at_return())
            errs = [a for a in alts if a.k == "agg" and a.x.get("variant") == "Err"]
            oks = [a for a in alts if a.k == "agg" and a.x.get("variant") == "Ok"]
            if not errs:
                # the error is built and then returned by `?`: look inside the residual
                for a_ in alts:
                    if a_.k == "call" and a_.x["path"].endswith("::from_residual"):
                        errs += [x for x in a_.walk() if x.k == "agg" and x.x.get("variant") == "Err" and (x.x.get("adt") or "").endswith("result::Result")]
            kinds = {x.a[0].show() for x in errs}
            table["otherwise"] = ("Err(" + sorted(kinds)[0] + ")") if (len(kinds) == 1 and not oks and not ags) else "?"
            continue
        ver = "?"
        if len(ags) == 1:
            fv = agg_field_expr(sb, ags[0][0], ags[0][1], "file_version").strip()
            if fv.k == "agg" and (fv.x.get("adt") or "").endswith("FileVersion"):
                ver = fv.x.get("variant")
            elif fv.k == "text" and fv.x.get("variant"):
                ver = fv.x["variant"]
        table[v] = ver
        spec[ver] = (sb, ags)
    out["magic_table"] = table
    for ver, (sb, ags) in spec.items():
        if ver == "?":
            continue
        seq = []
        sk = None
        ios_v = [x for x in io_calls(sb, sb.normal_blocks()) if x[0] != first_seek[0] and x[0] != mread[0]]
        for s, kind, w, en in ios_v:
            if kind == "seek":
                p = sb.arg_exprs(s)[1].strip()
                sk = (p.x.get("variant"), fold(p.a[0]) if p.a else None)
                seq.append(("seek",))
            elif kind == "read":
                seq.append((w, en))
        fields = {}
        if len(ags) == 1:
            s, rv = ags[0]
            reads = [x[0] for x in ios_v if x[1] == "read"]
            for fld in rv["fields"]:
                e = agg_field_expr(sb, s, rv, fld)
                k = fold(e)
                if k is not None:
                    fields[fld] = ("const", k)
                    continue
                hit = [i for i, r in enumerate(reads) if any(x.k == "call" and x.x.get("site") == r for x in e.walk())]
                via = [x.x["path"].rsplit("::", 1)[-1] for x in e.walk() if x.k == "call" and x.x["path"].startswith("compression::")]
                if hit:
                    if via:
                        # the field must be exactly the Some payload of that conversion of the byte read: no remapping,
                        # no default, no second source
                        p = unwrap_payload(e, "Some")
                        exact = p is not None and p.strip().k == "call" and p.strip().x["path"].startswith("compression::") and len(p.strip().a) == 1 \
                            and p.strip().a[0].strip().k == "call" and p.strip().a[0].strip().x.get("site") == reads[hit[-1]]
                        if not exact:
                            via = via + ["(then altered)"]
                    fields[fld] = ("read", hit[-1], tuple(via))
                elif e.strip().k in ("agg", "text") or "FileVersion" in e.show() or e.strip().k in ("var", "phi"):
                    fields[fld] = ("version",)
                else:
                    fields[fld] = ("?", e.show()[:60])
        out[ver] = {"seek": sk, "seq": seq, "fields": fields}
    return out


def _version_built(b, tb):
    seen = set()
    while tb not in seen:
        seen.add(tb)
        for i, st in enumerate(b.blocks[tb]["stmts"]):
            if st["s"] == "assign" and st["rv"]["rv"] == "agg" and st["rv"].get("adt", "").endswith("FileVersion"):
                return st["rv"]["variant"]
        t = b.term(tb)
        if t["t"] == "goto":
            tb = t["target"]
        else:
            break
    return "?"


def _err_built(b, tb):
    seen = set()
    while tb not in seen:
        seen.add(tb)
        for i, st in enumerate(b.blocks[tb]["stmts"]):
            if st["s"] == "assign" and st["rv"]["rv"] == "agg" and st["rv"].get("variant") == "Err":
                e = b._expr_of_def((Site(tb, i), "assign", st["rv"]))
                return "Err(" + e.a[0].show() + ")"
        t = b.term(tb)
        if t["t"] == "goto":
            tb = t["target"]
        else:
            break
    return "?"


def block_frame_write(F):
    b = F.body(A("write_block"))
    seq = []
    comp = calls(b, A("compress"))
    for s, kind, w, en in io_calls(b):
        a = b.arg_exprs(s)
        if kind == "write":
            v = io_value(b, s)
            from_len = any(x.k == "call" and x.x["path"].endswith("::len") for x in v.walk()) and comp and any(x.k == "call" and x.x.get("site") == comp[0][0] for x in v.walk())
            seq.append((w, en, "len(compressed)" if from_len else v.show()[:60], is_arg(a[0], "writer")))
        elif kind == "write_all":
            v = a[1]
            ok = comp and any(x.k == "call" and x.x.get("site") == comp[0][0] for x in v.walk())
            seq.append(("bytes", "compressed" if ok else v.show()[:60], is_arg(a[0], "writer")))
        else:
            seq.append((kind,))
    return seq


def block_frame_read(F):
    b = F.body(A("block_read_from"))
    seq = []
    dc = calls(b, A("decompress"))
    rd = [x for x in io_calls(b) if x[1] == "read"]
    for s, kind, w, en in io_calls(b):
        if kind == "read":
            seq.append((w, en))
        elif kind == "take":
            a = b.arg_exprs(s)
            lim = a[1].strip()
            seq.append(("take", "len-just-read" if (rd and lim.k == "call" and lim.x.get("site") == rd[0][0]) else lim.show()[:60]))
    if dc:
        a = b.arg_exprs(dc[0][0])
        src = a[1].strip()
        seq.append(("decompress", "take" if (src.k == "call" and src.x["path"].endswith("Read::take")) else src.show()[:60], "into self.buffer" if is_self_field(a[2], "buffer") else a[2].show()[:40]))
    return seq


def entry_frame_write(F):
    b = F.body(A("bw_insert"))
    seq = []
    from .c18 import buffer_appends
    for s in dom_order(b, buffer_appends(b)):
        v = b.arg_exprs(s)[1]
        vs = v.strip()
        if vs.k == "call" and vs.x["path"].endswith(A("varint_encode")):
            x = strip_casts(vs.a[1])
            to = vs.a[1].strip().x.get("to") if vs.a[1].strip().k == "cast" else "?"
            what = "len(" + x.strip().a[0].strip().x.get("name", "?") + ")" if is_call(x, "::len") else x.show()[:40]
            seq.append(("varint", what, to))
        elif vs.k == "arg":
            seq.append(("bytes", vs.x["name"]))
        else:
            seq.append(("?", v.show()[:50]))
    return seq


def linform(e, sym):
    """linear form of an integer expression over symbols given by sym(expr) -> name | None:
    returns {name: coef, 1: const} or None"""
    k = fold(e)
    if k is not None:
        return {1: k}
    s = e.strip()
    nm = sym(s)
    if nm is not None:
        return {nm: 1}
    if s.k == "cast":
        return linform(s.a[0], sym)
    cc = checked(s)
    if cc is not None and s.k != "bin" and cc[0] in ("Add", "Sub", "Mul"):
        s = Expr("bin", [cc[1], cc[2]], op=cc[0])
    elif s.k == "call" and len(s.a) == 2 and "num::" in s.x["path"] and s.x["path"].rsplit("::", 1)[-1] in ("checked_add", "checked_sub", "checked_mul"):
        # `a.checked_add(b)?` in an integer position: strip() let the call stand for its Some payload
        s = Expr("bin", [s.a[0], s.a[1]], op={"checked_add": "Add", "checked_sub": "Sub", "checked_mul": "Mul"}[s.x["path"].rsplit("::", 1)[-1]])
    if s.k == "field" and s.x["name"] == "0" and s.a[0].k == "bin":
        s = s.a[0]
    if s.k == "phi":
        forms = [linform(x, sym) for x in s.a]
        if forms and all(f is not None and f == forms[0] for f in forms):
            return forms[0]
        return None
    if s.k == "bin":
        op = s.x["op"].replace("WithOverflow", "")
        a, b = linform(s.a[0], sym), linform(s.a[1], sym)
        if a is None or b is None:
            return None
        if op in ("Add", "Sub"):
            out = dict(a)
            for kk, v in b.items():
                out[kk] = out.get(kk, 0) + (v if op == "Add" else -v)
            return {kk: v for kk, v in out.items() if v != 0}
        if op == "Mul":
            if set(a) <= {1}:
                return {kk: v * a.get(1, 0) for kk, v in b.items()}
            if set(b) <= {1}:
                return {kk: v * b.get(1, 0) for kk, v in a.items()}
    return None


def lin_str(f):
    if f is None:
        return "?"
    parts = []
    for k in sorted(f, key=str):
        v = f[k]
        parts.append(f"{v}" if k == 1 else (k if v == 1 else f"{v}*{k}"))
    return "+".join(parts) if parts else "0"


def _payload_slice(e):
    """(bounds aggregate, call site) when e denotes payload[range] — written `&payload[range]` or
    `payload.get(range)?` (the checked spelling: same region, `None` when it does not fit) — else None"""
    s = e.strip()
    g = unwrap_payload(s, "Some")
    if g is not None:
        s = g.strip()
        want = "::get"
    else:
        want = "::index"
    if s.k == "call" and s.x["path"].endswith(want) and len(s.a) == 2 and s.a[1].k == "agg" and is_call(s.a[0], "Block::payload"):
        return s.a[1], s.x.get("site")
    return None


def _entry_syms(b):
    dec = dom_order(b, [s for s, c, t in calls(b, A("varint_decode"))])
    if len(dec) != 2:
        return None, dec
    names = {(dec[0], False): "n1", (dec[0], True): "k", (dec[1], False): "n2", (dec[1], True): "v"}

    def sym(x):
        if x.k == "arg" and x.x["name"] == "start_offset":
            return "s"
        if x.k == "call" and x.x.get("site") in dec:
            return names[(x.x["site"], "out" in x.x)]
        return None
    return sym, dec


def entry_frame_read(F):
    """symbolic layout read by Block::entry_at: s = start offset, n1/n2 = bytes consumed by the two
    varint decodes, k/v = the decoded lengths"""
    b = F.body(A("block_entry_at"))
    sym, dec = _entry_syms(b)
    if sym is None:
        return {"error": f"{len(dec)} varint decodes"}
    out = {}
    for i, d in enumerate(dec):
        ps = _payload_slice(b.arg_exprs(d)[0])
        r = ps[0] if ps else None
        out[f"decode{i+1}_from"] = lin_str(linform(r.a[0], sym)) if r is not None and (r.x.get("adt") or "").endswith("RangeFrom") else "?"
        out[f"decode{i+1}_on_payload"] = ps is not None
    rng = []
    for s_, c, t in b.calls():
        n = callee_name(c)
        if not (n.endswith("Index<I> for [T]>::index") or n.endswith("slice::<impl [T]>::get")):
            continue
        a = b.arg_exprs(s_)
        if len(a) == 2 and a[1].k == "agg" and (a[1].x.get("adt") or "").endswith("ops::Range") and is_call(a[0], "Block::payload"):
            rng.append(s_)
    rng = dom_order(b, rng)
    for nm, s_ in zip(("key", "val"), rng):
        r = b.arg_exprs(s_)[1]
        out[nm] = (lin_str(linform(r.a[0], sym)), lin_str(linform(r.a[1], sym)))
    if not rng:
        # the same two regions taken in two steps, `payload[a..][..n]`: the outermost bounded slices of the payload
        is_payload = lambda x: is_call(x, "Block::payload")
        cand = []
        for s_, c, t in b.calls():
            if not callee_name(c).endswith("Index<I> for [T]>::index"):
                continue
            a = b.arg_exprs(s_)
            if len(a) != 2 or a[1].k != "agg" or not (a[1].x.get("adt") or "").endswith(("ops::RangeTo", "ops::Range")):
                continue
            e_ = Expr("call", a, path="core::slice::index::<impl std::ops::Index<I> for [T]>::index", site=s_)
            reg = slice_region(e_, sym, is_payload)
            if reg is not None and a[0].strip().k == "call" and not is_payload(a[0]):
                cand.append((s_, reg))
        order = [str(y) for y in dom_order(b, [y[0] for y in cand])]
        cand.sort(key=lambda x: order.index(str(x[0])))
        if len(cand) == 2:
            rng = [x[0] for x in cand]
            for nm, (s_, reg) in zip(("key", "val"), cand):
                out[nm] = (lin_str(reg[0]), lin_str(reg[1]))
    rets = [e for e in flat_alts(b.expr_at_return()) if e.k == "agg" and e.x.get("variant") == "Some"]
    if len(rets) == 1:
        tup = rets[0].a[0]
        out["returns_next"] = lin_str(linform(tup.a[2], sym)) if tup.k == "agg" and len(tup.a) == 3 else "?"
        out["returns_key_val"] = [any(x.k == "call" and x.x.get("site") == rs for x in comp.walk()) for comp, rs in zip(tup.a[:2], rng)] if tup.k == "agg" else "?"
    return out


def entry_none_guards(F):
    """every explicit test in Block::entry_at that compares a position with the payload length and sends one side
    to `None`.  A well-formed entry starting at s occupies [s, s+n1+n2+k+v) with n1, n2 >= 1, k, v >= 0 and ends at or
    before payload.len(); a test `X >= len => None` can only reject malformed data iff X < end for every such
    entry (`X > len` iff X <= end).  X = s (the end-of-block test) and X = s+n1 qualify; X = s+n1+n2 or X = s+n1+n2+k
    do not: an entry with an empty key / value that ends the payload would be dropped.
    Returns [(ok, description, site)]."""
    b = F.body(A("block_entry_at"))
    sym, dec = _entry_syms(b)
    if sym is None:
        return [(False, "the two length decodes of entry_at were not found", None)]
    somes = [e.x.get("site") for e in flat_alts(b.expr_at_return()) if e.k == "agg" and e.x.get("variant") == "Some"]
    some_bbs = {x.bb for x in somes if x is not None}
    out = []

    def is_len(e):
        return is_call(e, "::len") and is_call(e.strip().a[0], "Block::payload")

    def judge(X, strict, where, site):
        """None is taken when X >= len (strict=False) or X > len (strict=True)"""
        f = linform(X, sym)
        if f is None:
            out.append((False, f"{where}: position `{X.show()[:60]}` is not a linear form of the entry's fields", site))
            return
        g = dict(f)
        # X - end (+1 when not strict) must be <= 0 for all n1, n2 >= 1 and k, v >= 0
        for nm in ("s", "n1", "n2", "k", "v"):
            g[nm] = g.get(nm, 0) - 1
        g[1] = g.get(1, 0) + (0 if strict else 1)
        ok = g.get("s", 0) == 0 and all(g.get(nm, 0) <= 0 for nm in ("n1", "n2", "k", "v")) and not (set(g) - {"s", "n1", "n2", "k", "v", 1})
        worst = g.get("n1", 0) + g.get("n2", 0) + g.get(1, 0)
        ok = ok and worst <= 0
        out.append((ok, f"{where}: `{lin_str(f)} {'>' if strict else '>='} payload.len()` gives None" + ("" if ok else " — true for a well-formed entry that ends the payload with an empty key / value"), site))

    for site, st in b.sites():
        if site.i is None or st["s"] != "assign" or st["rv"]["rv"] != "bin" or st["rv"]["op"] not in ("Ge", "Gt", "Le", "Lt", "Eq", "Ne"):
            continue
        e = b._expr_of_def((site, "assign", st["rv"]))
        x, y = e.a
        op = e.x["op"]
        if is_len(x) and not is_len(y):
            x, y = y, x
            op = {"Ge": "Le", "Gt": "Lt", "Le": "Ge", "Lt": "Gt"}.get(op, op)
        if not is_len(y):
            continue
        ed = bool_edges(b, value_site=site)
        if ed is None:
            continue
        sw, t_t, f_t = ed
        reach_t = some_bbs & (set(b.reachable_from(t_t)) | {t_t})
        reach_f = some_bbs & (set(b.reachable_from(f_t)) | {f_t})
        if reach_t and reach_f:
            continue      # not a guard of None
        # the relation that holds on the None side, as `x REL len`
        rel = op if not reach_t else {"Ge": "Lt", "Gt": "Le", "Le": "Gt", "Lt": "Ge", "Eq": "Ne", "Ne": "Eq"}[op]
        if rel in ("Ge", "Eq"):
            judge(x, False, "comparison", site)
        elif rel == "Gt":
            judge(x, True, "comparison", site)
        else:
            out.append((False, f"comparison: `{x.show()[:50]} {rel} payload.len()` gives None (entries inside the payload are rejected)", site))
    for s_, c, t in b.calls():
        if not callee_name(c).endswith("::is_empty"):
            continue
        ps = _payload_slice(b.arg_exprs(s_)[0])
        if ps is None or not (ps[0].x.get("adt") or "").endswith("RangeFrom"):
            continue
        ed = bool_edges(b, value_site=s_)
        if ed is None:
            continue
        sw, t_t, f_t = ed
        reach_t = some_bbs & (set(b.reachable_from(t_t)) | {t_t})
        if not reach_t:
            judge(ps[0].a[0], False, "is_empty(payload[X..])", s_)
    return out


def footer_write(F):
    b = F.body(A("bw_finish"))
    from .c18 import buffer_appends
    seq = []
    for s in dom_order(b, buffer_appends(b)):
        v = b.arg_exprs(s)[1]
        fns = [x.x["path"] for x in v.walk() if x.k in ("fn", "call")]
        src = "index_offsets" if any(x.k == "field" and x.x["name"] == "index_offsets" for x in v.walk()) else "?"
        conv = [f.rsplit("impl ", 1)[-1] for f in fns if "to_be_bytes" in f or "to_le_bytes" in f or "to_ne_bytes" in f]
        names = [f.rsplit("::", 1)[-1] for f in fns]
        if "len" in names:
            seq.append(("count", src, tuple(conv)))
        else:
            seq.append(("table", src, tuple(conv), "rev" in names))
    return seq


def slice_region(e, sym, root_pred):
    """the byte region [start, end) of the root buffer that a (nested) slice expression denotes, as linear
    forms: root[a..][..b] -> (a, a+b), root[a..b] -> (a, b), root[a..] -> (a, LEN)"""
    s = e.strip()
    if root_pred(s):
        return {}, {"len": 1}
    if s.k == "field" and s.x.get("idx") in (0, 1) and s.a[0].strip().k == "call" and s.a[0].strip().x["path"].rsplit("::", 1)[-1] in ("split_at", "split_at_mut") and len(s.a[0].strip().a) == 2:
        # `buf.split_at(n)`: .0 is buf[..n], .1 is buf[n..]
        c = s.a[0].strip()
        base = slice_region(c.a[0], sym, root_pred)
        n = linform(c.a[1], sym)
        if base is None or n is None:
            return None
        s0, e0 = base
        mid = dict(s0)
        for k, v in n.items():
            mid[k] = mid.get(k, 0) + v
        mid = {k: v for k, v in mid.items() if v != 0}
        return (s0, mid) if s.x["idx"] == 0 else (mid, e0)
    if s.k == "call" and s.x["path"].endswith("::index") or (s.k == "call" and s.x["path"].endswith("::index_mut")):
        base = slice_region(s.a[0], sym, root_pred)
        if base is None:
            return None
        s0, e0 = base
        r = s.a[1]
        if r.k != "agg":
            return None
        kind = (r.x.get("adt") or "").rsplit("::", 1)[-1]
        fs = [linform(x, sym) for x in r.a]
        if any(f is None for f in fs):
            return None

        def plus(a, b):
            out = dict(a)
            for k, v in b.items():
                out[k] = out.get(k, 0) + v
            return {k: v for k, v in out.items() if v != 0}
        if kind == "RangeFrom":
            return plus(s0, fs[0]), e0
        if kind == "RangeTo":
            return s0, plus(s0, fs[0])
        if kind == "Range":
            return plus(s0, fs[0]), plus(s0, fs[1])
        if kind == "RangeFull":
            return s0, e0
        return None
    return None


def table_rebuild(F):
    """how Block::read_from rebuilds the in-memory offset table: one `index_offsets.extend(<iterator chain>)`, or one
    `index_offsets.push(<conversion of the chunk>)` inside a loop over `<chain>.next()`.  Returns None or a dict
    {form, site, convs: [(type, endianness, direction)], chunk: the chunks_exact call expr | None, reversed: bool}"""
    b = F.body(A("block_read_from"))
    ext = [s for s, c, t in calls(b, "Extend<T>>::extend") if is_self_field(b.arg_exprs(s)[0], "index_offsets")]
    psh = [s for s, c, t in calls(b, "Vec::<T, A>::push") if is_self_field(b.arg_exprs(s)[0], "index_offsets")]
    if len(ext) == 1 and not psh:
        exprs, form, site = [b.arg_exprs(ext[0])[1]], "extend", ext[0]
    elif len(psh) == 1 and not ext and b.in_loop(psh[0].bb):
        v = b.arg_exprs(psh[0])[1]
        exprs, form, site = [v], "loop", psh[0]
    else:
        return None
    nodes = [x for e in exprs for x in e.walk()]
    convs = []
    for x in nodes:
        if x.k in ("fn", "call"):
            cv = int_conv(x.x.get("info") or {"path": x.x["path"]})
            if cv:
                convs.append(cv)
    names = [x.x["path"].rsplit("::", 1)[-1] for x in nodes if x.k == "call"]
    cx = [x for x in nodes if x.k == "call" and x.x["path"].endswith("chunks_exact")]
    return {"form": form, "site": site, "convs": convs, "chunk": cx[0] if cx else None, "reversed": "rev" in names, "names": names}


def footer_read(F):
    """how Block::read_from finds the footer, as regions of the decoded buffer over len = buffer.len() and
    count = the u32 read: which bytes hold the count, which the offset table, what the payload size is"""
    b = F.body(A("block_read_from"))
    out = {}

    def sym(x):
        if x.k == "call" and x.x["path"].endswith("::len") and x.a and is_self_field(x.a[0], "buffer"):
            return "len"
        if x.k == "call" and (int_conv(x.x.get("info") or {"path": x.x["path"]}) or ("", "", ""))[0] == "u32" and int_conv(x.x.get("info") or {"path": x.x["path"]})[2] == "read":
            return "count"
        if x.k == "call" and x.x["path"].endswith("::unwrap") and x.a and any(y.k == "fn" and "u32" in y.x["path"] and "bytes" in y.x["path"] for y in x.a[0].walk()):
            return "count"      # bytes.try_into().map(u32::from_be_bytes).unwrap()
        return None
    root = lambda x: is_self_field(x, "buffer")

    def region_of(e):
        idx = [x for x in e.walk() if x.k == "call" and x.x["path"].endswith("::index")]
        regs = []
        for ix in idx:
            # outermost slice expressions only
            if any(ix is not o and any(w is ix for w in o.walk()) for o in idx):
                continue
            r = slice_region(ix, sym, root)
            if r is not None:
                regs.append((lin_str(r[0]), lin_str(r[1])))
        return tuple(sorted(set(regs)))
    def _is32(info):
        cv = int_conv(info)
        return cv is not None and cv[0] == "u32" and cv[2] == "read"
    um = [s for s, c, t in b.calls() if c and _is32(c)]
    fnrefs = [x for s, c, t in b.calls() for a_ in b.arg_exprs(s) for x in a_.walk() if x.k == "fn" and _is32(x.x.get("info") or {"path": x.x["path"]})]
    if um:
        s = um[0]
        reg = region_of(b.arg_exprs(s)[-1])
        # a slice reader (ByteOrder::read_u32(&buf[a..])) takes the first 4 bytes of the region it is given
        reg = tuple((st, en) for st, en in reg)
        out["count"] = (conv_name(callee_of(b.at(s))), reg)
    elif fnrefs:
        # bytes.try_into().map(u32::from_be_bytes)
        for s, c, t in b.calls():
            for a_ in b.arg_exprs(s):
                if any(x is fnrefs[0] for x in a_.walk()):
                    out["count"] = (conv_name(fnrefs[0].x.get("info") or {"path": fnrefs[0].x["path"]}), region_of(b.arg_exprs(s)[0]))
    tr = table_rebuild(F)
    if tr:
        fns = sorted({(cv[0] + " " + cv[1]) for cv in tr["convs"] if cv[0] == "u64"})      # (narrower reads belong to the count inside the region arithmetic)
        cx = tr["chunk"]
        out["table"] = (tuple(fns), fold(cx.a[1]) if cx is not None else None, tr["reversed"], region_of(cx.a[0]) if cx is not None else ())
    ps = [(s, st) for s, st in b.sites() if s.i is not None and st["s"] == "assign" and st["pl"]["p"] and isinstance(st["pl"]["p"][-1], dict) and st["pl"]["p"][-1].get("name") == "payload_size"]
    if ps:
        e = b._expr_of_def((ps[-1][0], "assign", ps[-1][1]["rv"]))
        out["payload_size"] = lin_str(linform(e, sym))
    return out


def _sym(e):
    """symbolic arithmetic rendering with sizes folded: buffer_len - 4 - count*8"""
    k = fold(e)
    if k is not None:
        return str(k)
    s = e.strip()
    if s.k == "field" and s.x["name"] == "0" and s.a[0].k == "bin":
        s = s.a[0]
    if s.k == "bin":
        op = {"Add": "+", "Sub": "-", "Mul": "*"}.get(s.x["op"].replace("WithOverflow", ""), s.x["op"])
        return f"({_sym(s.a[0])}{op}{_sym(s.a[1])})"
    if s.k == "cast":
        return _sym(s.a[0])
    if s.k == "call" and s.x["path"].endswith("::len"):
        return "len"
    if s.k == "call" and (s.x["path"].endswith("::unwrap") or s.x["path"].rsplit("::", 1)[-1] in ("from_be_bytes", "from_le_bytes", "from_ne_bytes")):
        return "count"
    if s.k == "var":
        return s.x["name"]
    return s.show()[:40]


def codec_ids(F):
    enum = F.adts[A("compression_enum")]
    return {v["name"]: int(v["discr"]) for v in enum["variants"]}


def from_u8_table(F):
    """from_u8 as a total table {0..255 -> variant name | None | "?..."}; two forms are read:
    a `match` on the argument, and a checked lookup `TABLE.get(value as usize).copied()` in a constant
    array of the enum (the array's bytes come from the compiler's evaluation of the constant)"""
    from .c01 import _from_u8_result
    fu = F.body(A("from_u8"))
    sw = [bb for bb in fu.normal_blocks() if fu.term(bb)["t"] == "switch"]
    if len(sw) == 1:
        t = fu.term(sw[0])
        d = fu.expr_of_operand(t["discr"], Site(sw[0], None))
        if d.strip().k != "arg":
            return {x: "?switch-on-" + d.show()[:30] for x in range(256)}
        arms = {int(v): tb for v, tb in t["arms"]}
        return {x: _from_u8_result(fu, arms.get(x, t["otherwise"])) for x in range(256)}
    if not sw and not fu.loops():
        e = fu.expr_at_return()
        if e.k == "call" and e.x["path"].rsplit("::", 1)[-1] in ("copied", "cloned") and "option::Option" in e.x["path"]:
            g = e.a[0]
            if g.k == "call" and g.x["path"].endswith("::get") and "slice" in g.x["path"] and len(g.a) == 2:
                tbl, idx = g.a[0], g.a[1]
                while tbl.k in ("ref", "deref", "cast"):
                    tbl = tbl.a[0]
                ix = idx.strip()
                while ix.k == "cast" or (ix.k == "call" and len(ix.a) == 1 and "From<u8> for usize" in ix.x["path"]):
                    ix = ix.a[0].strip()       # widening u8 -> usize, lossless
                enum = F.adts[A("compression_enum")]
                discr = {int(v["discr"]): v["name"] for v in enum["variants"]}
                if tbl.k == "text" and tbl.x.get("bytes") is not None and tbl.x.get("elem_ty") == A("compression_enum") and ix.k == "arg" and enum.get("size") == 1:
                    by = tbl.x["bytes"]
                    return {x: (discr.get(by[x], f"?tag-{by[x]}") if x < len(by) else None) for x in range(256)}
        # third form: TABLE.iter().copied().find(|t| *t as u8 == value) over a constant array of the enum:
        # the first (hence, discriminants being distinct, the only) element whose discriminant is the byte
        if e.k == "call" and e.x["path"].endswith("Iterator::find") and len(e.a) == 2:
            it, clo = e.a[0].strip(), e.a[1].strip()
            tbl = None
            chain = []
            x = it
            while x.k == "call" and x.a and x.x["path"].rsplit("::", 1)[-1] in ("copied", "cloned", "iter", "into_iter"):
                chain.append(x.x["path"].rsplit("::", 1)[-1])
                x = x.a[0].strip()
            while x.k in ("ref", "deref", "cast"):
                x = x.a[0]
            enum = F.adts[A("compression_enum")]
            discr = {int(v["discr"]): v["name"] for v in enum["variants"]}
            cb = F.by_path.get(clo.x.get("closure"), []) if clo.k == "agg" and clo.x.get("ak") == "closure" else []
            if x.k == "text" and x.x.get("bytes") is not None and x.x.get("elem_ty") == A("compression_enum") and enum.get("size") == 1 and len(cb) == 1 and len(clo.a) == 1 and clo.a[0].strip().k == "arg":
                p = cb[0].expr_at_return().strip()
                okp = False
                if p.k == "bin" and p.x["op"] == "Eq":
                    l, r = p.a
                    if not (strip_casts(l).strip().k == "discr"):
                        l, r = r, l
                    d = strip_casts(l).strip()
                    # (discr(*item) as u8) == captured value; the item is the closure's own parameter
                    okp = d.k == "discr" and d.a[0].strip().k == "arg" and d.a[0].strip().x["i"] == 2 and r.strip().k == "field" and r.strip().a[0].strip().k == "arg" and r.strip().a[0].strip().x["i"] == 1 \
                        and l.strip().k == "cast" and l.strip().x.get("to") == "u8"
                by = x.x["bytes"]
                if okp and len(set(by)) == len(by):
                    return {v: (discr.get(v, f"?tag-{v}") if v in by else None) for v in range(256)}
    return {x: "?shape" for x in range(256)}


def index_entry_values(F):
    """how offsets are turned into index-entry values (writer) and back (reader)"""
    w = []
    for p in (A("writer_insert"), A("writer_into_inner")):
        b = F.body(p)
        for s, c, t in calls(b, A("bw_insert")):
            a = b.arg_exprs(s)
            if is_self_field(a[0], "block_writer"):
                continue
            v = strip_casts(a[2]).strip()
            w.append((p.split("::")[-1], (conv_name(v.x.get("info") or {"path": v.x["path"]}) or v.x["path"].rsplit("impl ", 1)[-1]) if v.k == "call" else v.show()[:40]))
    r = []
    for b in F.user_bodies():
        if not b.path.startswith("reader::reader_cursor"):
            continue
        for s, c, t in b.calls():
            cv = int_conv(c) if c else None
            if cv and cv[2] == "read":
                r.append((b.path.split("::")[-1], conv_name(c)))
            for a_ in t["args"]:
                if a_.get("k") == "const" and "fn" in a_:
                    cv = int_conv(a_["fn"])
                    if cv and cv[2] == "read":
                        r.append((b.path.split("::")[-1], conv_name(a_["fn"])))
    return sorted(w), sorted(r)


def int_conv(info):
    """(integer type, endianness, 'read'|'write') of a bytes <-> integer conversion, whichever API spells it:
    uN::from_be_bytes / to_le_bytes, byteorder's ByteOrder::read_uN on a slice, ReadBytesExt::read_uN::<E> on a stream"""
    import re
    if not info:
        return None
    p = info.get("path", "")
    inst = info.get("inst", "") or ""
    last = p.rsplit("::", 1)[-1]
    m = re.match(r"(from|to)_(be|le|ne)_bytes$", last)
    if m:
        t = re.search(r"impl ([iu](?:8|16|32|64|128|size))>", p) or re.search(r"<([iu](?:8|16|32|64|128|size))>::", inst) or re.search(r"\b([iu](?:8|16|32|64|128|size))::", inst)
        return (t.group(1) if t else "?", m.group(2).upper(), "read" if m.group(1) == "from" else "write")
    m = re.match(r"(read|write)_([iu](?:16|24|32|48|64|128))(_into)?$", last)
    if m and "byteorder" in p:
        blob = inst + " " + " ".join(info.get("args", []))
        e = "BE" if ("BigEndian" in blob or "NetworkEndian" in blob) else ("LE" if "LittleEndian" in blob else ("NE" if "NativeEndian" in blob else "?"))
        return (m.group(2), e, m.group(1))
    return None


def conv_name(info):
    c = int_conv(info)
    return None if c is None else f"{c[0]} {c[1]}"


def module_of(path):
    """module part of a def path (`reader::reader_cursor` for `reader::reader_cursor::ReaderCursor::<R>::new`, also for
    `<reader::reader_cursor::X as Trait>::f`); paths are aligned with the pinned tree's module names by normalize.py,
    so a renamed file does not show here"""
    p = path
    if p.startswith("<"):
        p = p[1:].split(" as ")[0].lstrip("&").replace("mut ", "")
    out = []
    for x in p.split("::"):
        if not x or x[:1].isupper() or x.startswith(("<", "{", "(", "[", "'")) or "<" in x:
            break
        out.append(x)
    return "::".join(out)


def endianness_inventory(F):
    """every multi-byte integer <-> bytes conversion in library code: (module, function, "<type> <BE|LE|NE> <read|write>")"""
    out = []
    for b in F.user_bodies():
        for s, c, t in b.calls():
            if c is not None:
                cv = int_conv(c)
                if cv and cv[0] not in ("u8", "i8"):
                    out.append((module_of(b.path), b.path, " ".join(cv) + ("  _ne_bytes" if cv[1] == "NE" else "")))
            for a in t["args"]:
                if a.get("k") == "const" and "fn" in a:
                    cv = int_conv(a["fn"])
                    if cv:
                        out.append((module_of(b.path), b.path, " ".join(cv) + ("  _ne_bytes" if cv[1] == "NE" else "")))
        for s, st in b.sites():
            if s.i is not None and st["s"] == "assign":
                def walk(o):
                    if isinstance(o, dict):
                        if o.get("k") == "const" and "fn" in o:
                            cv = int_conv(o["fn"])
                            if cv:
                                out.append((module_of(b.path), b.path, " ".join(cv) + ("  _ne_bytes" if cv[1] == "NE" else "")))
                        for v in o.values():
                            walk(v)
                    elif isinstance(o, list):
                        for v in o:
                            walk(v)
                walk(st["rv"])
    return sorted(set(out))


def all_format_facts(F):
    return {
        "trailer_write": trailer_write(F),
        "trailer_read": trailer_read(F),
        "block_frame_write": block_frame_write(F),
        "block_frame_read": block_frame_read(F),
        "entry_frame_write": entry_frame_write(F),
        "entry_frame_read": entry_frame_read(F),
        "footer_write": footer_write(F),
        "footer_read": footer_read(F),
        "codec_ids": codec_ids(F),
        "from_u8": {k: v for k, v in from_u8_table(F).items() if v is not None},
        "index_entry_values": [sorted({x[1] for x in side}) for side in index_entry_values(F)],
        "endianness": sorted({(f.split("/")[-1], cv) for f, fn, cv in endianness_inventory(F)}),
        "consts": {k: F.const_int("metadata::" + k) for k in ("METADATA_V1_SIZE", "METADATA_V2_SIZE", "MAGIC_V1", "MAGIC_V2")},
    }


if __name__ == "__main__":
    import json, sys, os
    from . import factcache
    cfg = sys.argv[1] if len(sys.argv) > 1 else "default"
    F = Facts(factcache.gen(os.environ.get("VERIF_REPO", "/repo"), cfg))
    print(json.dumps(all_format_facts(F), indent=1, default=str))
