"""C08 — sorter spills: the enabling facts from which the memory / chunk-count bounds follow
(spill decision as an 8-row truth table, threshold semantics, doubling growth, chunk-merge trigger,
chunks only from the user's creator)."""
import itertools

from .common import *

PID = "C08"
META = {
    "explanation": "Static analysis of the sorter's spill control on the MIR of the current tree: the condition of Sorter::insert is evaluated symbolically over its three boolean atoms (fits, threshold_exceeded, allow_realloc) — all 8 rows — and must equal `no spill iff fits or (not exceeded and allow)`, with write_chunk preceding the insert on every spill row; the threshold compares buffer capacity with the configured budget, clamped from below; the buffer only grows by a constant factor 2 from the non-fitting branch of Entries::insert; after a spill the chunk-merge trigger is `chunks.len() >= max_nb_chunks` (clamped to >= 1) and a chunk merge drains all chunks and pushes one; the budget-related settings survive build() and chunk_creator(); every chunk pushed comes from exactly one ChunkCreator::create call and the Chunk type has no other constructor in generic code (parametricity: bounds are only Write+Seek+Read). The numeric high-water marks are not computed. A spill streams through the chunk Writer: its block-cut rules (shared with C15) and file-wellformedness rules (rules/shared.py) are re-run, since a Writer that never cuts a block buffers the whole chunk.",
    "assumptions": ["entries small relative to the budget (the statement's precondition)", "allocator returns what was requested"],
}


def run(ck):
    for cfg in ck.configs(quick=("default", "all", "none"), thorough=("default", "all", "none", "rel")):
        F = ck.facts(cfg)
        ck.guard("C08-R1", r1_spill_table, ck, F)
        ck.guard("C08-R2", r2_threshold, ck, F)
        ck.guard("C08-R2", r2_rounding, ck, F)
        ck.guard("C08-R3", r3_grow, ck, F)
        # a spill leaves the buffer empty: both counters zeroed (shared with C07-R2)
        from .c07 import r2_clear
        ck.guard("C08-R3", r2_clear, ck, F, "C08-R3")
        from . import shared
        # the chunk Writer cuts its blocks (what keeps a spill from buffering a whole chunk) and records them
        shared.block_cut(ck, F, "C08-R7")
        shared.file_wellformed(ck, F, "C08-R7")
        ck.guard("C08-R4", r4_chunk_cap, ck, F)
        ck.guard("C08-R5", r5_creator, ck, F)
        ck.guard("C08-R6", r6_plumb, ck, F)
    from . import witness
    ck.guard("C08-R5", witness.run, ck, "C08")
    ck.exhaustive = True
    ck.trusted += ["rustc MIR construction and type checking (parametricity of Sorter over CC::Chunk)", "std::cmp::max"]


def _atom(e):
    """classify a branch condition: ('fits'|'exceeded'|'allow', negated)"""
    neg = False
    while e.k == "un" and e.x["op"] == "Not":
        neg = not neg
        e = e.a[0]
    s = e.strip()
    if s.k == "call" and s.x["path"].endswith(A("entries_fits")):
        return "fits", neg, s
    ex = _exceeded(s)
    if ex is not None:
        return "exceeded", neg ^ ex, s
    if is_self_field(s, "allow_realloc"):
        return "allow", neg, s
    return None


def _exceeded(s):
    """the budget comparison (threshold_exceeded, spliced into Sorter::insert when it is a function of its own):
    `self.entries.memory_usage() >= self.dump_threshold` in any of its four spellings; returns False for the
    relation itself, True for its negation (`usage < threshold`), None for anything else (`>` / `<=` are off by one)"""
    if s.k != "bin" or s.x["op"] not in ("Ge", "Lt", "Le", "Gt"):
        return None
    x, y = s.a
    mu = lambda e: is_call(e, A("entries_memory")) and is_self_field(e.strip().a[0], "entries")
    th = lambda e: is_self_field(e, "dump_threshold")
    if mu(x) and th(y) and s.x["op"] in ("Ge", "Lt"):
        return s.x["op"] == "Lt"
    if th(x) and mu(y) and s.x["op"] in ("Le", "Gt"):
        return s.x["op"] == "Gt"
    return None


def simulate(b, assign, stop_pred):
    """walk the CFG from entry taking, at every switch on a known atom, the edge selected by
    `assign`; returns ('hit', site) at the first site satisfying stop_pred or ('stuck', why)"""
    bb = 0
    seen = set()
    order = []
    while True:
        if bb in seen:
            return "stuck", "cycle", order
        seen.add(bb)
        blk = b.blocks[bb]
        t = blk["term"]
        s = Site(bb, None)
        if t["t"] == "call":
            c = callee_of(t)
            r = stop_pred(s, c)
            if r:
                order.append((r, s))
                if r.startswith("END"):
                    return "hit", r, order
        if t["t"] == "switch":
            e = b.expr_of_operand(t["discr"], s)
            at = _atom(e)
            if at is None:
                cv = b._const_discr2(blk, t)
                if cv is not None:
                    tgt = t["otherwise"]
                    for av, tb in t["arms"]:
                        if int(av) == cv:
                            tgt = tb
                    bb = tgt
                    continue
                if bb in b.debug_assert_blocks():
                    # inside a debug_assert!: the assertion holds or the call panics — follow the edge that goes on
                    alive = [x for x in b.succs(bb) if not diverges(b, x)]
                    if len(alive) == 1:
                        bb = alive[0]
                        continue
                # `?` desugaring and Option matches between the atoms: follow Continue / Ok edge
                e2, enum, labels, oth = switch_on(b, bb)
                if enum == "std::ops::ControlFlow" and "Continue" in labels:
                    bb = labels["Continue"]
                    continue
                return "stuck", f"branch on {e.show()[:80]} at {b.loc(s)}", order
            name, neg, _ = at
            v = assign[name] ^ neg
            zero = [tb for x, tb in t["arms"] if int(x) == 0]
            bb = t["otherwise"] if v else zero[0]
            continue
        ss = b.succs(bb)
        if len(ss) != 1:
            return "stuck", f"no single successor at bb{bb}", order
        bb = ss[0]


def r1_spill_table(ck, F, R="C08-R1"):
    b = F.body(A("sorter_insert"))

    def stop(s, c):
        if call_matches(c, A("sorter_write_chunk")):
            return "spill"
        if call_matches(c, A("entries_insert")):
            return "END-insert"
        return None

    rows = []
    bad = []
    for fits, exc, allow in itertools.product((0, 1), repeat=3):
        st, why, order = simulate(b, {"fits": fits, "exceeded": exc, "allow": allow}, stop)
        want_spill = not (fits or ((not exc) and allow))
        if st != "hit":
            bad.append(((fits, exc, allow), why))
            rows.append({"fits": fits, "exceeded": exc, "allow_realloc": allow, "outcome": "?" + str(why)})
            continue
        seq = [x for x, s in order]
        got_spill = seq == ["spill", "END-insert"]
        ok_shape = seq in (["spill", "END-insert"], ["END-insert"])
        rows.append({"fits": fits, "exceeded": exc, "allow_realloc": allow, "outcome": "spill-then-insert" if got_spill else "insert"})
        if (got_spill != want_spill) or not ok_shape:
            bad.append(((fits, exc, allow), seq))
    ck.extra["spill_truth_table"] = rows
    ck.ob(R, "truth-table", not bad, "spill decision over (fits, threshold_exceeded, allow_realloc): no spill iff fits ∨ (¬exceeded ∧ allow); on every spill row write_chunk precedes the insert" + (f" — deviating rows: {bad}" if bad else " (8/8 rows)"), b, rows=rows)
    # atoms are the right ones
    fs = calls(b, A("entries_fits"))
    ck.exact(R, "fits() atoms", len(fs), 1, F.config)
    for s, c, t in fs:
        a = b.arg_exprs(s)
        ck.ob(R, "fits-on-callers-entry", is_self_field(a[0], "entries") and is_arg(a[1], "key") and is_arg(a[2], "val"), f"fits(self.entries, {a[1].show()}, {a[2].show()})", b, s)
    # every Ok exit is dominated by exactly one Entries::insert with the caller's pair
    ins = calls(b, A("entries_insert"))
    ck.exact(R, "Entries::insert sites in Sorter::insert", len(ins), 2, F.config)
    for s, c, t in ins:
        a = b.arg_exprs(s)
        ck.ob(R, "insert-callers-entry", is_self_field(a[0], "entries") and is_arg(a[1], "key") and is_arg(a[2], "val"), "the entry inserted is the caller's (key, val)", b, s)
    oks = [s for s, k, p in ok_return_sites(b)]
    ins_bbs = [i.bb for i, _, _ in ins]
    reach = reachable_without(b, banned_blocks=ins_bbs)
    no_bypass = bool(oks) and not any(o.bb in reach for o in oks)
    no_double = not any(x.bb in b.reachable_from(y.bb) for x, _, _ in ins for y, _, _ in ins)
    ck.ob(R, "every-ok-path-inserts-once", no_bypass and no_double, "every path to a success exit passes exactly one Entries::insert (nothing lost, nothing doubled)", b)
    wc = calls(b, A("sorter_write_chunk"))
    ck.exact(R, "write_chunk sites in Sorter::insert", len(wc), 1, F.config)
    if wc:
        spill_ins = [i for i, _, _ in ins if b.dominates(wc[0][0], i)]
        ck.ob(R, "spill-before-insert", len(spill_ins) == 1, "on the spill path write_chunk()? dominates the insert of the new entry (the buffer is emptied first)", b, wc[0][0])
        from .errflow import propagated
        ck.ob(R, "spill-error-propagated", propagated(F, b, wc[0][0]), "write_chunk's error is propagated", b, wc[0][0])


def r2_threshold(ck, F, R="C08-R2"):
    te = F.body(A("sorter_insert"))
    atoms = []
    for bb in sorted(te.normal_blocks()):
        t = te.term(bb)
        if t["t"] == "switch":
            at = _atom(te.expr_of_operand(t["discr"], Site(bb, None)))
            if at and at[0] == "exceeded":
                atoms.append(at[2])
    ck.ob(R, "exceeded-relation", len(atoms) == 1, f"Sorter::insert compares the budget once: {[a.show()[:80] for a in atoms]} (expected memory_usage() >= dump_threshold, or its negation `<`)", te)
    mu = F.body(A("entries_memory"))
    e = mu.expr_at_return()
    ck.ob(R, "memory-usage-is-capacity", is_call(e, "::len") and is_self_field(e.strip().a[0], "buffer"), f"memory_usage = {e.show()} (the buffer's allocated length)", mu)
    sb = A("sorter_builder")
    mn = F.const_int("sorter::MIN_SORTER_MEMORY")
    ini = F.const_int("sorter::INITIAL_SORTER_VEC_SIZE")
    dft = F.const_int("sorter::DEFAULT_SORTER_MEMORY")
    ck.ob(R, "constants-ordered", 0 < ini <= mn <= dft, f"INITIAL_SORTER_VEC_SIZE={ini} <= MIN_SORTER_MEMORY={mn} <= DEFAULT_SORTER_MEMORY={dft}", config=F.config)
    st = field_stores(F, sb, "dump_threshold")
    ck.exact(R, "stores to SorterBuilder.dump_threshold", len(st), 1, F.config)
    for b, site, s in st:
        e = b._expr_of_def((site, "assign", s["rv"]))
        ok = is_call(e, "cmp::max") and sorted([is_arg(x, "memory") for x in e.a]) == [False, True] and mn in [const_val(x) for x in e.a]
        ck.ob(R, "threshold-clamped", ok, f"dump_threshold := {e.show()} (max(arg, MIN_SORTER_MEMORY))", b, site)
    for b, site, rv in aggregates(F, sb):
        if b.path.endswith("::new"):
            ck.ob(R, "default-threshold", const_val(agg_field_expr(b, site, rv, "dump_threshold")) == dft and const_val(agg_field_expr(b, site, rv, "allow_realloc")) == 1, "defaults: dump_threshold = DEFAULT_SORTER_MEMORY, allow_realloc = true", b, site)
    bld = F.body(A("sorter_build"))
    wc = calls(bld, A("entries_with_cap"))
    ck.exact(R, "Entries::with_capacity sites in build", len(wc), 1, F.config)
    for s, c, t in wc:
        cap = bld.arg_exprs(s)[0]
        comps = cap.a if cap.k == "phi" else [cap]
        vals = sorted(("const", const_val(x)) if const_val(x) is not None else ("field", is_self_field(x, "dump_threshold")) for x in comps)
        ok = vals == [("const", ini), ("field", True)]
        # which one under which flag value
        okf = False
        for bb in sorted(bld.normal_blocks()):
            tt = bld.term(bb)
            if tt["t"] == "switch" and is_self_field(bld.expr_of_operand(tt["discr"], Site(bb, None)), "allow_realloc"):
                zero = [tb for v, tb in tt["arms"] if int(v) == 0][0]
                one = tt["otherwise"]
                d, _ = bld.defs()
                capl = cap.x.get("l", bld.at(s)["args"][0]["pl"]["l"])
                for ds, k, p in d.get(capl, []):
                    ex = bld._expr_of_def((ds, k, p))
                    if const_val(ex) == ini and bld.dominates(one, ds.bb):
                        okf = True
                    if const_val(ex) == ini and bld.dominates(zero, ds.bb):
                        okf = False
        ck.ob(R, "initial-capacity", ok and okf, f"capacity = {cap.show()} (INITIAL_SORTER_VEC_SIZE when reallocation is allowed, else the whole budget)", bld, s)


def _double_or_required(F, rb, size):
    """new size = max(2 * buffer.len(), required) where `required` is — at every call site when it is a parameter —
    what the buffer holds plus the entry being inserted plus a constant: growth stays geometric and is never more than
    what repeated doubling would have reached"""
    from . import fmt
    e = size.strip()
    if not (is_call(e, "cmp::max") and len(e.a) == 2):
        return False, ""
    dbl = [x for x in e.a if (lambda c_: bool(c_ and c_[0] == "Mul" and 2 in (const_val(c_[1]), const_val(c_[2])) and any(is_call(y, "::len") and is_self_field(y.strip().a[0], "buffer") for y in (c_[1], c_[2]))))(checked(x))]
    oth = [x for x in e.a if x not in dbl]
    if len(dbl) != 1 or len(oth) != 1:
        return False, ""

    def bounded(cb, x):
        def sym(y):
            if is_self_field(y, "entries_len"):
                return "e"
            if is_self_field(y, "bounds_count"):
                return "c"
            if y.k == "call" and y.x["path"].endswith("::len") and y.a and y.a[0].strip().k == "arg" and y.a[0].strip().x["name"] in ("key", "data"):
                return "k_" + y.a[0].strip().x["name"]
            if y.k == "call" and y.x["path"].endswith("::len") and y.a and is_self_field(y.a[0], "buffer"):
                return "L"
            if y.k == "call" and y.x["path"].endswith("Entries::estimated_entries_memory_usage"):
                return "u"
            if y.k == "call" and y.x["path"].endswith("Entries::entry_size"):
                return "z"
            return None
        f = fmt.linform(x, sym)
        if f is None:
            return False
        lim = {"e": 1, "c": 16, "k_key": 2, "k_data": 2, "L": 1, "u": 1, "z": 1, 1: 64}
        return all(k in lim and 0 <= v <= lim[k] for k, v in f.items()) and f.get("L", 0) + f.get("u", 0) + f.get("e", 0) <= 1
    x = oth[0].strip()
    if x.k == "arg":
        pi = x.x["i"]
        sites = [(cb, g) for cb in F.user_bodies() for g, c2, t2 in calls(cb, A("entries_realloc"))]
        ok = bool(sites) and all(bounded(cb, cb.arg_exprs(g)[pi - 1]) for cb, g in sites)
    else:
        ok = bounded(rb, x)
    return ok, "the larger of twice the current buffer and what the contents plus the new entry need"


def r2_rounding(ck, F, R="C08-R2"):
    """the buffer actually allocated exceeds the size asked for by less than one EntryBound: the request is rounded up
    to the next multiple of size_of::<EntryBound>() and by nothing else (a next-power-of-two rounding turns a 10 MiB
    fixed budget into a 16 MiB buffer)"""
    nb = F.body(A("aligned_new"))
    sz = F.adts[A("entry_bound")].get("size")
    rounds = []
    other = []
    for s, c, t in nb.calls():
        last = callee_name(c).rsplit("::", 1)[-1]
        if last in ("checked_next_multiple_of", "next_multiple_of"):
            a = nb.arg_exprs(s)
            rounds.append(const_val(a[1]) == sz)
        elif "next_power_of_two" in last or last in ("pow", "checked_pow", "shl", "checked_shl"):
            other.append(last)
    ck.ob(R, "allocation-rounding", rounds == [True] and not other, f"EntryBoundAlignedBuffer::new rounds the requested size up to a multiple of {sz} only (roundings: {len(rounds)}, other size transformations: {other})", nb)


def r3_grow(ck, F, R="C08-R3"):
    ent = A("entries_struct")
    st = field_stores(F, ent, "buffer")
    ck.ob(R, "buffer-writers", [b.path for b, s, x in st] == [A("entries_realloc")], f"Entries.buffer is reassigned only in reallocate_buffer ({[b.path for b, s, x in st]})", config=F.config)
    rb = F.body(A("entries_realloc"))
    nb = calls(rb, A("aligned_new"))
    ck.exact(R, "allocations in reallocate_buffer", len(nb), 1, F.config)
    for s, c, t in nb:
        c_ = checked(rb.arg_exprs(s)[0])
        ok = bool(c_ and c_[0] == "Mul" and const_val(c_[2]) == 2 and is_call(c_[1], "::len") and is_self_field(c_[1].strip().a[0], "buffer"))
        how = "exactly twice the current buffer"
        if not ok and rb.arg_exprs(s)[0].strip().k == "arg":
            # the size is a parameter: every caller must pass the current length doubled a whole number of times
            # (a variable that starts as buffer.len() and is only ever multiplied by two)
            pi = rb.arg_exprs(s)[0].strip().x["i"]
            sites = [(cb, g) for cb in F.user_bodies() for g, c2, t2 in calls(cb, A("entries_realloc"))]
            ok = bool(sites)
            for cb, g in sites:
                ok = ok and _doubled_length(cb, cb.arg_exprs(g)[pi - 1], g)
            how = "the current length doubled one or more times, computed by the caller"
        if not ok:
            ok2, how2 = _double_or_required(F, rb, rb.arg_exprs(s)[0])
            if ok2:
                ok, how = True, how2
        ck.ob(R, "doubling", ok, f"new buffer size = {rb.arg_exprs(s)[0].show()} ({how})", rb, s)
    for b, site, x in st:
        e = b._expr_of_def((site, "assign", x["rv"]))
        ck.ob(R, "new-buffer-installed", nb and e.strip().k == "call" and e.strip().x.get("site") == nb[0][0], "the doubled buffer replaces the old one", b, site)
    callers = sorted({b.path for b in F.user_bodies() for s, c, t in calls(b, A("entries_realloc"))})
    ck.ob(R, "realloc-callers", callers == [A("entries_insert")], f"reallocate_buffer is called only from Entries::insert ({callers})", config=F.config)
    ei = F.body(A("entries_insert"))
    fs = calls(ei, A("entries_fits"))
    rc = calls(ei, A("entries_realloc"))
    ok = False
    if fs and len(rc) == 1:
        for f_ in fs:
            ed = bool_edges(ei, value_site=f_[0])
            a = ei.arg_exprs(f_[0])
            if ed is not None and ei.dominates(ed[2], rc[0][0].bb) and not ei.dominates(ed[1], rc[0][0].bb) and is_arg(a[0], "self") and is_arg(a[1], "key") and is_arg(a[2], "data"):
                ok = True
        fs = [f_ for f_ in fs if ei.dominates(f_[0], rc[0][0])][:1] or fs[:1]
    ck.ob(R, "grow-only-when-not-fitting", ok, "Entries::insert reallocates only on the `!fits(key, data)` edge", ei)
    rec = calls(ei, A("entries_insert"))
    ok = len(rec) == 1 and rc and ei.dominates(rc[0][0], rec[0][0])
    if ok:
        a = ei.arg_exprs(rec[0][0])
        ok = is_arg(a[0], "self") and is_arg(a[1], "key") and is_arg(a[2], "data")
    how = "recursive call with the same (key, data)"
    if not ok and not rec and len(fs) == 1 and len(rc) == 1:
        # loop form: `while !self.fits(key, data) { self.reallocate_buffer() }` then the store — after
        # growing, control can only continue through the same fits(self, key, data) test
        fbb, rbb = fs[0][0].bb, rc[0][0].bb
        same_loop = any(fbb in blks and rbb in blks for _, blks in ei.loops())
        rets = set(ei.return_blocks())
        escapes = rets & reachable_without(ei, banned_blocks={fbb}, start=rbb) if rbb != fbb else rets
        ok = same_loop and not escapes
        how = "the growth is inside the loop that re-tests fits(self, key, data); no path from it reaches the end of insert without that test"
    if not ok and not rec and len(rc) == 1:
        # single growth straight to a size that fits: the linear analysis proves, on the path through the
        # reallocation, that the entry fits (remaining >= its size and one aligned bound slot is free)
        from . import bufarith
        okf, whyf = bufarith.fits_after_growth(F)
        if okf:
            ok, how = True, whyf
    ck.ob(R, "retry-same-entry", ok, "after growing, the same (key, data) is inserted again — " + how, ei)
    for b, s, rv in aggregates(F, ent):
        e = agg_field_expr(b, s, rv, "buffer")
        ck.ob(R, "initial-buffer", b.path == A("entries_with_cap") and is_call(e, A("aligned_new")) and is_arg(e.strip().a[0], "capacity") and const_val(agg_field_expr(b, s, rv, "entries_len")) == 0 and const_val(agg_field_expr(b, s, rv, "bounds_count")) == 0,
              "with_capacity allocates exactly the requested capacity and starts empty", b, s)


def r4_chunk_cap(ck, F):
    R = "C08-R4"
    b = F.body(A("sorter_insert"))
    mc = calls(b, A("sorter_merge_chunks"))
    wc = calls(b, A("sorter_write_chunk"))
    ck.exact(R, "merge_chunks sites in Sorter::insert", len(mc), 1, F.config)
    if mc and wc:
        guard = None
        for site, st in b.sites():
            if site.i is not None and st["s"] == "assign" and st["rv"]["rv"] == "bin" and st["rv"]["op"] in ("Ge", "Gt", "Le", "Lt", "Eq", "Ne"):
                e = b._expr_of_def((site, "assign", st["rv"]))
                x, y, op = e.a[0], e.a[1], BINCMP[e.x["op"]]
                if is_self_field(x, "max_nb_chunks"):
                    x, y, op = y, x, FLIP[op]
                if is_call(x, "::len") and is_self_field(x.strip().a[0], "chunks") and is_self_field(y, "max_nb_chunks"):
                    guard = (site, op)
        ok = guard is not None and guard[1] == ">="
        ck.ob(R, "merge-trigger-relation", ok, f"chunk merge is triggered by `chunks.len() {guard[1] if guard else '?'} max_nb_chunks` (must be >=: a count that overshoots is still merged)", b, guard[0] if guard else None)
        if guard:
            ed = bool_edges(b, value_site=guard[0])
            ok = ed is not None and b.dominates(ed[1], mc[0][0].bb) and not b.dominates(ed[2], mc[0][0].bb) and b.dominates(wc[0][0], guard[0])
            ck.ob(R, "merge-trigger-placement", ok, "the trigger is evaluated after every spill and its true edge reaches merge_chunks", b, guard[0])
            if ed is not None:
                # ... unconditionally: once the count is reached nothing else (a size test, a flag) can skip the merge
                reach = reachable_without(b, banned_blocks=[mc[0][0].bb], start=ed[1]) if ed[1] != mc[0][0].bb else set()
                skipped = [r for r in b.return_blocks() if r in reach]
                ck.ob(R, "merge-trigger-is-the-only-condition", not skipped, "every path from the trigger's true edge to a return passes merge_chunks (no second condition between the count test and the merge)", b, guard[0])
        from .errflow import propagated
        ck.ob(R, "merge-error-propagated", propagated(F, b, mc[0][0]), "merge_chunks' error is propagated", b, mc[0][0])
    st = field_stores(F, A("sorter_builder"), "max_nb_chunks")
    ck.exact(R, "stores to SorterBuilder.max_nb_chunks", len(st), 1, F.config)
    mn = F.const_int("sorter::MIN_NB_CHUNKS")
    for bb, site, s in st:
        e = bb._expr_of_def((site, "assign", s["rv"]))
        ok = is_call(e, "cmp::max") and mn in [const_val(x) for x in e.a] and any(is_arg(x, "nb_chunks") for x in e.a) and mn >= 1
        ck.ob(R, "max-chunks-clamped", ok, f"max_nb_chunks := {e.show()} (max(arg, MIN_NB_CHUNKS = {mn}))", bb, site)
    m = F.body(A("sorter_merge_chunks"))
    dr = [s for s, c, t in calls(m, "Vec::<T, A>::drain") if is_self_field(m.arg_exprs(s)[0], "chunks")]
    ok = len(dr) == 1 and m.arg_exprs(dr[0])[1].k == "agg" and "RangeFull" in (m.arg_exprs(dr[0])[1].x.get("adt") or "")
    ck.ob(R, "merge-drains-all", ok, "merge_chunks drains every chunk (chunks.drain(..))", m)
    ps = [s for s, c, t in calls(m, "Vec::<T, A>::push") if is_self_field(m.arg_exprs(s)[0], "chunks")]
    ck.ob(R, "merge-pushes-one", len(ps) == 1 and not m.in_loop(ps[0].bb) and dr and m.dominates(dr[0], ps[0]), "and pushes exactly one merged chunk afterwards", m)
    w = F.body(A("sorter_write_chunk"))
    ps = [s for s, c, t in calls(w, "Vec::<T, A>::push") if is_self_field(w.arg_exprs(s)[0], "chunks")]
    ck.ob(R, "spill-pushes-one", len(ps) == 1 and not w.in_loop(ps[0].bb), "write_chunk pushes exactly one chunk", w)
    # nothing else grows the chunk vector
    growers = sorted({bb.path for bb in F.user_bodies() for s, c, t in bb.calls() if callee_name(c).rsplit("::", 1)[-1] in ("push", "extend", "insert", "append", "extend_from_slice") and bb.arg_exprs(s) and is_self_field(bb.arg_exprs(s)[0], "chunks")})
    ck.ob(R, "chunk-vector-growers", growers == sorted([A("sorter_write_chunk"), A("sorter_merge_chunks")]), f"chunks grows only in {growers}", config=F.config)


def r5_creator(ck, F):
    R = "C08-R5"
    tr = F.traits.get("sorter::ChunkCreator")
    if not ck.ob(R, "trait-present", tr is not None, "ChunkCreator trait found", config=F.config, nontrivial=False):
        return
    ch = [i for i in tr["items"] if i["name"] == "Chunk"]
    bounds = sorted(b for b in (ch[0].get("bounds", []) if ch else []))
    names = sorted({x.rsplit(": ", 1)[-1] for x in bounds})
    allowed = {"std::io::Write", "std::io::Seek", "std::io::Read", "std::marker::Sized", "std::marker::MetaSized"}
    extra = [n for n in names if n not in allowed]
    ck.ob(R, "chunk-has-no-constructor-bound", not extra and {"std::io::Write", "std::io::Seek", "std::io::Read"} <= set(names), f"ChunkCreator::Chunk is bounded by {names} only — generic sorter code cannot construct a chunk except through create()" + (f"; extra bounds {extra}" if extra else ""), config=F.config)
    for p in (A("sorter_write_chunk"), A("sorter_merge_chunks")):
        b = F.body(p)
        cr = calls(b, "ChunkCreator::create")
        ps = [s for s, c, t in calls(b, "Vec::<T, A>::push") if is_self_field(b.arg_exprs(s)[0], "chunks")]
        ok = len(cr) == 1 and len(ps) == 1 and b.dominates(cr[0][0], ps[0]) and not b.in_loop(cr[0][0].bb) and is_self_field(b.arg_exprs(cr[0][0])[0], "chunk_creator")
        ck.ob(R, f"one-create-per-chunk/{p.split('::')[-1]}", ok, "exactly one self.chunk_creator.create() call dominates the push of the new chunk", b)
        if ok:
            pushed = b.arg_exprs(ps[0])[1]
            ck.ob(R, f"pushed-chunk-is-created-chunk/{p.split('::')[-1]}", any(x.k == "call" and x.x.get("site") == cr[0][0] for x in pushed.walk()), "the chunk pushed is the one create() returned (after being written and flushed)", b, ps[0])
    others = sorted({b.path for b in F.user_bodies() for s, c, t in calls(b, "ChunkCreator::create") if b.path not in (A("sorter_write_chunk"), A("sorter_merge_chunks")) and not b.path.startswith("<")})
    ck.ob(R, "no-other-create-site", not others, f"no other library code creates chunks ({others})", config=F.config, nontrivial=False)


def r6_plumb(ck, F, R="C08-R6"):
    """the budget-related settings survive build() and chunk_creator() unchanged"""
    sb, so = A("sorter_builder"), A("sorter_struct")
    fields = [f["name"] for f in F.adts[sb]["variants"][0]["fields"]]
    cc = F.body(A("sorter_chunk_creator"))
    for b, s, rv in aggregates(F, sb):
        if b.path != cc.path:
            continue
        for fld in fields:
            e = agg_field_expr(b, s, rv, fld)
            ok = is_arg(e, "creation") if fld == "chunk_creator" else is_self_field(e, fld)
            ck.ob(R, f"chunk_creator-keeps/{fld}", ok, f"chunk_creator(): {fld} := {e.show()}", b, s)
    bld = F.body(A("sorter_build"))
    rename = {"merge_function": "merge"}
    for b, s, rv in aggregates(F, so):
        if b.path != bld.path:
            continue
        for fld in rv["fields"]:
            e = agg_field_expr(b, s, rv, fld)
            if fld in ("chunks", "entries", "chunks_total_size"):
                continue
            ck.ob(R, f"build-keeps/{fld}", is_self_field(e, rename.get(fld, fld)), f"build(): Sorter.{fld} := {e.show()}", b, s)
    from .c03 import mutated_fields
    mf = mutated_fields(F, so)
    cfg_fields = {"allow_realloc", "dump_threshold", "max_nb_chunks"}
    ck.ob(R, "budget-settings-immutable", not (cfg_fields & set(mf)), f"Sorter's budget settings are never modified after build ({sorted(cfg_fields & set(mf))})", config=F.config)


def _doubled_length(b, e, at):
    """e (evaluated at site `at` of body b) is self.buffer.len() multiplied by two a whole number of times: either
    `len * 2`, or a variable whose definitions are `buffer.len()` and `itself * 2` (checked) only"""
    c_ = checked(e)
    if c_ and c_[0] == "Mul" and const_val(c_[2]) == 2 and is_call(c_[1], "::len") and is_self_field(c_[1].strip().a[0], "buffer"):
        return True
    s = e.strip()
    alts = flat_alts(s) if s.k == "phi" else [s]
    base = [x for x in alts if is_call(x, "::len") and is_self_field(x.strip().a[0], "buffer")]
    rest = [x for x in alts if x not in base]
    if len(base) != 1 or not rest:
        return False
    for x in rest:
        y = x.strip()
        inner = None
        if y.k == "call" and y.x["path"].rsplit("::", 1)[-1] in ("expect", "unwrap") and y.a and y.a[0].strip().k == "call" and y.a[0].strip().x["path"].endswith("checked_mul"):
            inner = y.a[0].strip()
            if const_val(inner.a[1]) != 2:
                return False
            src = inner.a[0]
        else:
            c2 = checked(y)
            if not (c2 and c2[0] == "Mul" and const_val(c2[2]) == 2):
                return False
            src = c2[1]
        # the multiplied value is the variable itself (a cycle) or the base length
        ok = any(w.k == "var" for w in src.walk()) or (is_call(src, "::len") and is_self_field(src.strip().a[0], "buffer")) or src.strip().k == "phi"
        if not ok:
            return False
    return True
