"""origin — interprocedural value-origin tracing (the ORIGIN primitive of the design).

`origins(F, body, expr, binding)` follows a value backwards to the places it can come from:
through borrows / copies / joins, through parameters into the actual arguments of the crate's
call sites (or, under a `binding`, of one given call site: one level of context), through fields
of the crate's structs into everything ever stored into that field (struct literals and field
assignments, crate-wide, flow-insensitively), through struct literals that are visible (a field of
a literal is that literal's operand) and through calls of local functions into what they return.
It stops at constants, unit variants, parameters of functions nobody in the crate calls (the
public API: "param:<fn>#<name>") and anything it cannot see through ("opaque:...").

Rules use it for *plumbing* properties — "the codec handed to compress() at this write site is the
one the builder was configured with" — by comparing origin sets for equality, so it does not matter
whether a value travels as two scalars, inside a small struct, through a helper or a getter."""
from .mirlib import Expr
from .common import aggregates, field_stores, agg_field_expr, calls as calls_of

MAXD = 14


class Tracer:
    def __init__(self, F, stop_at=()):
        self.F = F
        self.stop_at = set(stop_at)      # functions whose parameters are terminals by decree (configuration entry points)
        self._sites = None
        self._fieldcache = {}

    # ---- call sites of local functions
    def call_sites(self, path):
        if self._sites is None:
            self._sites = {}
            for b in self.F.user_bodies():
                for s, c, t in b.calls():
                    if c is not None:
                        self._sites.setdefault(c["path"], []).append((b, s))
        return self._sites.get(path, [])

    def _grouped(self):
        """{(outer adt, group field): (group struct, {sub field: flattened field})} — see normalize.py"""
        if not hasattr(self, "_gr"):
            self._gr = {(p, f): (sty, m) for p, f, sty, m, tys in (self.F.raw.get("_grouped") or [])}
        return self._gr

    # ---- everything stored into <adt>.<field>
    def field_values(self, adt, field):
        key = (adt, field)
        if key not in self._fieldcache:
            vals = []
            for b, s, rv in aggregates(self.F, adt):
                if field in (rv.get("fields") or []):
                    vals.append((b, agg_field_expr(b, s, rv, field)))
            for b, site, st in field_stores(self.F, adt, field):
                if site.i is not None and st.get("s") == "assign":
                    vals.append((b, b._expr_of_def((site, "assign", st["rv"]))))
                else:
                    vals.append((b, Expr("unknown")))
            self._fieldcache[key] = vals
        return self._fieldcache[key]

    # ---- root values
    def roots(self, b, e, binding=None, depth=0, seen=frozenset()):
        """list of (body, expr, binding) the value of e can be: aggregates, constants, terminal
        parameters, opaque expressions"""
        if depth > MAXD:
            return [(b, Expr("unknown"), None)]
        e = e.strip()
        k = e.k
        if k == "phi":
            out = []
            for c in e.a:
                out += self.roots(b, c, binding, depth + 1, seen)
            return out
        if k == "cast" and e.a:
            # a cast does not change where the value comes from (`x as u8`, pointer casts)
            if e.a[0].strip().k == "discr":
                return self.roots(b, e.a[0].strip().a[0], binding, depth + 1, seen)
            return self.roots(b, e.a[0], binding, depth + 1, seen)
        if k == "arg":
            i = e.x["i"]
            key = ("arg", b.path, i, id(binding) if binding else 0)
            if key in seen:
                return []
            seen = seen | {key}
            if binding is not None and binding[0] == b.path:
                cb, cs, outer = binding[1], binding[2], binding[3]
                acts = cb.arg_exprs(cs)
                if i - 1 < len(acts):
                    return self.roots(cb, acts[i - 1], outer, depth + 1, seen)
                return [(b, Expr("unknown"), None)]
            sites = self.call_sites(b.path)
            if not sites or b.path in self.stop_at:
                return [(b, e, None)]
            out = []
            f = self.F.fns.get(b.path)
            if f is not None and f.get("pub"):
                out.append((b, e, None))      # callers outside the crate can pass anything
            for cb, cs in sites:
                acts = cb.arg_exprs(cs)
                if i - 1 < len(acts):
                    out += self.roots(cb, acts[i - 1], None, depth + 1, seen)
            return out
        if k == "field":
            adt = e.x.get("adt", "")
            name = e.x.get("name")
            out = []
            for rb, r, rbind in self.roots(b, e.a[0], binding, depth + 1, seen):
                rs = r.strip()
                g = self._grouped().get((rs.x.get("adt"), rs.x.get("name"))) if rs.k == "field" else None
                if g is not None and adt == g[0] and name in g[1] and rs.a:
                    # `x.group` handed on whole and `.sub` taken at the other end: the field `x.<flattened name>`
                    flat = Expr("field", [rs.a[0]], name=g[1][name], adt=rs.x.get("adt"), idx=None, ty="")
                    out += self.roots(rb, flat, rbind, depth + 1, seen)
                    continue
                if rs.k == "agg" and rs.x.get("ak") in ("adt", "tuple", "closure"):
                    flds = rs.x.get("fields") or []
                    if name in flds:
                        out += self.roots(rb, rs.a[flds.index(name)], rbind, depth + 1, seen)
                        # ... or anything assigned to that field of such a value afterwards (`self.compression.type_ = x`
                        # after `compression: Compression { type_: None, .. }`): flow-insensitive, crate-wide
                        if rs.x.get("ak") == "adt" and adt in self.F.adts and self.F.adts[adt]["kind"] == "Struct":
                            key = ("fieldstore", adt, name)
                            if key not in seen:
                                for vb, site, st in field_stores(self.F, adt, name):
                                    if site.i is not None and st.get("s") == "assign":
                                        out += self.roots(vb, vb._expr_of_def((site, "assign", st["rv"])), None, depth + 1, seen | {key})
                        continue
                    if rs.x.get("ak") == "tuple" and e.x.get("idx", 99) < len(rs.a):
                        out += self.roots(rb, rs.a[e.x["idx"]], rbind, depth + 1, seen)
                        continue
                if (adt, name) in self._grouped():
                    # a group of flattened fields read whole: stays symbolic until a component is taken from it
                    out.append((rb, Expr("field", [r], name=name, adt=adt, idx=None, ty=""), rbind))
                    continue
                # the object is not a visible literal: everything ever stored into that field
                if adt in self.F.adts and self.F.adts[adt]["kind"] == "Struct":
                    key = ("field", adt, name)
                    if key in seen:
                        continue
                    vals = self.field_values(adt, name)
                    if not vals:
                        out.append((rb, Expr("text", t=f"{adt}.{name} (never stored)", ty=""), None))
                    for vb, v in vals:
                        out += self.roots(vb, v, None, depth + 1, seen | {key})
                else:
                    out.append((rb, e, None))
            return out
        if k == "call":
            path = e.x["path"]
            cands = self.F.by_path.get(path, [])
            site = e.x.get("site")
            if len(cands) == 1 and site is not None and cands[0].kind in ("Fn", "AssocFn"):
                g = cands[0]
                key = ("call", path)
                if key in seen:
                    return [(b, e, None)]
                nb = (g.path, b, site, binding)
                return self.roots(g, g.expr_at_return(), nb, depth + 1, seen | {key})
            return [(b, e, None)]
        return [(b, e, None)]

    def origins(self, b, e, binding=None):
        out = set()
        for rb, r, _ in self.roots(b, e, binding):
            out.add(describe(rb, r))
        return out

    def binding_for(self, callee_path, caller, site, outer=None):
        return (callee_path, caller, site, outer)


def describe(b, r):
    rs = r.strip()
    if rs.k == "const":
        return f"const:{rs.x['v']}"
    if rs.k == "agg" and rs.x.get("ak") == "adt" and not rs.a:
        return f"variant:{rs.x.get('adt')}::{rs.x.get('variant')}"
    if rs.k == "arg":
        return f"param:{b.path}#{rs.x.get('name') or rs.x['i']}"
    if rs.k == "call":
        return f"call:{rs.x['path']}"
    if rs.k == "agg":
        return f"literal:{rs.x.get('what')}"
    return "opaque:" + rs.show()[:60]
