"""C13 — opening never panics and accepts exactly byte strings ending in a valid trailer:
Reader::new touches its input only through a fixed, loop-free sequence of seeks and fixed-width
reads, so its behaviour is a finite decision structure."""
from .common import *
from . import fmt
from .c01 import r5_finish_order
from .c09 import tup

PID = "C13"
META = {
    "explanation": "Static analysis on the MIR of the current tree (default, all-features, release-like): the call-graph closure of Reader::new is computed over resolved callees; inside it there is no loop, no recursion, no block load, no explicit panic, no bounds check, every overflow assertion constant-folds without overflow, and every external callee is on a short allowlist of panic-free std/byteorder functions or is the user's own Read+Seek; the acceptance decision is decoded into a table — magic read as u32 LE at End(-4), exactly two accepted values, everything else InvalidFormatVersion; the record at End(-(size+4)) with read widths summing to size; codec id accepted iff from_u8 is Some (exactly 0..=5); every rejection exit is one of those or a propagated I/O error, and nothing else rejects; the trailer (magic last) is the last thing a writer emits. Fixtures prove the panic detectors fire. Behaviour of the user's Seek for out-of-range negative offsets is std's contract (Cursor/File return Err). On the producing side: the sink adapter writes everything and counts what was accepted, and a writer reporting success has flushed the sink (shared with C11 / C12).",
    "assumptions": ["Seek::seek(SeekFrom::End(-n)) fails when n exceeds the length (std Cursor / File)", "byteorder read_* panics never (uses read_exact)"],
}

ALLOW_EXTERNAL = (
    "std::io::Seek::seek", "byteorder::ReadBytesExt::read_u8", "byteorder::ReadBytesExt::read_u32", "byteorder::ReadBytesExt::read_u64",
    "std::option::Option::<T>::ok_or", "std::result::Result::<T, E>::map", "std::mem::size_of",
    "<std::result::Result<T, E> as std::ops::Try>::branch", "<std::result::Result<T, F> as std::ops::FromResidual<std::result::Result<std::convert::Infallible, E>>>::from_residual",
    "std::convert::From::from", "std::convert::Into::into",
)
MAY_PANIC_LAST = {"unwrap", "expect", "unwrap_err", "expect_err", "index", "index_mut", "copy_from_slice", "clone_from_slice", "split_at", "split_at_mut", "swap", "remove", "insert", "drain", "unwrap_unchecked", "split_off", "truncate_front"}


def run(ck):
    for cfg in ck.configs(quick=("default", "all", "rel"), thorough=("default", "all", "rel", "none")):
        F = ck.facts(cfg)
        ck.guard("C13-R1", r1_panic_free, ck, F)
        ck.guard("C13-R3", r3_accept_table, ck, F)
        ck.guard("C13-R4", r4_trailer_last, ck, F)
        from . import shared
        # a writer that reports success has handed every byte, trailer included, to the sink and flushed it
        from .c11 import r1_write_all, r2_count_accepted
        from .c12 import r6_flush
        ck.guard("C13-R4", r1_write_all, ck, F, "C13-R4")
        ck.guard("C13-R4", r2_count_accepted, ck, F, "C13-R4")
        ck.guard("C13-R4", r6_flush, ck, F)
    from . import fixtures
    ck.guard("C13-R1", fixtures.run, ck, "C13")
    ck.trusted += ["rustc MIR construction", "std Seek semantics for negative end-relative offsets", "byteorder"]


def panic_sources(F, b, fold_consts=True):
    """(kind, site, detail) for everything in body b that can panic by itself"""
    out = []
    for s, t in b.sites():
        if s.i is not None:
            continue
        if t["t"] == "assert":
            kind = t["kind"]
            if fold_consts and (kind.startswith("Overflow") or kind == "OverflowNeg"):
                sets = [fmt.fold_set(b.expr_of_operand(o, s)) for o in t["ops"]]
                if all(o is not None for o in sets):
                    import itertools
                    tys = [o.get("ty") or (o.get("pl") or {}).get("ty", "") for o in t["ops"]]
                    if all(_no_overflow(kind, list(combo), tys) for combo in itertools.product(*sets)):
                        continue
            if kind in ("MisalignedPointerDereference", "NullPointerDereference") or "Pointer" in kind:
                continue  # debug-build pointer checks inserted by rustc on raw derefs (vec! internals)
            out.append((kind.split("(")[0] if not kind.startswith("Overflow") else "Overflow", s, kind))
        elif t["t"] == "call":
            c = callee_of(t)
            n = callee_name(c)
            if t["target"] is None:
                mac = b.macros_at(s)
                out.append(("explicit-panic", s, f"{n} {mac}"))
            elif c is not None and n.rsplit("::", 1)[-1] in MAY_PANIC_LAST and not c["local"]:
                out.append(("may-panic-call", s, n))
    return out


def _no_overflow(kind, ops, tys):
    ty = (tys[0] or "").strip()
    bits = {"i8": 8, "i16": 16, "i32": 32, "i64": 64, "isize": 64, "u8": 8, "u16": 16, "u32": 32, "u64": 64, "usize": 64, "i128": 128, "u128": 128}.get(ty)
    if bits is None:
        return False
    signed = ty.startswith("i")
    lo, hi = (-(1 << (bits - 1)), (1 << (bits - 1)) - 1) if signed else (0, (1 << bits) - 1)
    if kind == "OverflowNeg":
        v = -ops[0]
    elif "Add" in kind:
        v = ops[0] + ops[1]
    elif "Sub" in kind:
        v = ops[0] - ops[1]
    elif "Mul" in kind:
        v = ops[0] * ops[1]
    elif "Shl" in kind or "Shr" in kind:
        return 0 <= ops[1] < bits
    else:
        return False
    return lo <= v <= hi


def closure_of(F, root):
    """local bodies reachable from `root` through resolved calls, fn references and closures;
    returns (bodies, external callee names, recursive flag)"""
    seen = {}
    ext = {}
    work = [root]
    rec = False
    while work:
        p = work.pop()
        if p in seen:
            continue
        bs = F.by_path.get(p, [])
        if len(bs) != 1:
            ext.setdefault(p, []).append("?")
            continue
        b = bs[0]
        seen[p] = b
        for cl in F.closures_of(p):
            work.append(cl.path)
        refs = []
        for s, c, t in b.calls():
            if c is None:
                ext.setdefault("<indirect>", []).append(b.loc(s))
                continue
            refs.append((c, b.loc(s)))
            for a in t["args"]:
                if a.get("k") == "const" and "fn" in a:
                    refs.append((a["fn"], b.loc(s)))
        for c, where in refs:
            n = callee_name(c)
            local = c.get("resolved_local", c["local"]) if "resolved" in c else c["local"]
            if local and n in F.by_path:
                if n == p or n in seen:
                    if n == p:
                        rec = True
                work.append(n)
            else:
                ext.setdefault(n if "resolved" in c else c["path"], []).append(where)
    return seen, ext, rec


def r1_panic_free(ck, F):
    R = "C13-R1"
    root = A("reader_new")
    bodies, ext, rec = closure_of(F, root)
    ck.extra.setdefault("open_closure", {})[F.config] = sorted(bodies)
    ck.floor(R, "bodies in the closure of Reader::new", len(bodies), 3, F.config)
    need = {A("reader_new"), A("meta_read"), A("from_u8")}
    ck.ob(R, "closure-contains-trailer-reader", need <= set(bodies), f"closure of Reader::new = {sorted(x.split('::')[-1] for x in bodies)}", config=F.config, nontrivial=False)
    npan = nasrt = 0
    for p, b in sorted(bodies.items()):
        ps = panic_sources(F, b)
        for kind, s, detail in ps:
            npan += 1
            ck.ob(R, f"panic-source/{p}/{kind}", False, f"{kind} in the open path: {detail} (src: {b.src_at(s)[:70]})", b, s)
        nasrt += sum(1 for s, t in b.sites() if s.i is None and t["t"] == "assert")
        ck.ob("C13-R2", f"loop-free/{p}", not b.loops(), f"{p.split('::')[-1]} has no loop", b)
    ck.ob(R, "no-panic-source-in-open-path", npan == 0, f"{len(bodies)} bodies, {nasrt} assert terminators (all constant-folded), 0 explicit panics, 0 bounds checks, 0 may-panic std calls", config=F.config)
    if F.config != "rel":
        ck.floor(R, "overflow assertions discharged by constant folding", nasrt, 2, F.config)   # 5 on the pinned tree (one per footer-size computation)
    ck.ob("C13-R2", "no-recursion", not rec, "no recursion in the open path", config=F.config)
    bad = sorted(n for n in ext if not _allowed(n))
    ck.ob(R, "external-callees-allowlisted", not bad, f"external callees of the open path: {sorted(ext)}" + (f" — not on the panic-free allowlist: {bad}" if bad else ""), config=F.config)
    loads = [n for n in list(bodies) + list(ext) if n.endswith(A("block_new")) or n.endswith(A("decompress")) or n.endswith(A("block_read_from"))]
    ck.ob("C13-R2", "no-block-load-at-open", not loads, "opening reads no block (only the trailer)", config=F.config)


# documented never-panicking std functions (total on every input), by last path segment within a family
_TOTAL_STD = (
    ("core::slice::<impl [T]>::", {"get", "first", "last", "len", "is_empty", "iter", "split_first", "split_last", "as_ptr"}),
    ("std::option::Option::<&T>::", {"copied", "cloned"}),
    ("std::option::Option::<T>::", {"ok_or", "ok_or_else", "map", "and_then", "filter", "is_some", "is_none", "as_ref", "unwrap_or", "unwrap_or_default", "or", "xor", "zip", "copied", "cloned"}),
    ("std::result::Result::<T, E>::", {"map", "map_err", "and_then", "ok", "is_ok", "is_err", "or_else"}),
    # iterator adapters and searches that cannot panic by themselves (their closures are bodies of the open path and
    # are inspected like any other); `sum`/`product` (overflow), `step_by` (zero step) and `nth`-style indexing stay out
    ("std::iter::Iterator::", {"copied", "cloned", "find", "find_map", "position", "any", "all", "enumerate", "rev", "map", "filter", "next", "zip", "take", "skip", "chain", "last"}),
    ("std::iter::IntoIterator::", {"into_iter"}),
)


def _allowed(n):
    if n in ALLOW_EXTERNAL:
        return True
    for pre, lasts in _TOTAL_STD:
        if n.startswith(pre) and n[len(pre):].split("::")[0] in lasts:
            return True
    if n.startswith("std::convert::num::<impl std::convert::From<") and n.endswith(">::from"):
        return True     # lossless integer widening
    if n.startswith("<R as ") or n.startswith("<&mut R as ") or n.startswith("std::io::Seek::") or n.startswith("byteorder::ReadBytesExt::read_"):
        return n.rsplit("::", 1)[-1] in ("seek", "read_u8", "read_u32", "read_u64", "read_exact")
    if n.endswith("Try>::branch") or n.endswith("::from_residual") or n.endswith("From<std::io::Error>>::from"):
        return True
    return False


def reader_new_is_trailer_read(ck, F, R):
    """Reader::new is the trailer read and nothing else: no second validation step can accept or reject a file
    (shared with C10-R3: an extra check written for the current trailer size is how V1 files stop opening)"""
    rn = F.body(A("reader_new"))
    cs = [callee_name(c) for s, c, t in rn.calls()]
    rd = [s for s, c, t in calls(rn, A("meta_read"))]
    other = [n for n in cs if n != A("meta_read") and not n.endswith("Result::<T, E>::map") and not n.endswith("Try>::branch") and not n.endswith("::from_residual")]
    from .errflow import propagated
    ck.ob(R, "reader-new-is-trailer-read", len(rd) == 1 and not other and not rn.loops() and propagated(F, rn, rd[0]) and is_arg(rn.arg_exprs(rd[0])[0], "reader"), f"Reader::new = Metadata::read_from(&mut reader) with its error propagated and nothing else ({cs})", rn)


def r3_accept_table(ck, F):
    R = "C13-R3"
    fm = anchors()["format"]
    b = F.body(A("meta_read"))
    r = fmt.trailer_read(F)
    mt = r["magic_table"]
    ck.ob(R, "magic-position", tup(r["magic_seek"]) == ("End", -4) and tup(r["magic_read"]) == (4, "LE") and r["magic_read_after_seek"], f"magic = u32 LE at {r['magic_seek']}", b)
    acc = {k: v for k, v in mt.items() if k != "otherwise"}
    ck.ob(R, "magic-accepts-exactly-two", acc == {fm["magic_v1"]: "FormatV1", fm["magic_v2"]: "FormatV2"} and "InvalidFormatVersion" in str(mt.get("otherwise")), f"accepted magics {acc}; every other value -> {mt.get('otherwise')} (equality switch, not a range)", b)
    for ver, size in (("FormatV1", fm["meta_v1_size"]), ("FormatV2", fm["meta_v2_size"])):
        a = r.get(ver, {})
        seq = [tuple(x) for x in a.get("seq", []) if tuple(x) != ("seek",)]
        ck.ob(R, f"full-record/{ver}", tup(a.get("seek")) == ("End", -(size + 4)) and sum(x[0] for x in seq) == size, f"{ver}: record of {sum(x[0] for x in seq)} bytes read at {a.get('seek')} — succeeds only if the full {size + 4}-byte trailer is present", b)
    for ver in ("FormatV1", "FormatV2"):
        fl = r.get(ver, {}).get("fields", {})
        ck.ob(R, f"codec-validated-by-from_u8/{ver}", tup(fl.get("compression_type", ())) == ("read", 1, ("from_u8",)), f"{ver}: the codec is exactly the Some payload of from_u8(<2nd byte group read>) — an id from_u8 does not know cannot be accepted ({fl.get('compression_type')})", b)
    t = fmt.from_u8_table(F)
    ok_ids = sorted(k for k, v in t.items() if v is not None)
    ck.ob(R, "codec-ids-accepted", ok_ids == [0, 1, 2, 3, 4, 5], f"from_u8 accepts exactly {ok_ids}", F.body(A("from_u8")))
    fu = F.body(A("from_u8"))
    ck.ob(R, "from_u8-total", not panic_sources(F, fu) and not fu.loops(), "from_u8 is a total, loop-free table (no indexing, no arithmetic)", fu)
    # rejection exits: `?` on seek / read / ok_or, or the magic otherwise-arm; nothing else.  Exits are
    # the alternatives of the returned value; a `?` applied to a value whose construction is visible
    # (the result of a helper spliced into read_from) stands for that value's own error alternatives.
    def classify(e, depth=0):
        out = []
        for alt in flat_alts(e):
            if alt.k == "agg" and alt.x.get("variant") == "Ok":
                out.append(("ok", alt))
            elif alt.k == "agg" and alt.x.get("variant") == "Err":
                out.append(("explicit", alt.a[0].show()))
            elif alt.k == "call" and alt.x["path"].endswith("::from_residual"):
                # the residual may itself be a join (several `?` of a spliced helper funnelled into one exit)
                for res in (flat_alts(alt.a[0]) if alt.a else [alt]):
                    br = [x for x in res.walk() if x.k == "call" and x.x["path"].endswith("Try>::branch")]
                    inner = br[0].a[0] if br else None
                    st = inner.strip() if inner is not None else None
                    if st is not None and st.k == "call" and st.x["path"].endswith("::from_residual") and depth < 4:
                        out += [x for x in classify(st, depth + 1) if x[0] != "ok"]     # `?` on a value that itself came out of a `?`
                    elif st is not None and st.k == "agg" and st.x.get("variant") == "Err" and depth < 4:
                        out.append(("explicit", st.a[0].show()))
                    elif st is not None and st.k == "call":
                        out.append(("q", st.x["path"].rsplit("::", 1)[-1]))
                    elif inner is not None and depth < 4 and st.k in ("phi", "agg"):
                        out += [x for x in classify(inner, depth + 1) if x[0] != "ok"]
                    else:
                        out.append(("q", "?"))
            else:
                out.append(("other", alt.show()[:80]))
        return out
    exits = classify(b.expr_at_return())
    kinds = [x[1] for x in exits if x[0] == "q"]
    allowed = {"seek", "read_u8", "read_u32", "read_u64", "ok_or"}
    ck.ob(R, "rejections-are-io-or-codec", set(kinds) <= allowed, f"`?` rejections come from {sorted(set(kinds))}", b)
    ck.floor(R, "`?` rejection exits in read_from", len(kinds), 7, F.config)   # 13 on the pinned tree; 7 = one version's worth
    explicit = [x[1] for x in exits if x[0] == "explicit"]
    ck.ob(R, "only-explicit-rejection-is-bad-magic", "error::Error::InvalidFormatVersion{}" in explicit and set(explicit) <= {"error::Error::InvalidFormatVersion{}", "error::Error::InvalidCompressionType{}"}, f"explicit Err exits: {explicit} (expected InvalidFormatVersion for an unknown magic and nothing but InvalidCompressionType for an unknown codec id besides)", b)
    other = [x[1] for x in exits if x[0] == "other"]
    ck.ob(R, "exits-are-ok-err-or-question-mark", not other, f"every exit of read_from is Ok(Metadata{{..}}), `?` on an I/O or codec-id step, or the bad-magic Err" + (f" — other: {other}" if other else ""), b)
    oks = [x for x in exits if x[0] == "ok"]
    ck.floor(R, "Ok exits of read_from", len(oks), 1, F.config)
    # Reader::new adds nothing
    reader_new_is_trailer_read(ck, F, R)
    # every decision in read_from is about the magic just read, the version it denotes or the codec id: nothing
    # else (a length, another byte, a flag) can make a trailer accepted or rejected
    mread = [s for s, c, t in b.calls() if c and c["path"].endswith("read_u32")]
    other = []
    nmagic = nver = 0
    for bb in sorted(b.normal_blocks()):
        t = b.term(bb)
        if t["t"] != "switch":
            continue
        e, enum, labels, oth = switch_on(b, bb)
        if enum == "std::ops::ControlFlow":
            continue
        leaves = [x for x in e.walk() if x.k == "call" and not x.x["path"].endswith(("Try>::branch", "::from_residual"))]
        about_magic = bool(mread) and any(x.x.get("site") == mread[0] for x in leaves) and all(x.x.get("site") == mread[0] or x.x["path"].endswith(("::ok_or", "::ok_or_else")) for x in leaves)
        about_codec = any(x.x["path"].endswith(A("from_u8")) for x in leaves) and all(x.x["path"].endswith((A("from_u8"), "read_u8", "::ok_or", "::ok_or_else")) for x in leaves)
        about_version = (enum or "").endswith("FileVersion") or (not leaves and all(y.k != "arg" for y in e.walk()))
        if about_magic:
            nmagic += 1
        elif about_version:
            nver += 1
        elif not about_codec:
            other.append(e.show()[:60])
    ck.ob(R, "no-other-decision", not other and nmagic >= 1, f"decisions in read_from besides `?`: {nmagic} on the magic, {nver} on the version, the rest on the codec id" + (f" — others: {other}" if other else ""), b)


def r4_trailer_last(ck, F):
    R = "C13-R4"
    r5_finish_order(ck, F, R)
    w = fmt.trailer_write(F)
    for ver, d in w.items():
        seq = d["seq"]
        ck.ob(R, f"magic-last/{ver}", bool(seq) and seq[-1][0] == 4 and isinstance(seq[-1][2], int) and all(len(x) == 3 for x in seq), f"{ver}: the magic is the last of {len(seq)} writes in write_into", F.body(A("meta_write")))
