"""C17-R10 — the size arithmetic of the sorter's two-ended buffer (sorter::Entries) never overflows.

Invariant  I:  entries_len + 16 * bounds_count <= buffer.len()      (16 = size_of::<EntryBound>())

(1) I holds after every mutator of (buffer, entries_len, bounds_count) given it held before;
(2) at every checked +, -, * site of Entries' methods and closures the operation cannot overflow,
    by a linear certificate from: I, the facts established by dominating branches (asserts, the
    `fits` test), the allocation cap (len <= isize::MAX), and the content invariant of stored bounds
    (key_start <= entries_len at insertion time, key_start >= key_length + data_length).
Expressions are linearised from the MIR; a site that is not linear is reported (fails closed)."""
from .common import *
from .fmt import fold
from . import linarith as LA

SCOPE = ("sorter::Entries::",)
FIELDS = {"entries_len": "A", "bounds_count": "N"}
BIG = 2**62
U32 = 2**32 - 1


class Ctx:
    def __init__(self, F, b):
        self.F = F
        self.b = b
        self.notes = []
        self.extra_facts = []
        self.is_closure = b.kind == "Closure"
        self._stores = None
        self.loopvars = set()
        self.callee_facts = []

    # ---- field values at a site
    def stores(self):
        if self._stores is None:
            out = {}
            for site, st in self.b.sites():
                if site.i is not None and st["s"] == "assign" and st["pl"]["p"]:
                    last = st["pl"]["p"][-1]
                    if isinstance(last, dict) and last.get("adt") == A("entries_struct") and last.get("name") in FIELDS:
                        out.setdefault(last["name"], []).append(site)
            self._stores = out
        return self._stores

    def field_value(self, name, at, depth=0):
        """linear form of self.<name> as seen at site `at`"""
        sym = FIELDS[name]
        sts = [s for s in self.stores().get(name, []) if at is not None and self.b.dominates(s, at) and s != at]
        others = [s for s in self.stores().get(name, []) if s not in sts and at is not None and s != at and (at.bb in self.b.reachable_from(s.bb) or (s.bb == at.bb and s.key() < at.key()))]
        if others:
            self.notes.append(f"conditional store to {name} reaches {self.b.loc(at)}")
            return None
        if not sts or depth > 4:
            return {sym: 1}
        last = max(sts, key=lambda s: len(self.b.dominators().get(s.bb, ())) * 10000 + s.key()[1])
        st = self.b.at(last)
        e = self.b._expr_of_def((last, "assign", st["rv"]))
        return self.lin(e, last, depth + 1)

    # ---- linearisation
    def lin(self, e, at, depth=0):
        k = fold(e)
        if k is not None:
            return LA.const(k)
        s = e.strip()
        if s.k == "cast":
            return self.lin(s.a[0], at, depth)
        if s.k == "field" and s.x["name"] == "0" and s.a[0].k == "bin":
            s = s.a[0]
        if s.k == "field":
            nm = s.x["name"]
            base = s.a[0].strip()
            if nm in FIELDS and base.k == "arg" and s.x.get("adt") == A("entries_struct"):
                site = at
                return self.field_value(nm, site, depth)
            if s.x.get("adt") == A("aligned_buffer") and is_self_field(base, "buffer") and self._is_bound_capacity_field(nm):
                # a field of the buffer set once, at allocation, to len / size_of::<EntryBound>()
                self.extra_facts += [{"L": 1, "Q": -16}, {"Q": 16, 1: 15, "L": -1}]
                return {"Q": 1}
            if s.x.get("adt") == A("entry_bound") and nm in ("key_start", "key_length", "data_length"):
                return {{"key_start": "ks", "key_length": "kl", "data_length": "dl"}[nm]: 1}
            return None
        if s.k == "phi":
            forms = [self.lin(x, at, depth) for x in s.a]
            if forms and all(f is not None and f == forms[0] for f in forms):
                return forms[0]
            # a loop-carried size variable: some non-negative value; what is known about it comes from the
            # branch conditions on it (used only while the variable is not redefined, see _stable)
            l = s.x.get("l", -1)
            if isinstance(l, int) and l > self.b.arg_count and self.b.local_ty(l) == "usize":
                self.loopvars.add(l)
                return {f"v{l}": 1}
            return None
        if s.k == "call" and s.a and s.x["path"].rsplit("::", 1)[-1] in ("expect", "unwrap") and "option::Option" in s.x["path"]:
            inner = s.a[0].strip()
            if inner.k == "call" and len(inner.a) == 2 and inner.x["path"].rsplit("::", 1)[-1] in ("checked_add", "checked_sub", "checked_mul") and "num::" in inner.x["path"]:
                # the None case panics: on the continuing path the value is the exact result
                op = {"checked_add": "Add", "checked_sub": "Sub", "checked_mul": "Mul"}[inner.x["path"].rsplit("::", 1)[-1]]
                return self.lin(Expr("bin", [inner.a[0], inner.a[1]], op=op, site=inner.x.get("site", at)), at, depth)
        if s.k == "bin" and s.x["op"] == "Div":
            # buffer.len() / size_of::<EntryBound>(): the number Q of whole bounds, 16 Q <= L < 16 Q + 16
            num = self.lin(s.a[0], s.x.get("site", at), depth)
            den = fold(s.a[1])
            if num == {"L": 1} and den == 16:
                self.extra_facts += [{"L": 1, "Q": -16}, {"Q": 16, 1: 15, "L": -1}]
                return {"Q": 1}
            return None
        if s.k == "bin":
            op = s.x["op"].replace("WithOverflow", "")
            a, b_ = self.lin(s.a[0], s.x.get("site", at), depth), self.lin(s.a[1], s.x.get("site", at), depth)
            if a is None or b_ is None:
                return None
            if op == "Add":
                return LA.add(a, b_)
            if op == "Sub":
                return LA.add(a, b_, -1)
            if op == "Mul":
                if set(a) <= {1}:
                    return LA.scale(b_, a.get(1, 0))
                if set(b_) <= {1}:
                    return LA.scale(a, b_.get(1, 0))
            return None
        if s.k == "call":
            p = s.x["path"]
            last = p.rsplit("::", 1)[-1]
            if last == "len":
                inner = s.a[0].strip()
                if is_self_field(inner, "buffer"):
                    return {"L": 1}
                if inner.k == "arg" and inner.x["name"] in ("key", "data"):
                    return {"k" if inner.x["name"] == "key" else "d": 1}
                if inner.k == "field" and inner.a[0].strip().k == "arg" and inner.x.get("adt") == "closure":
                    return {"T": 1}  # the captured tail slice
                if inner.k == "field" and inner.x["name"] == "1" and is_call(inner.a[0], "::align_to"):
                    src = inner.a[0].strip().a[0]
                    if is_self_field(src, "buffer"):
                        self.extra_facts += [{"L": 1, "Q": -16}, {"Q": 16, 1: 15, "L": -1}]
                        return {"Q": 1}
                if is_call(inner, A("aligned_new")) or (inner.k == "call" and inner.x["path"].endswith(A("aligned_new"))):
                    req = self.lin(inner.strip().a[0], inner.strip().x.get("site", at), depth)
                    if req is not None:
                        # EntryBoundAlignedBuffer::new(x).len() = x rounded up to a multiple of 16 (C17-R9)
                        self.extra_facts += [LA.add({"L2": 1}, req, -1), LA.add(LA.add(req, LA.const(15)), {"L2": 1}, -1)]
                        return {"L2": 1}
                return None
            if p.endswith(A("entries_memory")) and is_arg(s.a[0], "self"):
                return {"L": 1}
            if last in ("max", "min") and ("cmp::" in p or "Ord" in p) and len(s.a) == 2:
                # max(a, b) is some value m with m >= a and m >= b (min: m <= a, m <= b)
                x, y = self.lin(s.a[0], s.x.get("site", at), depth), self.lin(s.a[1], s.x.get("site", at), depth)
                if x is None or y is None:
                    return None
                sym = f"m{s.x.get('site')}"
                sg = 1 if last == "max" else -1
                self.extra_facts += [LA.scale(LA.add({sym: 1}, x, -1), sg), LA.scale(LA.add({sym: 1}, y, -1), sg)]
                return {sym: 1}
            # small pure helpers of Entries: evaluate their return expression under the current field values
            if p.startswith("sorter::Entries::") and self.F.has_body(p) and depth < 3:
                cb = self.F.body(p)
                if p.endswith("::entry_size"):
                    okargs = [x.strip().k == "arg" and x.strip().x["name"] in ("key", "data") for x in s.a]
                    if not all(okargs):
                        return None
                sub = Ctx(self.F, cb)
                # the callee sees the caller's current field values
                sub._fixed = {n: self.field_value(n, s.x.get("site", at), depth) for n in FIELDS}
                r = sub.lin_fixed(cb.expr_at_return(), depth + 1)
                self.extra_facts += sub.extra_facts
                return r
            return None
        if s.k == "arg" and self.is_closure:
            return None
        if s.k == "arg" and s.x.get("ty") == "usize":
            return {"p_" + (s.x.get("name") or str(s.x["i"])): 1}     # an unsigned parameter: some value >= 0
        return None

    def _is_bound_capacity_field(self, name):
        F = self.F
        ags = aggregates(F, A("aligned_buffer"))
        if len(ags) != 1 or field_stores(F, A("aligned_buffer"), name) or field_stores(F, A("aligned_buffer"), "len"):
            return False
        b_, s_, rv = ags[0]
        if name not in rv["fields"] or "len" not in rv["fields"]:
            return False
        e = agg_field_expr(b_, s_, rv, name).strip()
        ln = agg_field_expr(b_, s_, rv, "len")
        return e.k == "bin" and e.x["op"] == "Div" and e.a[0].strip().ident() == ln.strip().ident() and fold(e.a[1]) == 16

    def lin_fixed(self, e, depth):
        """linearise inside a pure helper whose field reads are the caller's current values"""
        fixed = self._fixed
        outer = self

        class Sub(Ctx):
            def field_value(self2, name, at, depth=0):
                return fixed[name]
        sub = Sub(self.F, self.b)
        r = sub.lin(e, None, depth)
        self.extra_facts += sub.extra_facts
        return r

    # ---- facts from dominating branches
    def path_facts(self, at):
        facts = []
        b = self.b
        for bb in sorted(b.normal_blocks()):
            t = b.term(bb)
            if t["t"] != "switch" or bb == at.bb:
                continue
            zero = [tb for v, tb in t["arms"] if int(v) == 0]
            if not zero or len(t["arms"]) != 1:
                continue
            f_t, t_t = zero[0], t["otherwise"]
            dt = b.dominates(t_t, at.bb) and len(b.preds(t_t)) == 1
            df = b.dominates(f_t, at.bb) and len(b.preds(f_t)) == 1
            if dt == df:
                continue
            e = b.expr_of_operand(t["discr"], Site(bb, None))
            new = self.cond_facts(e, dt, Site(bb, None))
            tgt = t_t if dt else f_t
            new = [f for f in new if all(self._stable(int(k[1:]), tgt, at) for k in f if isinstance(k, str) and k.startswith("v") and k[1:].isdigit())]
            facts += new
        return facts

    def _stable(self, l, from_bb, at):
        """local l is not redefined on any path from block from_bb to the site `at`"""
        b = self.b
        ds = b.defs()[0].get(l, [])
        reach = b.reachable_from(from_bb) | {from_bb}
        for site, kind, payload in ds:
            if site.bb in reach and (at.bb in b.reachable_from(site.bb) or (site.bb == at.bb and site.key() < at.key())) and site.bb != from_bb:
                return False
            if site.bb == from_bb and (at.bb in b.reachable_from(site.bb) or site.bb == at.bb):
                return False
        return True

    # ---- case split over a growth that may or may not have happened before `at`
    def alternatives(self, at):
        """fact sets, one per way control can have reached `at`: ordinarily one; two when `at` lies after the
        join of `if !self.fits(..) { <grow the buffer> }` — either the entry fitted (the facts of `fits`), or the
        buffer was replaced by a call to reallocate_buffer whose argument bounds the new length from below"""
        b = self.b
        base = global_facts(self) + self.path_facts(at)
        grow = [s for s, c, t in calls(b, A("entries_realloc")) if at.bb in b.reachable_from(s.bb) and not b.dominates(s, at)]
        if len(grow) != 1:
            return [base + self.extra_facts]
        g = grow[0]
        # the branch that decides between growing and not growing
        sw = None
        for bb in sorted(b.normal_blocks()):
            t = b.term(bb)
            if t["t"] != "switch" or not b.dominates(bb, at.bb) or not b.dominates(bb, g.bb) or bb == g.bb:
                continue
            zero = [tb for v, tb in t["arms"] if int(v) == 0]
            if not zero or len(t["arms"]) != 1:
                continue
            f_t, t_t = zero[0], t["otherwise"]
            if b.dominates(t_t, g.bb) != b.dominates(f_t, g.bb) and not b.dominates(t_t, at.bb) and not b.dominates(f_t, at.bb):
                sw = (bb, t_t, f_t, b.dominates(t_t, g.bb))
        if sw is None:
            return [base + self.extra_facts]
        bb, t_t, f_t, grow_on_true = sw
        cond = b.expr_of_operand(b.term(bb)["discr"], Site(bb, None))
        skip = self.cond_facts(cond, not grow_on_true, Site(bb, None))
        # growth: the new buffer is at least as long as the argument of reallocate_buffer (C17-R10 summary of the callee)
        req = self.callee_request(g)
        if req is None:
            return [base + self.extra_facts]
        old = lambda f: {("L0" if k == "L" else k): v for k, v in f.items()}
        at_call = [old(f) for f in self.path_facts(g)]
        inv = [f for f in global_facts(self)]
        grown = inv + [old(f) for f in self.path_facts(at) if "L" not in f] + at_call + [LA.add({"L": 1}, old(req), -1)] + [old(f) for f in self.extra_facts] + [old(f) for f in getattr(self, "callee_facts", [])]
        return [base + skip + self.extra_facts, grown]

    def callee_request(self, g):
        """linear form (in the caller's symbols at call site g) of the size that reallocate_buffer asks the allocator for"""
        F, b = self.F, self.b
        rb = F.body(A("entries_realloc"))
        nb = calls(rb, A("aligned_new"))
        if len(nb) != 1:
            return None
        sub = Ctx(F, rb)
        req = sub.lin(rb.arg_exprs(nb[0][0])[0], nb[0][0])
        if req is None:
            return None
        args = b.arg_exprs(g)

        def subst(form):
            out = {}
            for k, v in form.items():
                if isinstance(k, str) and k.startswith("p_"):
                    nm = k[2:]
                    idx = [i for i in range(1, rb.arg_count + 1) if rb.arg_name(i) == nm]
                    if not idx or idx[0] - 1 >= len(args):
                        return None
                    a = self.lin(args[idx[0] - 1], g)
                    if a is None:
                        return None
                    out = LA.add(out, LA.scale(a, v))
                else:
                    out = LA.add(out, {k: v})
            return out
        out = subst(req)
        # what the callee knows about the symbols of its request (a `max(..)`, a rounding), in the caller's terms
        self.callee_facts = [f2 for f2 in (subst(f) for f in sub.extra_facts) if f2 is not None]
        return out

    def cond_facts(self, e, truth, at):
        neg = False
        while e.k == "un" and e.x["op"] == "Not":
            neg = not neg
            e = e.a[0]
        if neg:
            truth = not truth
        if e.k == "bin" and e.x["op"] in BINCMP:
            a, c = self.lin(e.a[0], e.x.get("site", at)), self.lin(e.a[1], e.x.get("site", at))
            if a is None or c is None:
                return []
            op = BINCMP[e.x["op"]]
            if not truth:
                op = {"<": ">=", "<=": ">", ">": "<=", ">=": "<", "==": "!=", "!=": "=="}[op]
            d = LA.add(a, c, -1)      # a - c
            r = LA.add(c, a, -1)      # c - a
            return {">=": [d], ">": [LA.add(d, LA.const(-1))], "<=": [r], "<": [LA.add(r, LA.const(-1))], "==": [d, r], "!=": []}[op]
        s = e.strip()
        if s.k == "call" and s.x["path"].endswith(A("entries_fits")) and truth:
            return fits_true_facts(self.F, self, s)
        return []


def fits_true_facts(F, caller_ctx, call_expr):
    """facts implied by `self.fits(key, data) == true`, expressed in the caller's current field values"""
    fb = F.body(A("entries_fits"))
    okargs = is_arg(call_expr.a[0], "self") and is_arg(call_expr.a[1], "key") and is_arg(call_expr.a[2], "data")
    if not okargs:
        return []
    sub = Ctx(F, fb)
    facts = []
    # every definition of the return value that is not the constant false: its own comparison plus
    # the branch conditions that dominate it
    d, _ = fb.defs()
    trues = []
    for site, kind, payload in d.get(0, []):
        if kind != "assign":
            return []
        e = fb._expr_of_def((site, kind, payload))
        if fold(e) == 0:
            continue
        trues.append((site, e))
    if len(trues) != 1:
        return []
    site, e = trues[0]
    facts += sub.cond_facts(e, True, site)
    facts += sub.path_facts(site)
    facts += sub.extra_facts
    return facts


def global_facts(ctx):
    f = [
        {"L": 1, "A": -1, "N": -16},          # I
        {1: LA.MAXI, "L": -1},                 # a live allocation is at most isize::MAX bytes
        {1: BIG, "k": -1}, {1: BIG, "d": -1},  # two live slices fit in the address space (assumption)
    ]
    if ctx.is_closure:
        f += [{"T": 1, "ks": -1}, {"ks": 1, "kl": -1, "dl": -1}, {1: LA.MAXI, "T": -1}, {1: U32, "kl": -1}, {1: U32, "dl": -1}]
    return f


def run_rule(ck, F, R="C17-R10"):
    bodies = [b for b in F.user_bodies() if b.path.startswith(SCOPE)]
    ck.floor(R, "Entries bodies analysed", len(bodies), 10, F.config)
    nsites = 0
    for b in bodies:
        for s, t in b.sites():
            if s.i is None and t["t"] == "assert" and t["kind"].startswith("Overflow"):
                nsites += 1
                ctx = Ctx(F, b)
                ops = [b.expr_of_operand(o, s) for o in t["ops"]]
                forms = [ctx.lin(o, s) for o in ops]
                kind = t["kind"]
                key = f"{b.path.split('::', 1)[1]}/{kind}/{ops[0].show()[:30]}~{ops[-1].show()[:30]}"
                if any(f is None for f in forms):
                    ck.ob(R, f"not-linear/{key}", False, f"size arithmetic `{' , '.join(o.show()[:50] for o in ops)}` ({kind}) cannot be expressed over the buffer's symbols — unreviewed arithmetic on sizes {ctx.notes}", b, s)
                    continue
                if "Sub" in kind:
                    goal = LA.add(forms[0], forms[1], -1)
                    what = f"{LA.show(forms[0])} - ({LA.show(forms[1])}) >= 0"
                elif "Add" in kind:
                    goal = LA.add(LA.const(LA.MAXU), LA.add(forms[0], forms[1]), -1)
                    what = f"{LA.show(forms[0])} + {LA.show(forms[1])} <= usize::MAX"
                elif "Mul" in kind:
                    c0, c1 = forms[0], forms[1]
                    prod = LA.scale(c0, c1.get(1, 0)) if set(c1) <= {1} else (LA.scale(c1, c0.get(1, 0)) if set(c0) <= {1} else None)
                    if prod is None:
                        ck.ob(R, f"not-linear/{key}", False, "product of two non-constant sizes", b, s)
                        continue
                    goal = LA.add(LA.const(LA.MAXU), prod, -1)
                    what = f"{LA.show(prod)} <= usize::MAX"
                else:
                    continue
                alts = ctx.alternatives(s)
                certs = [LA.prove(goal, fs + ctx.extra_facts) for fs in alts]
                cert = certs[0] if all(c is not None for c in certs) else None
                ck.ob(R, f"no-overflow/{key}", cert is not None, f"{what}" + (f" — certificate: {len(cert) - 1} fact(s)" if cert else " — NOT derivable from the buffer invariant and the dominating checks: this operation can overflow/underflow"), b, s, goal=LA.show(goal))
    ck.floor(R, "checked arithmetic sites in Entries", nsites, 20 if F.config != "rel" else 0, F.config)
    # (1) the invariant is preserved by every mutator
    ins = F.body(A("entries_insert"))
    ctx = Ctx(F, ins)
    sts = ctx.stores()
    lastN = sts.get("bounds_count", [])
    if ck.ob(R, "insert-stores", len(sts.get("entries_len", [])) == 1 and len(lastN) == 1, "Entries::insert updates entries_len and bounds_count once each", ins):
        s = lastN[0]
        after = Site(s.bb, s.i + 1) if s.i is not None else s
        a_f = ctx.field_value("entries_len", after)
        n_f = ctx.field_value("bounds_count", after)
        ok = a_f is not None and n_f is not None
        cert = None
        if ok:
            goal = LA.add(LA.add({"L": 1}, a_f, -1), LA.scale(n_f, 16), -1)
            alts = ctx.alternatives(s)
            certs = [LA.prove(goal, fs + ctx.extra_facts) for fs in alts]
            cert = certs[0] if all(c is not None for c in certs) else None
        ck.ob(R, "invariant-preserved/insert", cert is not None, f"after insert: buffer.len() - ({LA.show(a_f) if a_f else '?'}) - 16*({LA.show(n_f) if n_f else '?'}) >= 0 follows from the invariant before and the `fits` test", ins, s)
        # increments
        ck.ob(R, "insert-increments", a_f == {"A": 1, "k": 1, "d": 1} and n_f == {"N": 1, 1: 1}, f"entries_len' = {LA.show(a_f) if a_f else '?'}, bounds_count' = {LA.show(n_f) if n_f else '?'}", ins, s)
    rb = F.body(A("entries_realloc"))
    ctx = Ctx(F, rb)
    bst = [(b_, s, st) for b_, s, st in field_stores(F, A("entries_struct"), "buffer")]
    ok = len(bst) == 1 and bst[0][0].path == rb.path
    cert = None
    if ok:
        b_, s, st = bst[0]
        e = rb._expr_of_def((s, "assign", st["rv"]))
        ln = ctx.lin(Expr("call", [e], path="core::slice::<impl [T]>::len", site=s), s)
        if ln is not None and not ctx.stores():
            goal = LA.add(LA.add(ln, {"A": 1}, -1), {"N": 16}, -1)
            cert = LA.prove(goal, global_facts(ctx) + ctx.extra_facts)
            if cert is None and any(isinstance(k, str) and k.startswith("p_") for f in ctx.extra_facts for k in f):
                # the new size is a parameter: the invariant is preserved if every caller asks for at least what is in use
                cert = ["at-call-sites"]
                for cb in F.user_bodies():
                    for g, c_, t_ in calls(cb, A("entries_realloc")):
                        cctx = Ctx(F, cb)
                        req = cctx.callee_request(g)
                        okc = None
                        if req is not None:
                            okc = LA.prove(LA.add(LA.add(req, {"A": 1}, -1), {"N": 16}, -1), global_facts(cctx) + cctx.path_facts(g) + cctx.extra_facts)
                        ck.ob(R, f"realloc-request-covers-contents/{cb.path.split('::')[-1]}", okc is not None, f"reallocate_buffer is asked for {LA.show(req) if req else '?'} bytes, at least entries_len + 16*bounds_count", cb, g)
                        if okc is None:
                            cert = None
    ck.ob(R, "invariant-preserved/reallocate_buffer", cert is not None, "after reallocate_buffer: new_len - entries_len - 16*bounds_count >= 0 (new_len >= 2 * old_len, counters untouched)", rb)
    cl = F.body(A("entries_clear"))
    ctx = Ctx(F, cl)
    end = Site(cl.return_blocks()[0], None)
    a_f, n_f = ctx.field_value("entries_len", end), ctx.field_value("bounds_count", end)
    ck.ob(R, "invariant-preserved/clear", a_f == {} and n_f == {}, "clear(): entries_len = bounds_count = 0", cl)
    for b_, s, rv in aggregates(F, A("entries_struct")):
        ck.ob(R, "invariant-established/with_capacity", const_val(agg_field_expr(b_, s, rv, "entries_len")) == 0 and const_val(agg_field_expr(b_, s, rv, "bounds_count")) == 0, "a new Entries has entries_len = bounds_count = 0", b_, s, nontrivial=False)
    # the mutators are the only writers (shared with C07-R2 / C08-R3)
    from .c03 import mutated_fields
    mf = mutated_fields(F, A("entries_struct"))
    who = {f: sorted({bb.path.split("::")[-1] for bb, s, st in lst if st}) for f, lst in mf.items()}
    ck.ob(R, "invariant-writers", who.get("entries_len") == ["clear", "insert"] and who.get("bounds_count") == ["clear", "insert"] and who.get("buffer") == ["reallocate_buffer"], f"the invariant's variables are written only by {who}", config=F.config)
    # content invariant of stored bounds: key_start := entries_len (after adding this entry)
    ag = [(s, rv) for b_, s, rv in aggregates(F, A("entry_bound")) if b_.path == ins.path]
    ok = len(ag) == 1
    if ok:
        s, rv = ag[0]
        c2 = Ctx(F, ins)
        ks = c2.lin(agg_field_expr(ins, s, rv, "key_start"), s)
        kl = c2.lin(agg_field_expr(ins, s, rv, "key_length"), s)
        dl = c2.lin(agg_field_expr(ins, s, rv, "data_length"), s)
        ok = ks == {"A": 1, "k": 1, "d": 1} and kl == {"k": 1} and dl == {"d": 1}
    ck.ob(R, "bound-content-invariant", ok, "each stored bound has key_start = entries_len after its entry (so key_start <= entries_len for ever, and key_start >= key_length + data_length), key_length = key.len(), data_length = data.len()", ins)
    others = sorted({b_.path for b_, s, rv in aggregates(F, A("entry_bound")) if b_.path != ins.path and not b_.is_derived()})
    ck.ob(R, "bounds-only-from-insert", not others, f"EntryBound values are built only in Entries::insert ({others})", config=F.config)


def fits_after_growth(F):
    """on the path of Entries::insert that goes through reallocate_buffer, at the point where the entry is stored:
    remaining() >= entry_size(key, data) and one more aligned bound slot exists — from the size the caller asked for"""
    ins = F.body(A("entries_insert"))
    ctx = Ctx(F, ins)
    st = ctx.stores().get("entries_len", [])
    if len(st) != 1:
        return False, "no single store to entries_len"
    alts = ctx.alternatives(st[0])
    if len(alts) != 2:
        return False, "the store is not after the join of a fits / grow decision"
    grown = alts[1]
    g1 = {"L": 1, "N": -16, "A": -1, 1: -16, "k": -1, "d": -1}
    c1 = LA.prove(g1, grown + ctx.extra_facts)
    g2 = {"L": 1, "N": -16, 1: -16}
    c2 = LA.prove(g2, grown + ctx.extra_facts)
    if c1 is None or c2 is None:
        return False, "the requested size does not provably cover the bounds, the stored entries and the new entry"
    return True, "the buffer is grown once to a size proven to hold the bounds, the stored entries and the new entry (linear certificate), so the entry is stored on that path without a second test"
