"""C15 — blocks are cut at the configured block size: the cut rule (tested after every insert
with >=, against the estimate of the writer just inserted into, for the data block and for every
index level more than one below the root), the clamp, the estimate's agreement with what finish
emits, and the reset of a flushed writer."""
from .common import *
from . import fmt
from .c01 import classify_block_writes

PID = "C15"
META = {
    "explanation": "Static analysis of the block cut rule on the MIR of the current tree: in Writer::insert every path from the data-block insert to a return passes the test `block_writer.current_size_estimate() >= self.block_size` (non-strict; same writer; field), whose true edge reaches the flush of that writer; the level loop applies the same test to each visited index writer and iterates last-to-first over index_block_writers[1..] (the constant 1: the root and the level directly below it are never cut during insert); block_size is clamped with max(MIN_BLOCK_SIZE = 1024, arg), has no other writer, and the sorter passes its setting through that setter; current_size_estimate = buffer.len() + index_offsets.len() * 8 + 4, exactly the widths finish() appends (u64 per offset, one u32 count); a flushed writer is emptied by the finished block's Drop before the next insert can see it. Physical sizes of compressed blocks are not decided. Entries are appended to a Writer's data block from Writer::insert only. (R7) the cut is conditioned on the block holding a key: BlockWriter::last_key() is a pure view that is Some exactly when an entry was inserted since the last flush, and both flush sites test exactly that. The sorter's whole configuration plumbing (setters included) is re-run so that a configured block size reaches the clamp.",
    "assumptions": ["compress_and_write_block finishes (and thereby resets) the writer it is given"],
}


def run(ck):
    for cfg in ck.configs():
        F = ck.facts(cfg)
        ck.guard("C15-R1", r1_cut_check, ck, F)
        ck.guard("C15-R1", r1_sole_entry_path, ck, F)
        ck.guard("C15-R2", r2_level_check, ck, F)
        ck.guard("C15-R3", r3_clamp, ck, F)
        ck.guard("C15-R4", r4_estimate, ck, F)
        ck.guard("C15-R5", r5_reset, ck, F)
        # the block size configured on a Sorter reaches every chunk writer it builds
        from .c07 import r8_config
        ck.guard("C15-R6", r8_config, ck, F, "C15-R6", ("block_size",))
        # a block that reached the size is cut only if it "holds a key": `last_key()` must be Some exactly when
        # an entry was inserted since the last flush, and the flush sites test exactly that (shared with C01-R8)
        from .c01 import r8_pending_block
        ck.guard("C15-R7", r8_pending_block, ck, F, "C15-R7")
        # (the whole configuration plumbing of the sorter, setters included: `block_size(0)` must reach the clamp)
        ck.guard("C15-R6", r8_config, ck, F, "C15-R6")
    ck.trusted += ["rustc MIR construction"]


def size_tests(b):
    """comparisons `X.current_size_estimate() REL self.block_size` in body b"""
    out = []
    for site, st in b.sites():
        if site.i is not None and st["s"] == "assign" and st["rv"]["rv"] == "bin" and st["rv"]["op"] in BINCMP:
            e = b._expr_of_def((site, "assign", st["rv"]))
            x, y, op = e.a[0], e.a[1], BINCMP[e.x["op"]]
            if is_self_field(x, "block_size"):
                x, y, op = y, x, FLIP[op]
            if is_call(x, A("bw_estimate")) and is_self_field(y, "block_size"):
                out.append((site, op, x.strip().a[0]))
    return out


def r1_cut_check(ck, F):
    R = "C15-R1"
    b = F.body(A("writer_insert"))
    tests = size_tests(b)
    data = [t for t in tests if is_self_field(t[2], "block_writer")]
    ck.exact(R, "size tests on the data block writer", len(data), 1, F.config)
    ins = [s for s, c, t in calls(b, A("bw_insert")) if is_self_field(b.arg_exprs(s)[0], "block_writer")]
    if not data or not ins:
        return
    site, op, w = data[0]
    ed = bool_edges(b, value_site=site)
    fl = [s for s, c, t in calls(b, A("write_block")) if is_self_field(b.arg_exprs(s)[1], "block_writer")]
    NEG = {"<": ">=", "<=": ">", ">": "<=", ">=": "<", "==": "!=", "!=": "=="}
    if ed is not None and len(fl) == 1 and b.dominates(ed[2], fl[0].bb) and not b.dominates(ed[1], fl[0].bb):
        # written as `if estimate < block_size { return }`: the flush sits on the false edge
        op = NEG[op]
        ed = (ed[0], ed[2], ed[1])
    ck.ob(R, "cut-relation", op == ">=", f"data block is cut when `estimate {op} block_size` (must be >=: a block that reaches B exactly is emitted)", b, site)
    rets = [Site(r, None) for r in b.return_blocks()]
    ck.ob(R, "checked-after-every-insert", b.dominates(ins[0], site) and on_every_success_path_after(b, ins[0].bb, site), "the test is made after the entry was appended, on every succeeding path from there", b, site)
    ok = ed is not None and len(fl) == 1 and b.dominates(ed[1], fl[0].bb) and not b.dominates(ed[2], fl[0].bb)
    ck.ob(R, "true-edge-flushes-same-writer", ok, "the `reached` edge leads to compress_and_write_block(self.block_writer)", b, site)
    # between the test and the flush only: last_key() is Some, a parent exists
    if ok:
        guards = []
        for bb in sorted(b.normal_blocks()):
            if b.term(bb)["t"] == "switch" and b.dominates(ed[1], bb) and b.dominates(bb, fl[0].bb) and bb != fl[0].bb:
                e, enum, labels, oth = switch_on(b, bb)
                guards.append(e.show()[:60])
        kinds = {("nonempty" if "last_key" in g else ("parent" if "last_mut" in g else None)) for g in guards}
        ck.ob(R, "only-nonempty-and-parent-guards", kinds == {"nonempty", "parent"}, f"between the size test and the flush only {guards} are tested (block not empty, parent index exists)", b, fl[0])


def r1_sole_entry_path(ck, F):
    """entries reach a data block through Writer::insert only: any other function that appends to a writer's data
    block (a bulk / streaming entry point) is a second path that the cut test of C15-R1 and the cascade of C15-R2 do
    not cover.  Functions unknown to the pinned tree are spliced into their callers, so a new public method shows up
    here under the name of whoever calls it."""
    R = "C15-R1"
    who = []
    for b in F.user_bodies():
        for s, c, t in calls(b, A("bw_insert")):
            a = b.arg_exprs(s)
            if a and any(x.k == "field" and x.x["name"] == "block_writer" for x in a[0].walk()):
                who.append(b.path)
    ck.ob(R, "data-entries-only-through-insert", sorted(set(who)) == [A("writer_insert")], f"appends to a Writer's data block: {sorted(set(who))} (expected Writer::insert only)", config=F.config)


def r2_level_check(ck, F):
    R = "C15-R2"
    b = F.body(A("writer_insert"))
    tests = [t for t in size_tests(b) if not is_self_field(t[2], "block_writer")]
    ck.exact(R, "size tests on index level writers", len(tests), 1, F.config)
    if not tests:
        return
    site, op, w = tests[0]
    sp = split_part(w)
    ed = bool_edges(b, value_site=site)
    fl = [s for s, c, t in calls(b, A("write_block")) if not is_self_field(b.arg_exprs(s)[1], "block_writer")]
    NEG = {"<": ">=", "<=": ">", ">": "<=", ">=": "<", "==": "!=", "!=": "=="}
    if ed is not None and len(fl) == 1 and b.dominates(ed[2], fl[0].bb) and not b.dominates(ed[1], fl[0].bb):
        op = NEG[op]
        ed = (ed[0], ed[2], ed[1])
    ck.ob(R, "level-cut-relation", op == ">=", f"index level is cut when `estimate {op} block_size`", b, site)
    ck.ob(R, "level-test-in-loop-on-last", b.in_loop(site.bb) and sp is not None and sp[1] == 0, "the test is applied inside the level loop to the last writer of the remaining slice", b, site)
    ok = ed is not None and len(fl) == 1 and b.dominates(ed[1], fl[0].bb) and not b.dominates(ed[2], fl[0].bb)
    if ok:
        fsp = split_part(b.arg_exprs(fl[0])[1])
        ok = fsp is not None and sp is not None and fsp[0] == sp[0] and fsp[1] == 0
    ck.ob(R, "level-true-edge-flushes-same-writer", ok, "the `reached` edge leads to the flush of the very writer that was measured", b, site)
    # the loop: slice starts at index_block_writers[1..], continues with head
    sl = calls(b, "::split_last_mut")
    ck.exact(R, "split_last_mut sites in Writer::insert", len(sl), 1, F.config)
    for s, c, t in sl:
        a = b.arg_exprs(s)[0].strip()
        comps = a.a if a.k == "phi" else [a]
        init = [x for x in comps if is_call(x, "index_mut")]
        step = [x for x in comps if x not in init]
        ok_i = False
        if len(init) == 1:
            im = init[0].strip()
            rng = im.a[1]
            ok_i = is_self_field(im.a[0], "index_block_writers") and rng.k == "agg" and (rng.x.get("adt") or "").endswith("RangeFrom") and const_val(rng.a[0]) == 1
        ok_s = len(step) >= 1 and all((split_part(x) or (None, None))[0] == s and split_part(x)[1] == 1 for x in step)
        ck.ob(R, "levels-below-first-two", ok_i, "the level loop starts from index_block_writers[1..] (constant 1: the root is only written at finish, the level under it has no parent inside the slice)", b, s)
        ck.ob(R, "loop-advances-to-head", ok_s, "each iteration continues with the slice's head (every deeper level is visited, last to first)", b, s)
        # every iteration advances, also when the test is false
        ck.ob(R, "every-level-visited", b.in_loop(s.bb), "split_last_mut is the loop condition", b, s, nontrivial=False)
    # the level loop is entered whenever the data block was cut
    data = [t for t in size_tests(b) if is_self_field(t[2], "block_writer")]
    if data and sl:
        ed = bool_edges(b, value_site=data[0][0])
        reached = None
        if ed is not None:
            reached = ed[1] if data[0][1] in (">=", ">") else ed[2]
        ck.ob(R, "levels-checked-after-data-cut", reached is not None and b.dominates(reached, sl[0][0].bb), "index levels are examined on the path where the data block reached the threshold", b, sl[0][0])
    # ... and after the data block was flushed: the entry the flush adds to the deepest index level is what can fill
    # it, so the cascade must not run before (a level would be cut one data block late)
    dfl = [s for s, c, t in calls(b, A("write_block")) if is_self_field(b.arg_exprs(s)[1], "block_writer")]
    if dfl and sl:
        before = dfl[0].bb in b.reachable_from(sl[0][0].bb) and not b.dominates(dfl[0], sl[0][0])
        ck.ob(R, "cascade-after-data-flush", not before, "the index-level loop is entered after the data block flush, never before it", b, sl[0][0])


def r3_clamp(ck, F):
    R = "C15-R3"
    st = field_stores(F, A("writer_builder"), "block_size")
    ck.exact(R, "stores to WriterBuilder.block_size", len(st), 1, F.config)
    mn = F.const_int("writer::MIN_BLOCK_SIZE")
    df = F.const_int("writer::DEFAULT_BLOCK_SIZE")
    ck.ob(R, "constants", mn == 1024 and df >= mn, f"MIN_BLOCK_SIZE = {mn}, DEFAULT_BLOCK_SIZE = {df} >= MIN", config=F.config)
    for b, site, s in st:
        e = b._expr_of_def((site, "assign", s["rv"]))
        ok = b.path == A("writer_block_size") and is_call(e, "cmp::max") and mn in [const_val(x) for x in e.a] and any(is_arg(x, "size") for x in e.a)
        ck.ob(R, "setter-clamps", ok, f"WriterBuilder.block_size := {e.show()} (max(MIN_BLOCK_SIZE, size))", b, site)
    for b, s, rv in aggregates(F, A("writer_builder")):
        ck.ob(R, "default-block-size", const_val(agg_field_expr(b, s, rv, "block_size")) == df, "default builder uses DEFAULT_BLOCK_SIZE", b, s)
    for b, s, rv in aggregates(F, A("writer_struct")):
        ck.ob(R, "writer-gets-builder-value", is_self_field(agg_field_expr(b, s, rv, "block_size"), "block_size"), "Writer.block_size := builder.block_size", b, s)
    ws = field_stores(F, A("writer_struct"), "block_size")
    ck.exact(R, "stores to Writer.block_size after construction", len(ws), 0, F.config)
    for p in (A("sorter_write_chunk"), A("sorter_merge_chunks")):
        b = F.body(p)
        cs = calls(b, A("writer_block_size"))
        ok = len(cs) == 1
        if ok:
            pay = unwrap_payload(b.arg_exprs(cs[0][0])[1], "Some")
            ok = pay is not None and is_self_field(pay, "block_size")
        ck.ob(R, f"sorter-uses-setter/{p.split('::')[-1]}", ok, "the sorter configures chunk writers through WriterBuilder::block_size (the clamping setter)", b)


def r4_estimate(ck, F):
    R = "C15-R4"
    b = F.body(A("bw_estimate"))
    e = b.expr_at_return()
    sym = lambda x: ("buf" if (x.k == "call" and x.x["path"].endswith("::len") and is_self_field(x.a[0], "buffer")) else ("offs" if (x.k == "call" and x.x["path"].endswith("::len") and is_self_field(x.a[0], "index_offsets")) else None))
    lf = fmt.linform(e, sym)
    ck.ob(R, "estimate-formula", lf == {"buf": 1, "offs": 8, 1: 4}, f"current_size_estimate = {fmt.lin_str(lf)} (expected buffer.len() + 8 * index_offsets.len() + 4)", b)
    fw = fmt.footer_write(F)
    ok = tuple(map(tuple, [(x[0], x[1], tuple(x[2])) for x in fw])) == (("table", "index_offsets", ("u64>::to_be_bytes",)), ("count", "index_offsets", ("u32>::to_be_bytes",)))
    ck.ob(R, "finish-appends-what-was-estimated", ok, f"finish() appends {fw}: 8 bytes per offset-table slot and a 4-byte count — the estimate equals the emitted uncompressed size", F.body(A("bw_finish")))


def r5_reset(ck, F):
    R = "C15-R5"
    rs = F.body(A("bw_reset"))
    clr = [s for s, c, t in calls(rs, "Vec::<T, A>::clear") if is_self_field(rs.arg_exprs(s)[0], "buffer")]
    tr = [s for s, c, t in calls(rs, "Vec::<T, A>::truncate") if is_self_field(rs.arg_exprs(s)[0], "index_offsets") and const_val(rs.arg_exprs(s)[1]) == 1]
    from .lastkey import LastKeyRepr
    LK = LastKeyRepr(F)
    zs = {}
    for site, st in rs.sites():
        if site.i is not None and st["s"] == "assign" and st["pl"]["p"]:
            e = rs._expr_of_def((site, "assign", st["rv"]))
            nm = st["pl"]["p"][-1].get("name")
            if nm == "index_key_counter":
                zs[nm] = const_val(e)
    ck.ob(R, "reset-empties-writer", len(clr) == 1 and len(tr) == 1 and zs == {"index_key_counter": 0} and bool(LK.absent_stores(rs)), f"reset: buffer.clear(), index_offsets.truncate(1), last key absent, {zs}", rs)
    dr = F.body(A("bb_drop"))
    cs = calls(dr, A("bw_reset"))
    ck.ob(R, "drop-resets", len(cs) == 1 and is_self_field(dr.arg_exprs(cs[0][0])[0], "block_builder"), "dropping the finished block resets its writer", dr)
    wb = F.body(A("write_block"))
    fin = calls(wb, A("bw_finish"))
    ok = len(fin) == 1 and is_arg(wb.arg_exprs(fin[0][0])[0], "block_writer")
    # the BlockBuffer local is dropped on every exit path of compress_and_write_block
    dest = wb.at(fin[0][0])["dest"]["l"] if fin else None
    drops = [bb for bb in range(len(wb.blocks)) if wb.blocks[bb]["term"]["t"] == "drop" and wb.blocks[bb]["term"]["pl"]["l"] == dest and not wb.blocks[bb]["term"]["pl"]["p"]]
    rets = wb.return_blocks()
    reach = reachable_without(wb, banned_blocks=[d for d in drops if d in wb.normal_blocks()], start=fin[0][0].bb if fin else 0)
    ck.ob(R, "finished-block-dropped-on-every-exit", ok and not any(r in reach for r in rets) and len(drops) >= 1, "compress_and_write_block finishes the given writer and the finished block is dropped (=> reset) on every exit, success or error", wb)
