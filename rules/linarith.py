"""linarith — a small relational (linear-inequality) analysis used for the size arithmetic of the
sorter's two-ended buffer (C17-R10).  Expressions reconstructed from MIR are turned into linear
forms over a handful of symbols; every checked +, -, * site must be justified — by a Farkas
certificate: a non-negative integer combination of the facts known at that site — not to
overflow; the buffer invariant itself is shown to be preserved by every mutator the same way.
Nothing is executed and no solver is involved: certificates are found by bounded enumeration."""
import itertools

MAXU = 2**64 - 1
MAXI = 2**63 - 1


def lf(**kw):
    return {k: v for k, v in kw.items() if v}


def add(a, b, sb=1):
    out = dict(a)
    for k, v in b.items():
        out[k] = out.get(k, 0) + sb * v
    return {k: v for k, v in out.items() if v != 0}


def scale(a, c):
    return {k: v * c for k, v in a.items() if v * c != 0}


def const(c):
    return {1: c} if c else {}


def show(f):
    parts = []
    for k in sorted(f, key=str):
        v = f[k]
        if k == 1:
            parts.append(str(v))
        else:
            parts.append(k if v == 1 else f"{v}*{k}")
    return " + ".join(parts).replace("+ -", "- ") if parts else "0"


def prove(goal, facts, mults=(1, 2, 16, 32), depth=6):
    """is `goal >= 0` a consequence of `facts` (each a linear form known to be >= 0) given that every
    symbol is a non-negative integer?  A certificate is a list of (multiplier, fact index) with
    goal - sum(m_i * f_i) having only non-negative coefficients (symbols >= 0 then close the gap).
    Also tries 16*goal + 15 >= 0 (integrality: the goal is an integer).  Returns the certificate
    or None."""
    for s, slack in ((1, 0), (16, 15)):
        target = add(scale(goal, s), const(slack))
        cert = _search(target, facts, mults, depth, frozenset())
        if cert is not None:
            return [(s, "scale")] + cert
    return None


def _neg(r):
    return [k for k, v in r.items() if v < 0]


def _search(resid, facts, mults, depth, used):
    neg = _neg(resid)
    if not neg:
        return []
    if depth == 0:
        return None
    # most constrained negative symbol first (fewest facts that can help)
    def helpers(k):
        return [i for i, f in enumerate(facts) if f.get(k, 0) < 0 and i not in used]
    neg.sort(key=lambda k: (len(helpers(k)), str(k)))
    k = neg[0]
    hs = helpers(k)
    if not hs:
        return None
    for i in hs:
        f = facts[i]
        need = -resid[k]
        for m in mults:
            # subtracting m*f adds m*|f[k]| to the coefficient of k
            if m * (-f[k]) > need * 32 and m != mults[0]:
                continue
            nr = add(resid, f, -m)
            r = _search(nr, facts, mults, depth - 1, used | {i})
            if r is not None:
                return [(m, i)] + r
    return None
