"""C10 — version-1 files remain readable with identical results: the V1 trailer table, its
agreement with the V2 arm up to the footer size / trailing levels byte, and non-interference (no
query code branches on the file version)."""
from .common import *
from . import fmt, mirror
from .c09 import tup

PID = "C10"
META = {
    "explanation": "Static analysis on the MIR of the current tree: the V1 arm of Metadata::read_from is decoded into its seek distance, read sequence and field sources (root offset u64 LE, codec id u8 validated through from_u8, count u64 LE, index_levels = constant 0, 17+4 bytes, magic 0x76324D4C -> FormatV1) and compared with the statement, with the V1 arm of write_into and (thorough) with grenad 0.4.7; the V1 and V2 read arms are the same skeleton up to the trailing levels byte; and a who-may-read analysis shows that Metadata.file_version is read only by the public getter, the trailer writer and derived impls — no cursor, iterator, block or merger code can branch on the version, so every query result is a function of the other four metadata fields and the block bytes alone. 'Identical results' therefore reduces to C02–C05 on the shared code path. Reader::new is the trailer read with its error propagated and nothing else. Beyond the trailer the code is version-blind, so queries on V1 files are answered by the common path: the codec table, the shared cursor-traversal rules and the range / prefix iterator rules (rules/shared.py) are re-run as necessary conditions of 'identical results'.",
    "assumptions": ["byteorder read widths", "C02-C05 for the shared query code"],
}


def run(ck):
    for cfg in ck.configs():
        F = ck.facts(cfg)
        ck.guard("C10-R1", r1_v1_trailer, ck, F)
        ck.guard("C10-R2", r2_common_prefix, ck, F)
        ck.guard("C10-R3", r3_version_blind, ck, F)
        from .c13 import reader_new_is_trailer_read
        ck.guard("C10-R3", reader_new_is_trailer_read, ck, F, "C10-R3")
        from . import shared
        # "identical results" of every query: beyond the trailer the code is version-blind (R3), so what answers queries on
        # V1 files is the common path — codec table, cursor and iterators
        from .c01 import r3_codec_table
        ck.guard("C10-R4", r3_codec_table, ck, F, "C10-R4")
        shared.cursor_traversal(ck, F, "C10-R4")
        shared.iterators(ck, F, "C10-R4")
    if ck.tier == "thorough":
        ck.guard("C10-R1", r1_xver, ck)
    ck.trusted += ["rustc MIR construction", "byteorder"]


def r1_v1_trailer(ck, F):
    R = "C10-R1"
    fm = anchors()["format"]
    rb = F.body(A("meta_read"))
    r = fmt.trailer_read(F)
    a = r.get("FormatV1", {})
    mt = r["magic_table"]
    ck.ob(R, "magic-v1", mt.get(fm["magic_v1"]) == "FormatV1" and tup(r["magic_seek"]) == ("End", -4) and tup(r["magic_read"]) == (4, "LE"), f"magic 0x76324D4C read as u32 LE at End(-4) selects FormatV1 (table {mt})", rb)
    seq = [tuple(x) for x in a.get("seq", []) if tuple(x) != ("seek",)]
    ck.ob(R, "v1-seek", tup(a.get("seek")) == ("End", -21), f"V1 record read at {a.get('seek')} (expected End(-(17+4)))", rb)
    ck.ob(R, "v1-seq", seq == [(8, "LE"), (1, "-"), (8, "LE")], f"V1 record read as {seq} (expected u64 LE, u8, u64 LE)", rb)
    ck.ob(R, "v1-width", sum(x[0] for x in seq) == fm["meta_v1_size"] == F.const_int("metadata::METADATA_V1_SIZE"), f"widths sum to {sum(x[0] for x in seq)} = METADATA_V1_SIZE", rb)
    fl = {k: tup(v) for k, v in a.get("fields", {}).items()}
    want = {"file_version": ("version",), "index_block_offset": ("read", 0, ()), "compression_type": ("read", 1, ("from_u8",)), "entries_count": ("read", 2, ()), "index_levels": ("const", 0)}
    ck.ob(R, "v1-fields", fl == want, f"V1 metadata fields come from {fl} (root offset = 1st read, codec = from_u8(2nd read), count = 3rd read, index_levels = 0)", rb)
    # codec id validated: the compression type is the Some payload of from_u8(byte) and its None is rejected with
    # InvalidCompressionType (`.ok_or(..)?`, a match, a let-else ..)
    sb = fmt.specialise(rb, "FileVersion", "FormatV1")
    ok = False
    for bb in sorted(sb.normal_blocks()):
        if sb.term(bb)["t"] != "switch":
            continue
        e, enum, labels, oth = switch_on(sb, bb)
        if e.k == "discr" and enum == "std::option::Option" and is_call(e.a[0], A("from_u8")) and "None" in labels:
            # the None arm builds the InvalidCompressionType error (which `?` then returns) and no Ok value
            reg = arm_region(sb, bb, labels["None"])
            built = []
            for s_, st_ in sb.sites():
                if s_.i is not None and s_.bb in reg and st_["s"] == "assign" and st_["rv"]["rv"] == "agg" and st_["rv"].get("ak") == "adt":
                    built.append(sb._expr_of_def((s_, "assign", st_["rv"])))
            rej = [x for x in built if x.x.get("variant") == "Err" and "InvalidCompressionType" in x.show()]
            oks = [x for x in built if x.x.get("variant") == "Ok"]
            ok = bool(rej) and not oks
    if not ok:
        oo = [(s, c, t) for s, c, t in calls(rb, "Option::<T>::ok_or")]
        for s, c_, t in oo:
            x = rb.arg_exprs(s)
            if is_call(x[0], A("from_u8")) and x[1].k == "agg" and x[1].x.get("variant") == "InvalidCompressionType":
                ok = True
    ck.ob(R, "v1-codec-validated", ok, "an unknown codec id is rejected with InvalidCompressionType", rb)
    w = fmt.trailer_write(F).get("FormatV1", {}).get("seq", [])
    ck.ob(R, "v1-agrees-with-writer", [(x[0], x[1]) for x in w[:-1]] == seq and w and w[-1][2] == fm["magic_v1"], f"the V1 arm of write_into writes {w}", F.body(A("meta_write")))
    # FileVersion discriminants / getter
    g = F.body(A("reader_version"))
    ck.ob(R, "version-getter", is_self_field(g.expr_at_return(), "metadata", "file_version"), "Reader::file_version returns the trailer's version", g, nontrivial=False)


def r1_xver(ck):
    F, G = ck.facts("default"), ck.facts("v047")
    a, b = fmt.trailer_read(F), fmt.trailer_read(G)
    ck.ob("C10-R1", "v1-equal-0.4.7", tup(_j(a.get("FormatV1"))) == tup(_j(b.get("FormatV1"))) and _j(a["magic_table"]) == _j(b["magic_table"]), "the V1 read arm and the magic table equal grenad 0.4.7's", config="default+v047")


def _j(x):
    import json
    return json.loads(json.dumps(x, default=str))


def r2_common_prefix(ck, F):
    R = "C10-R2"
    r = fmt.trailer_read(F)
    v1 = [tuple(x) for x in r["FormatV1"]["seq"]]
    v2 = [tuple(x) for x in r["FormatV2"]["seq"]]
    ck.ob(R, "v2-is-v1-plus-levels", v2[:len(v1)] == v1 and v2[len(v1):] == [(1, "-")], f"V2 read sequence {v2} = V1 read sequence {v1} + one trailing u8 (index_levels)", F.body(A("meta_read")))
    f1, f2 = r["FormatV1"]["fields"], r["FormatV2"]["fields"]
    same = all(tup(f1[k]) == tup(f2[k]) for k in ("index_block_offset", "compression_type", "entries_count"))
    ck.ob(R, "same-field-sources", same, "root offset, codec and count come from the same positions of the record in both versions", F.body(A("meta_read")))
    d1, d2 = r["FormatV1"]["seek"], r["FormatV2"]["seek"]
    ck.ob(R, "seek-differs-by-one", d1 and d2 and d1[0] == d2[0] == "End" and d1[1] - d2[1] == 1, f"footer distances {d1[1]} / {d2[1]} differ by exactly the levels byte", F.body(A("meta_read")))


def r3_version_blind(ck, F):
    R = "C10-R3"
    rd = field_reads(F, A("meta_struct"), "file_version")
    who = sorted({b.path for b, s, st in rd})
    allowed = {A("reader_version"), A("meta_write")}
    who = [w for w in who if not w.endswith((" as std::fmt::Debug>::fmt", " as std::fmt::Display>::fmt"))]
    ck.ob(R, "file-version-readers", set(who) <= allowed, f"Metadata.file_version is read only by {who} (getter and trailer writer) — no query code can depend on the version", config=F.config)
    ck.floor(R, "readers of file_version found", len(who), 2, F.config)
    # nobody matches on a FileVersion value outside metadata.rs
    sw = []
    for b in F.user_bodies():
        for bb in b.normal_blocks():
            if b.term(bb)["t"] == "switch":
                try:
                    e, enum, labels, oth = switch_on(b, bb)
                except Exception:
                    continue
                if enum and enum.endswith("FileVersion"):
                    sw.append(b.path)
    ck.ob(R, "version-matches", set(sw) <= {A("meta_read"), A("meta_write")}, f"FileVersion is matched on only in {sorted(set(sw))}", config=F.config)
    # (formatting impls may print it: what `{:?}` shows is not a query result)
    callers = sorted({b.path for b in F.user_bodies() for s, c, t in calls(b, A("reader_version")) if not b.path.endswith((" as std::fmt::Debug>::fmt", " as std::fmt::Display>::fmt"))})
    ck.ob(R, "getter-not-used-internally", not callers, f"Reader::file_version is not called by library code ({callers})", config=F.config)
    # the cursor is configured from the other metadata fields only
    rcn = F.body(A("rc_prefix") + "new")
    # ... through the accessors or straight from reader.metadata
    used = set()
    for s, c, t in rcn.calls():
        n = callee_name(c)
        if n.startswith("reader::Reader::<R>::") and F.has_body(n):
            r = F.body(n).expr_at_return().strip()
            used.add(r.x["name"] if r.k == "field" and is_self_field(r.a[0], "metadata") else n.split("::")[-1] + "()")
    for fld in F.adts[A("meta_struct")]["variants"][0]["fields"]:
        if any(b.path == rcn.path for b, s_, st in field_reads(F, A("meta_struct"), fld["name"])):
            used.add(fld["name"])
    used = sorted(used)
    ck.ob(R, "cursor-configured-without-version", used == ["compression_type", "index_block_offset", "index_levels"], f"ReaderCursor::new consults {used}", rcn)
