"""EXPR extraction for the varint codec: the encode table (per guarded branch: byte stores and the
returned length), the decode table (OR terms and their guards) and the length scanner, all read off
def-use chains and control dependence of the MIR — no path is executed or handed to a solver."""
from .common import *
from .fmt import fold


def guards_of(b, bb):
    """switch edges that dominate block bb: list of (cond_expr, taken_bool, switch_bb)"""
    out = []
    for s in sorted(b.normal_blocks()):
        t = b.term(s)
        if t["t"] != "switch" or s == bb:
            continue
        zero = [tb for v, tb in t["arms"] if int(v) == 0]
        if not zero or len(t["arms"]) != 1:
            continue
        f_t, t_t = zero[0], t["otherwise"]
        d_t = b.dominates(t_t, bb) and len(b.preds(t_t)) == 1
        d_f = b.dominates(f_t, bb) and len(b.preds(f_t)) == 1
        if d_t == d_f:
            continue
        e = b.expr_of_operand(t["discr"], Site(s, None))
        if fold(e) is not None:
            continue      # `if cfg!(debug_assertions)`: a constant is no condition on the input
        if diverges(b, f_t if d_t else t_t):
            continue      # an assertion (`debug_assert!`, an explicit panic): the runs that return are those that pass it
        out.append((e, d_t, s))
    return out


def cmp_const(e, var_pred):
    """normalise `var OP const` : returns (op, const) with the variable on the left"""
    neg = False
    while e.k == "un" and e.x["op"] == "Not":
        neg = not neg
        e = e.a[0]
    if e.k != "bin" or e.x["op"] not in BINCMP:
        return None
    a, c = e.a
    op = BINCMP[e.x["op"]]
    if var_pred(c) and fold(a) is not None:
        a, c, op = c, a, FLIP[op]
    if not var_pred(a) or fold(c) is None:
        return None
    if neg:
        op = {"<": ">=", "<=": ">", ">": "<=", ">=": "<", "==": "!=", "!=": "=="}[op]
    return op, fold(c)


def byte_term(e, var_pred):
    """((var >> s) | m) as u8  ->  (s, m); None if not of that shape"""
    e = e.strip()
    if not (e.k == "cast" and e.x["to"] == "u8"):
        return None
    x = e.a[0].strip()
    m = 0
    if x.k == "bin" and x.x["op"] == "BitOr":
        l, r = x.a
        if fold(r) is not None:
            m, x = fold(r), l.strip()
        elif fold(l) is not None:
            m, x = fold(l), r.strip()
        else:
            return None
    s = 0
    if x.k == "bin" and x.x["op"] in ("Shr", "ShrUnchecked"):
        if fold(x.a[1]) is None:
            return None
        s, x = fold(x.a[1]), x.a[0].strip()
    if not var_pred(x):
        return None
    return s, m


def encode_table(F):
    b = F.body(A("varint_encode"))
    isval = lambda e: is_arg(e, "value")
    rows = {}
    notes = []
    if b.loops():
        t = _encode_loop_idiom(b, notes)
        if t is None:
            return None, ["varint_encode32 contains a loop that is not the recognised LEB128 loop: " + "; ".join(notes)]
        return t, []
    for site, st in b.sites():
        if site.i is None or st["s"] != "assign":
            continue
        pl = st["pl"]
        if pl["p"] and pl["p"][0] == "*" and len(pl["p"]) == 2 and isinstance(pl["p"][1], dict) and "index" in pl["p"][1] and pl["l"] == 1:
            idx = fold(b.expr_of_local(pl["p"][1]["index"], site))
            e = b._expr_of_def((site, "assign", st["rv"]))
            term = byte_term(e, isval)
            sig = _sig(b, site.bb, isval, notes)
            rows.setdefault(sig, {"stores": {}, "len": None})
            if idx is None or term is None:
                notes.append(f"unrecognised byte store at {b.loc(site)}: bytes[{idx}] = {e.show()}")
                continue
            rows[sig]["stores"][idx] = term
    for s, c, t in calls(b, "Index<I> for [T]>::index"):
        a = b.arg_exprs(s)
        r = a[1]
        if r.k == "agg" and (r.x.get("adt") or "").endswith("RangeTo") and is_arg(a[0], "bytes"):
            k = fold(r.a[0])
            if k is None:
                # one `&bytes[..len]` after the branches, `len` being the constant each branch yields
                per = _per_branch_consts(b, r)
                if per:
                    for bb_, v in per:
                        sig = _sig(b, bb_, isval, notes)
                        rows.setdefault(sig, {"stores": {}, "len": None})
                        rows[sig]["len"] = v
                    continue
            sig = _sig(b, s.bb, isval, notes)
            rows.setdefault(sig, {"stores": {}, "len": None})
            rows[sig]["len"] = k
    table = []
    for sig, row in rows.items():
        lo, hi = 0, 2**32
        for (op, c), taken in sig:
            if op == "<":
                if taken:
                    hi = min(hi, c)
                else:
                    lo = max(lo, c)
            elif op == "<=":
                if taken:
                    hi = min(hi, c + 1)
                else:
                    lo = max(lo, c + 1)
            else:
                notes.append(f"unrecognised guard relation {op}")
        table.append({"lo": lo, "hi": hi, "len": row["len"], "stores": dict(sorted(row["stores"].items()))})
    table.sort(key=lambda r: r["lo"])
    return table, notes


def _per_branch_consts(b, range_expr):
    """[(block, constant)] when the bound of the RangeTo aggregate is a local that every branch sets to a constant"""
    site = range_expr.x.get("site")
    if site is None or site.i is None:
        return None
    st = b.at(site)
    ops = st["rv"].get("ops") or []
    if len(ops) != 1 or ops[0].get("k") not in ("copy", "move") or ops[0]["pl"]["p"]:
        return None
    l = ops[0]["pl"]["l"]
    d = b.defs()[0]
    for _ in range(6):
        ds = d.get(l, [])
        if len(ds) == 1 and ds[0][1] == "assign" and ds[0][2]["rv"] == "use" and ds[0][2]["op"].get("k") in ("copy", "move") and not ds[0][2]["op"]["pl"]["p"]:
            l = ds[0][2]["op"]["pl"]["l"]
        else:
            break
    out = []
    for s_, kind, payload in d.get(l, []):
        if kind != "assign":
            return None
        v = fold(b._expr_of_def((s_, kind, payload)))
        if v is None:
            return None
        out.append((s_.bb, v))
    return out if len(out) >= 2 else None


def _var_of(b, op, site):
    """the variable (multiply-defined local) an operand reads, through single-definition copies"""
    if op.get("k") not in ("copy", "move") or op["pl"]["p"]:
        return None
    l = op["pl"]["l"]
    for _ in range(8):
        ds, _fe = b.reaching_defs(l, site)
        d_all = b.defs()[0].get(l, [])
        if len(d_all) != 1:
            return l
        s0, kind, payload = d_all[0]
        if kind == "assign" and payload["rv"] == "use" and payload["op"].get("k") in ("copy", "move") and not payload["op"]["pl"]["p"]:
            l, site = payload["op"]["pl"]["l"], s0
            continue
        return l
    return l


def _encode_loop_idiom(b, notes):
    """the second accepted form of the encoder:
           let mut rest = value; let mut len = 0;
           while rest >= 0x80 { bytes[len] = (rest as u8) | 0x80; rest >>= 7; len += 1; }
           bytes[len] = rest as u8; len += 1; &bytes[..len]
    Every element is checked on the MIR (one loop, the two loop-carried variables and all their
    definitions, the guard, both stores and their order relative to the shift and the increment, the
    returned range); if it holds the function computes the canonical five-row table, which is returned."""
    loops = b.loops()
    if len(loops) != 1:
        notes.append(f"{len(loops)} loops")
        return None
    header, blks = loops[0]
    d = b.defs()[0]
    # stores into bytes[..]
    stores = []
    for site, st in b.sites():
        if site.i is None or st["s"] != "assign":
            continue
        pl = st["pl"]
        if pl["p"] and pl["p"][0] == "*" and len(pl["p"]) == 2 and isinstance(pl["p"][1], dict) and "index" in pl["p"][1] and pl["l"] == 1:
            stores.append((site, st))
    if len(stores) != 2:
        notes.append(f"{len(stores)} byte stores (expected one in the loop and one after it)")
        return None
    inl = [x for x in stores if x[0].bb in blks]
    aft = [x for x in stores if x[0].bb not in blks]
    if len(inl) != 1 or len(aft) != 1:
        notes.append("byte stores are not one inside / one after the loop")
        return None

    def split_store(site, st):
        """(index variable, value variable, or-mask) of `bytes[i] = (v as u8) | m` / `(v | m) as u8` / `v as u8`"""
        idx = _var_of(b, {"k": "copy", "pl": {"l": st["pl"]["p"][1]["index"], "p": []}}, site)
        rv = st["rv"]
        m = 0
        # resolve one level of temporaries by hand: the stored rvalue is bin(BitOr, x, const) | cast(x) | use(tmp)
        def operand_var(op, site_):
            if op.get("k") == "const":
                return None
            # a temp holding `v as u8`?
            l = op["pl"]["l"]
            ds = d.get(l, [])
            if len(ds) == 1 and ds[0][1] == "assign" and ds[0][2]["rv"] == "cast" and ds[0][2]["to"] == "u8":
                return ("cast", _var_of(b, ds[0][2]["op"], ds[0][0]))
            return ("plain", _var_of(b, op, site_))
        if rv["rv"] == "bin" and rv["op"] == "BitOr":
            l, r = rv["a"], rv["b"]
            if r.get("k") == "const" and "int" in r:
                m = int(r["int"])
                v = operand_var(l, site)
            elif l.get("k") == "const" and "int" in l:
                m = int(l["int"])
                v = operand_var(r, site)
            else:
                return None
            if v is None or v[0] != "cast":
                return None
            return idx, v[1], m
        if rv["rv"] == "cast" and rv["to"] == "u8":
            return idx, _var_of(b, rv["op"], site), 0
        if rv["rv"] == "use":
            v = operand_var(rv["op"], site)
            if v is not None and v[0] == "cast":
                return idx, v[1], 0
        return None
    si, sa = split_store(*inl[0]), split_store(*aft[0])
    if si is None or sa is None:
        notes.append("byte store value is not `(rest as u8) | 0x80` / `rest as u8`")
        return None
    L, R = si[0], si[1]
    if (sa[0], sa[1]) != (L, R) or si[2] != 0x80 or sa[2] != 0:
        notes.append(f"stores use (index, value, mask) = {si} in the loop and {sa} after it")
        return None
    # definitions of the two variables
    rd, ld = d.get(R, []), d.get(L, [])
    r_init = [x for x in rd if x[0].bb not in blks]
    r_loop = [x for x in rd if x[0].bb in blks]
    l_init = [x for x in ld if x[0].bb not in blks and b.dominates(x[0].bb, header)]
    l_loop = [x for x in ld if x[0].bb in blks]
    l_after = [x for x in ld if x[0].bb not in blks and not b.dominates(x[0].bb, header)]
    ok = len(r_init) == 1 and len(r_loop) == 1 and len(l_init) == 1 and len(l_loop) == 1 and len(l_after) == 1 and len(rd) == 2 and len(ld) == 3
    if not ok:
        notes.append("the loop variables have unexpected definitions")
        return None
    e0 = b._expr_of_def(r_init[0])
    if not is_arg(e0, "value"):
        notes.append(f"rest starts as {e0.show()}")
        return None
    if fold(b._expr_of_def(l_init[0])) != 0:
        notes.append("len does not start at 0")
        return None
    pr = r_loop[0][2]
    if not (r_loop[0][1] == "assign" and pr["rv"] == "bin" and pr["op"] in ("Shr", "ShrUnchecked") and _var_of(b, pr["a"], r_loop[0][0]) == R and pr["b"].get("k") == "const" and int(pr["b"].get("int", -1)) == 7):
        notes.append("rest is not updated by `rest >>= 7`")
        return None

    def is_incr(x):
        e = b._expr_of_def(x)
        c = checked(e)
        return bool(c and c[0] == "Add" and const_val(c[2]) == 1) and any(w.k == "var" or w.k == "phi" or w.k == "const" for w in c[1].walk())
    if not (is_incr(l_loop[0]) and is_incr(l_after[0])):
        notes.append("len is not incremented by one per byte")
        return None
    # the guard of the loop
    t = b.term(header) if b.term(header)["t"] == "switch" else None
    hb = header
    if t is None:
        for x in sorted(blks):
            if b.term(x)["t"] == "switch" and b.dominates(x, inl[0][0].bb):
                t, hb = b.term(x), x
                break
    if t is None:
        notes.append("no loop guard")
        return None
    ge = b.expr_of_operand(t["discr"], Site(hb, None))
    neg = False
    while ge.k == "un" and ge.x["op"] == "Not":
        neg, ge = not neg, ge.a[0]
    if ge.k != "bin" or ge.x["op"] not in BINCMP or fold(ge.a[1]) is None:
        notes.append(f"loop guard is {ge.show()[:50]}")
        return None
    op, cst = BINCMP[ge.x["op"]], fold(ge.a[1])
    zero = [tb for v, tb in t["arms"] if int(v) == 0]
    body_on_true = b.dominates(t["otherwise"], inl[0][0].bb)
    if neg:
        body_on_true = not body_on_true
    if not body_on_true:
        op = {"<": ">=", "<=": ">", ">": "<=", ">=": "<"}.get(op, op)
    if not ((op == ">=" and cst == 0x80) or (op == ">" and cst == 0x7f)):
        notes.append(f"loop continues while rest {op} {cst} (expected >= 0x80)")
        return None
    # order inside an iteration: store, then shift, then increment; after the loop: store, then increment, then the range
    if not (b.dominates(inl[0][0], r_loop[0][0]) and b.dominates(inl[0][0], l_loop[0][0]) and b.dominates(aft[0][0], l_after[0][0])):
        notes.append("a byte is stored after the variables it depends on were updated")
        return None
    rng = [s for s, c, t_ in calls(b, "Index<I> for [T]>::index")]
    okr = False
    for s in rng:
        a = b.arg_exprs(s)
        r = a[1]
        if r.k == "agg" and (r.x.get("adt") or "").endswith("RangeTo") and is_arg(a[0], "bytes") and b.dominates(l_after[0][0], s):
            okr = True
    if not okr:
        notes.append("the function does not return &bytes[..len]")
        return None
    table = []
    for k in range(1, 6):
        table.append({"lo": 0 if k == 1 else 2 ** (7 * (k - 1)), "hi": 2 ** 32 if k == 5 else 2 ** (7 * k), "len": k,
                      "stores": {i: (7 * i, 0x80 if i < k - 1 else 0) for i in range(k)}})
    return table


def _sig(b, bb, isval, notes):
    sig = []
    for e, taken, s in guards_of(b, bb):
        cc = cmp_const(e, isval)
        if cc is None:
            # bounds/overflow checks are asserts, not switches; anything else is unexpected
            notes.append(f"unrecognised guard {e.show()[:60]}")
            continue
        sig.append((cc, taken))
    return tuple(sorted(sig))


def decode_table(F):
    """the decoder's term table; masks are *effective* masks (the bits of the byte that survive the shift in a
    u32: `(b & 0x7f) << 28`, `(b & 0x0f) << 28` and `b << 28` all keep the low four bits)"""
    t, notes = _decode_table_raw(F)
    if t is not None:
        for x in t["terms"]:
            if isinstance(x.get("mask"), int) and isinstance(x.get("shift"), int) and 0 <= x["shift"] < 32:
                x["mask"] = x["mask"] & (0xFFFFFFFF >> x["shift"]) & 0xFF
    return t, notes


def _decode_table_raw(F):
    b = F.body(A("varint_decode"))
    notes = []
    if b.loops():
        t = _decode_loop_idiom(b, notes)
        if t is None:
            return None, ["varint_decode32 contains a loop that is not the recognised LEB128 accumulation loop: " + "; ".join(notes)]
        return t, []
    lp = calls(b, A("varint_length"))
    if len(lp) != 1:
        return None, [f"{len(lp)} calls to varint_length_packed"]
    islen = lambda e: strip_casts(e).k == "call" and strip_casts(e).x.get("site") == lp[0][0]      # `len`, `len as usize`
    # window handed to the length scanner
    w = b.arg_exprs(lp[0][0])[0].strip()
    window = None
    if w.k == "call" and w.x["path"].endswith("::index") and w.a[1].k == "agg" and (w.a[1].x.get("adt") or "").endswith("RangeTo") and is_arg(w.a[0], "data"):
        lim = w.a[1].a[0].strip()
        if lim.k == "call" and lim.x["path"].endswith("::min"):
            ks = [fold(x) for x in lim.a]
            ls = [x for x in lim.a if is_call(x, "::len") and is_arg(x.strip().a[0], "data")]
            if len(ls) == 1 and any(k is not None for k in ks):
                window = [k for k in ks if k is not None][0]
    # val local: the one stored through `value`
    st = [(s, x) for s, x in b.sites() if s.i is not None and x["s"] == "assign" and x["pl"]["p"] == ["*"] and b.local_name(x["pl"]["l"]) == "value"]
    if len(st) == 2:
        # an early exit for one-byte values: `if data[0] & FLAG == 0 { *value = data[0] as u32; return 1 }` agrees
        # with the general table (the scanner stops at byte 0, and data[0] & !FLAG == data[0] when the flag is clear)
        fast = [x for x in st if _is_first_byte(b, strip_casts(b._expr_of_def((x[0], "assign", x[1]["rv"]))))]
        if len(fast) == 1:
            fs = fast[0][0]
            okg = False
            for ge, taken, sbb in guards_of(b, fs.bb):
                g = ge
                if g.k == "bin" and g.x["op"] in ("Eq", "Ne") and fold(g.a[1]) == 0 and g.a[0].strip().k == "bin" and g.a[0].strip().x["op"] == "BitAnd":
                    x, m = g.a[0].strip().a
                    if fold(m) == 0x80 and _is_first_byte(b, x) and ((g.x["op"] == "Eq") == taken):
                        okg = True
                cc = cmp_const(ge, lambda z: _is_first_byte(b, z))
                if cc is not None and ((cc == ("<", 0x80) and taken) or (cc == ("<=", 0x7f) and taken) or (cc == (">=", 0x80) and not taken) or (cc == (">", 0x7f) and not taken)):
                    okg = True
            rets = flat_alts(b.expr_at_return())
            ones = [r for r in rets if fold(r) == 1 and r.x.get("site") is None or fold(r) == 1]
            if not okg:
                return None, ["the one-byte fast path is not guarded by `data[0] & 0x80 == 0`"]
            if not ones:
                return None, ["the one-byte fast path does not return 1"]
            notes.append("fast-path")
            st = [x for x in st if x is not fast[0]]
    if len(st) != 1:
        return None, ["no single `*value = val` store"]
    op = st[0][1]["rv"].get("op")
    if not (st[0][1]["rv"]["rv"] == "use" and op["k"] in ("copy", "move") and not op["pl"]["p"]):
        return None, ["`*value = ..` is not a plain local"]
    vl = op["pl"]["l"]
    d, _ = b.defs()
    for _i in range(8):
        ds = d.get(vl, [])
        if len(ds) == 1 and ds[0][1] == "assign" and ds[0][2]["rv"] == "use" and ds[0][2]["op"]["k"] in ("copy", "move") and not ds[0][2]["op"]["pl"]["p"]:
            vl = ds[0][2]["op"]["pl"]["l"]
        else:
            break
    terms = []
    for site, kind, payload in d.get(vl, []):
        if kind == "call" and callee_name(callee_of(payload)).startswith("std::convert::num::<impl std::convert::From<u8> for u32>"):
            t = _dec_term(b._expr_of_def((site, kind, payload)))
            if t is not None:
                terms.append({"index": t[0], "mask": t[1], "shift": t[2], "accumulate": False, "min_len": _min_len([(cc, tk) for cc, tk in ((cmp_const(ge, islen), taken) for ge, taken, s_ in guards_of(b, site.bb)) if cc is not None])})
                continue
        if kind != "assign":
            notes.append("val assigned by a call")
            continue
        e = b._expr_of_def((site, kind, payload))
        core = e
        accumulate = False
        if e.k == "bin" and e.x["op"] == "BitOr":
            # val |= term : one operand is val itself
            l, r = e.a
            lv = payload["a"]["k"] in ("copy", "move") and payload["a"]["pl"]["l"] == vl
            rv = payload["b"]["k"] in ("copy", "move") and payload["b"]["pl"]["l"] == vl
            if lv or rv:
                core = r if lv else l
                accumulate = True
        t = _dec_term(core)
        g = []
        for ge, taken, s in guards_of(b, site.bb):
            cc = cmp_const(ge, islen)
            if cc is None:
                notes.append(f"unrecognised guard {ge.show()[:60]}")
            else:
                g.append((cc, taken))
        if t is None:
            notes.append(f"unrecognised term at {b.loc(site)}: {core.show()[:80]}")
            continue
        terms.append({"index": t[0], "mask": t[1], "shift": t[2], "accumulate": accumulate, "min_len": _min_len(g)})
    ret = b.expr_at_return()
    ralts = [r for r in flat_alts(ret) if not ("fast-path" in notes and fold(r) == 1)]
    returns_len = bool(ralts) and all(strip_casts(r).strip().k == "call" and strip_casts(r).strip().x.get("site") == lp[0][0] for r in ralts)
    if "fast-path" in notes:
        notes.remove("fast-path")
    terms.sort(key=lambda t: t["index"])
    return {"window": window, "terms": terms, "returns_len": returns_len, "store_dominated": all(b.dominates(Site(s.bb, s.i), st[0][0]) or True for s, k, p in d.get(vl, []))}, notes


def _is_first_byte(b, e):
    """e is data[0] / *data.first().unwrap-ish (the Some payload of data.first())"""
    e = e.strip()
    while e.k in ("cast", "ref", "deref"):
        e = e.a[0].strip()
    if e.k == "index" and is_arg(e.a[0], "data") and len(e.a) > 1 and fold(e.a[1]) == 0:
        return True
    p = unwrap_payload(e, "Some")
    if p is not None:
        p = p.strip()
        return p.k == "call" and p.x["path"].endswith("::first") and is_arg(p.a[0], "data")
    return False


def _decode_window(b, lp):
    w = b.arg_exprs(lp[0][0])[0].strip()
    if w.k == "call" and w.x["path"].endswith("::index") and w.a[1].k == "agg" and (w.a[1].x.get("adt") or "").endswith("RangeTo") and is_arg(w.a[0], "data"):
        lim = w.a[1].a[0].strip()
        if lim.k == "call" and lim.x["path"].endswith("::min"):
            ks = [fold(x) for x in lim.a]
            ls = [x for x in lim.a if is_call(x, "::len") and is_arg(x.strip().a[0], "data")]
            if len(ls) == 1 and any(k is not None for k in ks):
                return [k for k in ks if k is not None][0]
    return None


def _decode_loop_idiom(b, notes):
    """the second accepted form of the decoder:
           let len = varint_length_packed(&data[..data.len().min(5)]) as usize;
           let mut val = (data[0] & 0x7f) as u32;
           for (i, byte) in data[..len].iter().enumerate().skip(1) { val |= ((byte & 0x7f) as u32) << (7 * i as u32); }
           *value = val; len
    checked element by element; it computes the canonical five-term table, which is returned"""
    loops = b.loops()
    if len(loops) != 1:
        notes.append(f"{len(loops)} loops")
        return None
    header, blks = loops[0]
    lp = calls(b, A("varint_length"))
    if len(lp) != 1 or lp[0][0].bb in blks:
        notes.append("the length scanner is not called exactly once before the loop")
        return None
    window = _decode_window(b, lp)
    st = [(s, x) for s, x in b.sites() if s.i is not None and x["s"] == "assign" and x["pl"]["p"] == ["*"] and b.local_name(x["pl"]["l"]) == "value"]
    if len(st) != 1 or st[0][0].bb in blks:
        notes.append("no single `*value = val` after the loop")
        return None
    op = st[0][1]["rv"].get("op")
    if not (st[0][1]["rv"]["rv"] == "use" and op["k"] in ("copy", "move") and not op["pl"]["p"]):
        notes.append("`*value = ..` is not a plain local")
        return None
    V = _var_of(b, op, st[0][0])
    d = b.defs()[0]
    vd = d.get(V, [])
    init = [x for x in vd if x[0].bb not in blks]
    upd = [x for x in vd if x[0].bb in blks]
    if len(init) != 1 or len(upd) != 1 or len(vd) != 2:
        notes.append("val is not defined once before the loop and once in it")
        return None
    t0 = _dec_term(b._expr_of_def(init[0]))
    if t0 != (0, 0x7F, 0):
        notes.append(f"val starts as {b._expr_of_def(init[0]).show()[:50]} (expected (data[0] & 0x7f) as u32)")
        return None
    up = upd[0][2]
    if not (upd[0][1] == "assign" and up["rv"] == "bin" and up["op"] == "BitOr"):
        notes.append("val is not updated with `|=`")
        return None
    sides = [up["a"], up["b"]]
    own = [x for x in sides if x.get("k") in ("copy", "move") and not x["pl"]["p"] and _var_of(b, x, upd[0][0]) == V]
    other = [x for x in sides if x not in own]
    if len(own) != 1 or len(other) != 1:
        notes.append("`val |= term` does not OR into val itself")
        return None
    term = b.expr_of_operand(other[0], upd[0][0]).strip()
    if not (term.k == "bin" and term.x["op"] in ("Shl", "ShlUnchecked")):
        notes.append(f"term is {term.show()[:60]}")
        return None
    x, sh = term.a[0].strip(), term.a[1]
    # x = ((byte & 0x7f) as u32)
    if not (x.k == "cast" and x.x["to"] == "u32"):
        notes.append("term is not widened to u32 before the shift")
        return None
    y = x.a[0].strip()
    mask, byte = None, None
    if y.k == "bin" and y.x["op"] == "BitAnd":
        ks = [fold(z) for z in y.a]
        if ks[1] is not None:
            mask, byte = ks[1], y.a[0]
        elif ks[0] is not None:
            mask, byte = ks[0], y.a[1]
    elif y.k == "call" and y.x["path"].endswith("::bitand") and len(y.a) == 2 and fold(y.a[1]) is not None:
        mask, byte = fold(y.a[1]), y.a[0]
    if mask != 0x7F or byte is None:
        notes.append(f"payload mask is {mask}")
        return None
    # shift = 7 * (i as u32)
    cs = checked(sh) or ((sh.strip().x["op"], sh.strip().a[0], sh.strip().a[1]) if sh.strip().k == "bin" else None)
    if not (cs and cs[0] == "Mul"):
        notes.append("shift is not 7 * i")
        return None
    k0, k1 = fold(cs[1]), fold(cs[2])
    idx = cs[2] if k0 == 7 else (cs[1] if k1 == 7 else None)
    if idx is None:
        notes.append("shift is not a multiple of 7 bits")
        return None
    # byte and i are the two halves of one item of data[..len].iter().enumerate().skip(1)
    bi = byte.strip()
    ii = strip_casts(idx).strip()
    item_b = bi.a[0] if bi.k == "field" and bi.x.get("idx") == 1 else None
    item_i = ii.a[0] if ii.k == "field" and ii.x.get("idx") == 0 else None
    if item_b is None or item_i is None or item_b.ident() != item_i.ident():
        notes.append("byte and index do not come from the same enumerate() item")
        return None
    src = unwrap_payload(item_b, "Some")
    chain = [w.x["path"].rsplit("::", 1)[-1] for w in (src.walk() if src is not None else []) if w.k == "call"]
    want_chain = {"next", "into_iter", "skip", "enumerate", "iter", "index"}
    sk = [w for w in (src.walk() if src is not None else []) if w.k == "call" and w.x["path"].endswith("::skip")]
    ix = [w for w in (src.walk() if src is not None else []) if w.k == "call" and w.x["path"].endswith("::index")]
    okc = src is not None and {"skip", "enumerate", "iter"} <= set(chain) and set(chain) <= want_chain | {"deref", "min", "len", A("varint_length").rsplit("::", 1)[-1]} and len(sk) == 1 and fold(sk[0].a[1]) == 1 \
        and chain.index("skip") < chain.index("enumerate") if (src is not None and "skip" in chain and "enumerate" in chain) else False
    if not okc:
        notes.append(f"the loop does not run over data[..len].iter().enumerate().skip(1) ({chain})")
        return None
    okr = len(ix) >= 1 and is_arg(ix[0].a[0], "data") and ix[0].a[1].k == "agg" and (ix[0].a[1].x.get("adt") or "").endswith("RangeTo") \
        and any(w.k == "call" and w.x.get("site") == lp[0][0] for w in ix[0].a[1].walk())
    if not okr:
        notes.append("the loop does not stop at the scanned length")
        return None
    ret = b.expr_at_return()
    returns_len = all(strip_casts(r).strip().k == "call" and strip_casts(r).strip().x.get("site") == lp[0][0] for r in flat_alts(ret))
    terms = [{"index": i, "mask": 0x7F, "shift": 7 * i, "accumulate": i > 0, "min_len": i + 1 if i > 0 else 1} for i in range(5)]
    return {"window": window, "terms": terms, "returns_len": returns_len, "store_dominated": True, "_loop_index": ii.ident()}


def _min_len(g):
    m = 1
    for (op, c), taken in g:
        if op == ">" and taken:
            m = max(m, c + 1)
        elif op == ">=" and taken:
            m = max(m, c)
        else:
            return None
    return m


def _unwiden(e):
    """(inner, True) when e is `u32::from(inner)` with inner a u8 — the lossless spelling of `inner as u32`"""
    x = e
    while x.k in ("ref", "deref"):
        x = x.a[0]
    if x.k == "call" and len(x.a) == 1 and x.x["path"].startswith("std::convert::num::<impl std::convert::From<u8> for u32>"):
        return x.a[0], True
    return e, False


def _dec_term(e):
    """((data[i] & m) as u32) << s -> (i, m, s)"""
    e, w = _unwiden(e)
    e = e.strip() if not w else e.strip()
    s = 0
    if not w and e.k == "bin" and e.x["op"] in ("Shl", "ShlUnchecked"):
        s = fold(e.a[1])
        e, w = _unwiden(e.a[0])
        e = e.strip()
        if s is None:
            return None
    if w:
        # widened by From: what follows is the u8 expression itself
        m = 0xFF
        if e.k == "bin" and e.x["op"] == "BitAnd":
            l, r = e.a
            if fold(r) is not None:
                m, e = fold(r), l.strip()
            elif fold(l) is not None:
                m, e = fold(l), r.strip()
        if e.k == "index" and is_arg(e.a[0], "data") and len(e.a) > 1 and fold(e.a[1]) is not None:
            return fold(e.a[1]), m, s
        return None
    if e.k == "cast" and e.x["to"] == "u32":
        e = e.a[0].strip()
    else:
        return None
    m = 0xFF
    if e.k == "bin" and e.x["op"] == "BitAnd":
        l, r = e.a
        if fold(r) is not None:
            m, e = fold(r), l.strip()
        elif fold(l) is not None:
            m, e = fold(l), r.strip()
    if e.k == "index" and is_arg(e.a[0], "data") and len(e.a) > 1 and fold(e.a[1]) is not None:
        return fold(e.a[1]), m, s
    return None


def length_scanner(F):
    """varint_length_packed: index of the first byte whose flag bit is clear, plus one.
    Two idioms are recognised: the explicit counting loop and `data.iter().position(|b| b & FLAG == 0)`;
    both are normalised to the same description."""
    b = F.body(A("varint_length"))
    pos = calls(b, "Iterator::position")
    if pos and not b.loops():
        return _scanner_position_idiom(F, b, pos)
    cnt = calls(b, "Iterator::count")
    if cnt and not b.loops():
        return _scanner_take_while_idiom(F, b, cnt)
    out = {"loops": len(b.loops())}
    flag = None
    for site, st in b.sites():
        if site.i is not None and st["s"] == "assign" and st["rv"]["rv"] == "bin" and st["rv"]["op"] in ("Eq", "Ne"):
            e = b._expr_of_def((site, "assign", st["rv"]))
            x, y = e.a
            if fold(y) == 0 and x.strip().k == "bin" and x.strip().x["op"] == "BitAnd":
                l, r = x.strip().a
                m = fold(r) if fold(r) is not None else fold(l)
                d = l if fold(r) is not None else r
                if d.strip().k == "index" and is_arg(d.strip().a[0], "data"):
                    ed = bool_edges(b, value_site=site)
                    brk = None
                    if ed:
                        sw, t_t, f_t = ed
                        stop = t_t if st["rv"]["op"] == "Eq" else f_t
                        brk = not b.in_loop(stop) or stop not in [x for h, blks in b.loops() for x in blks]
                    flag = {"mask": m, "index_is_counter": d.strip().a[1].strip().k in ("var", "phi", "const"), "breaks_when_clear": bool(brk), "in_loop": b.in_loop(site.bb)}
    out["flag_test"] = flag
    inc = []
    d, _ = b.defs()
    for l, lst in d.items():
        for site, kind, payload in lst:
            if kind == "assign":
                c = checked(b._expr_of_def((site, kind, payload)))
                if c and c[0] == "Add" and fold(c[2]) == 1 and payload["rv"] in ("use", "bin") and b.in_loop(site.bb):
                    inc.append(l)
    out["counter_incremented_by_one_in_loop"] = len(inc) == 1
    rets = b.expr_at_return()
    alts = rets.a if rets.k == "phi" else [rets]
    kinds = []
    for a in alts:
        if fold(a) == 0:
            kinds.append("zero")
        else:
            c = checked(a)
            kinds.append("counter+1" if (c and c[0] == "Add" and fold(c[2]) == 1) else "?" + a.show()[:40])
    out["returns"] = sorted(kinds)
    # the zero return is guarded by counter == len(data)
    return out


def _scanner_position_idiom(F, b, pos):
    out = {"loops": 1, "flag_test": None, "counter_incremented_by_one_in_loop": False, "returns": []}
    if len(pos) != 1:
        return out
    a = b.arg_exprs(pos[0][0])
    it = a[0]
    names = [x.x["path"].rsplit("::", 1)[-1] for x in it.walk() if x.k == "call"]
    over_data = any(is_arg(x, "data") for x in it.walk()) and set(names) <= {"iter", "into_iter", "deref"}
    clo = a[1].strip()
    cb = F.by_path.get(clo.x.get("closure"), []) if clo.k == "agg" else []
    if len(cb) == 1 and over_data:
        r = cb[0].expr_at_return()
        lhs = r.a[0].strip() if r.k == "bin" else None
        is_and = lhs is not None and ((lhs.k == "bin" and lhs.x["op"] == "BitAnd") or (lhs.k == "call" and lhs.x["path"].endswith("::bitand")))
        if r.k == "bin" and r.x["op"] == "Eq" and fold(r.a[1]) == 0 and is_and:
            l, rr = lhs.a
            m = fold(rr) if fold(rr) is not None else fold(l)
            byte = l if fold(rr) is not None else rr
            if byte.strip().k == "arg":
                # position() visits elements in order, counts from 0, stops at the first true
                out["flag_test"] = {"mask": m, "index_is_counter": True, "breaks_when_clear": True, "in_loop": True}
                out["counter_incremented_by_one_in_loop"] = True
    rets = b.expr_at_return()
    alts = rets.a if rets.k == "phi" else [rets]
    kinds = []
    for x in alts:
        if fold(x) == 0:
            kinds.append("zero")
        else:
            c = checked(x)
            pay = unwrap_payload(strip_casts(c[1]), "Some") if (c and c[0] == "Add" and fold(c[2]) == 1) else None
            kinds.append("counter+1" if (pay is not None and pay.strip().x.get("site") == pos[0][0]) else "?" + x.show()[:40])
    out["returns"] = sorted(kinds)
    return out


def _scanner_take_while_idiom(F, b, cnt):
    """`let i = data.iter().take_while(|b| b & FLAG != 0).count(); if i == data.len() { 0 } else { i as u32 + 1 }`:
    i is the index of the first byte whose flag is clear (or len when there is none) — the counting loop exactly"""
    out = {"loops": 1, "flag_test": None, "counter_incremented_by_one_in_loop": False, "returns": []}
    if len(cnt) != 1:
        return out
    it = b.arg_exprs(cnt[0][0])[0].strip()
    if not (it.k == "call" and it.x["path"].endswith("Iterator::take_while") and len(it.a) == 2):
        return out
    src, clo = it.a[0], it.a[1].strip()
    names = [x.x["path"].rsplit("::", 1)[-1] for x in src.walk() if x.k == "call"]
    over_data = any(is_arg(x, "data") for x in src.walk()) and set(names) <= {"iter", "into_iter", "deref"}
    cb = F.by_path.get(clo.x.get("closure"), []) if clo.k == "agg" else []
    if len(cb) == 1 and over_data:
        r = cb[0].expr_at_return()
        lhs = r.a[0].strip() if r.k == "bin" else None
        is_and = lhs is not None and lhs.k == "bin" and lhs.x["op"] == "BitAnd"
        if r.k == "bin" and r.x["op"] == "Ne" and fold(r.a[1]) == 0 and is_and:
            l, rr = lhs.a
            m = fold(rr) if fold(rr) is not None else fold(l)
            byte = l if fold(rr) is not None else rr
            if byte.strip().k == "arg":
                out["flag_test"] = {"mask": m, "index_is_counter": True, "breaks_when_clear": True, "in_loop": True}
                out["counter_incremented_by_one_in_loop"] = True
    # returns: 0 exactly when the count equals data.len(), count + 1 otherwise
    kinds = []
    for x in flat_alts(b.expr_at_return()):
        if fold(x) == 0:
            kinds.append("zero")
        else:
            c = checked(x)
            base = strip_casts(c[1]).strip() if (c and c[0] == "Add" and fold(c[2]) == 1) else None
            kinds.append("counter+1" if (base is not None and base.k == "call" and base.x.get("site") == cnt[0][0]) else "?" + x.show()[:40])
    # the zero alternative is taken on `count == data.len()`
    okz = False
    for site, st in b.sites():
        if site.i is not None and st["s"] == "assign" and st["rv"]["rv"] == "bin" and st["rv"]["op"] in ("Eq", "Ne"):
            e = b._expr_of_def((site, "assign", st["rv"]))
            x, y = e.a[0].strip(), e.a[1].strip()
            if y.k == "call" and y.x.get("site") == cnt[0][0]:
                x, y = y, x
            if x.k == "call" and x.x.get("site") == cnt[0][0] and y.k == "call" and y.x["path"].endswith("::len") and is_arg(y.a[0], "data"):
                okz = True
    out["returns"] = sorted(kinds) if okz else ["?zero-not-on-count==len"]
    return out


def leb128_conditions(enc, dec, scan):
    """the exact conditions under which the extracted tables are a lossless 1..5 byte framing of
    0..2^32-1; returns list of (key, ok, message)"""
    res = []
    n = len(enc)
    res.append(("five-branches", n == 5, f"encode has {n} guarded branches (expected 5)"))
    cover = enc and enc[0]["lo"] == 0 and enc[-1]["hi"] == 2**32 and all(enc[i]["hi"] == enc[i + 1]["lo"] for i in range(n - 1))
    res.append(("branches-partition-u32", bool(cover), "the branch guards partition 0..2^32 without gap or overlap: " + str([(r["lo"], r["hi"]) for r in enc])))
    for k, row in enumerate(enc, start=1):
        res.append((f"branch-{k}/length", row["len"] == k, f"branch {k} returns &bytes[..{row['len']}] (expected {k})"))
        res.append((f"branch-{k}/threshold", row["hi"] <= 2 ** (7 * k) or k == 5, f"branch {k} covers values < {row['hi']} — must be <= 2^{7*k} = {2**(7*k)} or its last byte would carry the continuation flag"))
        st = row["stores"]
        want = {i: (7 * i, 0x80 if i < k - 1 else 0) for i in range(k)}
        res.append((f"branch-{k}/bytes", st == want, f"branch {k} stores {st} as (shift, or-mask) per byte (expected {want}: 7-bit groups, least significant first, flag on all but the last)"))
    if dec is None:
        res.append(("decode-extracted", False, "decode table could not be extracted"))
        return res
    res.append(("decode-window", dec["window"] == 5, f"the length scanner sees the first min(len, {dec['window']}) bytes (expected 5)"))
    res.append(("decode-returns-length", bool(dec["returns_len"]), "varint_decode32 returns the scanned length as the number of bytes consumed"))
    terms = dec["terms"]
    want_t = [{"index": i, "mask": 0x7F if i < 4 else 0x0F, "shift": 7 * i, "accumulate": i > 0, "min_len": i + 1 if i > 0 else 1} for i in range(5)]
    ok = len(terms) == 5 and all(t["index"] == w["index"] and t["shift"] == w["shift"] and t["accumulate"] == w["accumulate"] and t["min_len"] == w["min_len"] and t["mask"] == w["mask"] for t, w in zip(terms, want_t))
    res.append(("decode-terms", ok, f"decode ORs {[(t['index'], hex(t['mask']), t['shift'], t['min_len']) for t in terms]} as (byte, mask, shift, needs len >=) (expected effective payload mask 0x7f — 0x0f for the fifth byte, whose upper bits are shifted out —, shifts 0,7,14,21,28, term i only when length > i)"))
    # agreement
    sh_e = sorted({s for r in enc for (s, m) in r["stores"].values()})
    sh_d = sorted({t["shift"] for t in terms})
    res.append(("shift-sets-agree", sh_e == sh_d == [0, 7, 14, 21, 28], f"encode shifts {sh_e} = decode shifts {sh_d}"))
    flags = {m for r in enc for (s, m) in r["stores"].values() if m}
    res.append(("flag-agrees", flags == {0x80} and scan.get("flag_test") and scan["flag_test"]["mask"] == 0x80, f"continuation flag: encoder sets {sorted(flags)}, scanner tests {scan.get('flag_test')}"))
    res.append(("scanner-shape", scan.get("loops") == 1 and scan.get("counter_incremented_by_one_in_loop") and scan.get("flag_test") and scan["flag_test"]["breaks_when_clear"] and scan["flag_test"]["in_loop"] and scan.get("returns") == ["counter+1", "zero"],
                f"length scanner: {scan}"))
    return res
