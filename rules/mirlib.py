"""mirlib — loads factgen JSON and provides the analysis primitives every rule is built from:
CFG (unwind edges separated), dominators / post-dominators, loops, reaching-definition
based expression reconstruction (FLOW), call / field-store inventories (CALLS / FIELD),
"between" sets (PAIR), enum switch tables (TABLE).  Python stdlib only.  Nothing here
executes analysed code; everything is read from the compiler's MIR of the real build.
"""
import json
import re
from collections import defaultdict, deque

# ---------------------------------------------------------------------------------------
# discriminant tables for std enums that grenad switches on (the crate's own enums come
# from the fact file)
STD_ENUMS = {
    "std::option::Option": {0: "None", 1: "Some"},
    "std::result::Result": {0: "Ok", 1: "Err"},
    "std::ops::Bound": {0: "Included", 1: "Excluded", 2: "Unbounded"},
    "std::ops::ControlFlow": {0: "Continue", 1: "Break"},
    "std::borrow::Cow": {0: "Borrowed", 1: "Owned"},
    "either::Either": {0: "Left", 1: "Right"},
    "std::cmp::Ordering": {-1: "Less", 0: "Equal", 1: "Greater", 255: "Less"},
}


def enum_of_type(ty):
    """'std::option::Option<&[u8]>' -> 'std::option::Option'"""
    t = ty.strip()
    while t.startswith("&"):
        t = t[1:].lstrip()
        if t.startswith("mut "):
            t = t[4:]
        if t.startswith("'"):
            t = t.split(" ", 1)[1] if " " in t else t
    i = t.find("<")
    return t if i < 0 else t[:i]


_INT_DEFAULTS = ("u8", "u16", "u32", "u64", "u128", "usize", "i8", "i16", "i32", "i64", "i128", "isize")

# single-field private structs introduced by an edit (not part of the pinned tree): transparent for Expr.strip
NEWTYPES = set()


class Facts:
    def __init__(self, path):
        with open(path) as f:
            self.raw = json.load(f)
        self.path = path
        self.crate = self.raw["crate"]
        self.version = self.raw["version"]
        self.nonce = self.raw.get("nonce", "")
        self.config = self.raw.get("config", "")
        self.inlined = []
        self.aligned = {}
        self.unknown_fns = set()
        self.value_refs = {}
        if self.crate == "grenad" and self.version != "0.4.7":
            from . import inline, normalize
            self.aligned = normalize.normalize(self.raw)
            self.inlined = inline.inline_unknown_helpers(self.raw)
            # a new helper is "absorbed" (analysed inside its callers) only if it was actually spliced
            # somewhere: a new function nobody in the crate calls directly (a trait-impl method reached
            # through std, a new public entry point) stays a body of its own
            spliced = {callee for caller, callee in self.inlined}
            self.unknown_fns = {p for p in inline.unknown_local_fns(self.raw) if p in spliced}
            self.value_refs = inline.value_referenced(self.raw, inline.unknown_local_fns(self.raw))
        import os as _os
        if _os.environ.get("VERIF_NO_DESUGAR") != "1":
            from . import desugar
            self.desugared = desugar.desugar(self.raw)
            if self.crate == "grenad" and self.version != "0.4.7":
                # desugaring turns `x.map(helper)` into a call of `helper`: splice new helpers again, and
                # desugar what their bodies brought in, until nothing changes
                from . import inline
                inl_closures = set(self.raw.get("_inlined_closures", []))
                for _ in range(3):
                    more = inline.inline_unknown_helpers(self.raw)
                    if not more:
                        break
                    self.inlined += more
                    spliced = {callee for caller, callee in self.inlined}
                    self.unknown_fns = {p for p in inline.unknown_local_fns(self.raw) if p in spliced}
                    self.value_refs = inline.value_referenced(self.raw, inline.unknown_local_fns(self.raw))
                    self.desugared += desugar.desugar(self.raw)
                    inl_closures |= set(self.raw.get("_inlined_closures", []))
                self.raw["_inlined_closures"] = sorted(inl_closures)
        if _os.environ.get("VERIF_NO_THREAD") != "1" and self.crate == "grenad" and self.version != "0.4.7" and (self.inlined or self.raw.get("_inlined_closures")):
            from . import thread
            self.threaded = thread.thread(self.raw)
        if _os.environ.get("VERIF_NO_REFFWD") != "1" and self.crate == "grenad" and self.version != "0.4.7" and self.inlined:
            # helpers spliced into their callers access the caller's places through the references they were handed
            from . import refforward
            self.forwarded = refforward.forward(self.raw, {caller for caller, callee in self.inlined})
            from . import normalize as _nz
            _nz.reflatten(self.raw)
            if _os.environ.get("VERIF_NO_SROA") != "1":
                # private structs the pinned tree does not have, held in a local and only accessed field by field
                from . import sroa
                pin = _nz.pinned()
                known = set(pin["adts"]) | set(pin.get("enums", []))
                news = {a_["path"]: a_["variants"][0]["fields"] for a_ in self.raw["adts"] if a_["kind"] == "Struct" and a_["variants"] and a_["path"] not in known and not a_["path"].startswith(("std::", "core::", "alloc::"))}
                self.sroa = sroa.split(self.raw, {caller for caller, callee in self.inlined}, news) if news else 0
        if self.crate == "grenad" and self.version != "0.4.7":
            from . import normalize as _nz2
            _pin = _nz2.pinned()
            _known = set(_pin["adts"]) | set(_pin.get("enums", []))
            for a_ in self.raw["adts"]:
                if a_["kind"] == "Struct" and a_["variants"] and len(a_["variants"][0]["fields"]) == 1 and a_["path"] not in _known and not a_["path"].startswith(("std::", "core::", "alloc::")) and not a_.get("pub"):
                    NEWTYPES.add(a_["path"])
        self.bodies = [Body(b, self) for b in self.raw["bodies"]]
        self.by_path = defaultdict(list)
        for b in self.bodies:
            self.by_path[b.path].append(b)
        self.adts = {a["path"]: a for a in self.raw["adts"]}
        self.fns = {}
        for f in self.raw["fns"]:
            self.fns.setdefault(f["path"], f)
        self.impls = self.raw["impls"]
        self.traits = {t["path"]: t for t in self.raw["traits"]}
        self.consts = {c["path"]: c for c in self.raw["consts"]}
        self.unsafety = self.raw["unsafety"]
        self.enum_tables = dict(STD_ENUMS)
        for a in self.raw["adts"]:
            if a["kind"] == "Enum":
                self.enum_tables[a["path"]] = {int(v["discr"]): v["name"] for v in a["variants"]}

    def body(self, path):
        """the unique body with this def path (fail closed if absent/ambiguous)"""
        bs = self.by_path.get(path, [])
        if len(bs) != 1:
            raise AnchorMissing(f"body {path!r}: found {len(bs)} in {self.config}")
        return bs[0]

    def has_body(self, path):
        return len(self.by_path.get(path, [])) == 1

    def find_bodies(self, regex):
        r = re.compile(regex)
        return [b for b in self.bodies if r.search(b.path)]

    def closures_of(self, path):
        """closures of `path`, plus helper functions unknown to the pinned tree that `path` uses as
        function values (a closure moved into a named private function is still that closure)"""
        absorbed = set(self.raw.get("_inlined_closures", []))
        out = [b for b in self.bodies if b.kind == "Closure" and b.path.startswith(path + "::{closure") and not _absorbed(b.path, absorbed)]
        for p, refs in self.value_refs.items():
            if path in refs:
                out += self.by_path.get(p, [])
                out += [b for b in self.bodies if b.kind == "Closure" and b.path.startswith(p + "::{closure")]
        # a closure written in a helper the pinned tree does not have, spliced into `path`, is a closure of `path`
        from . import inline
        known = inline.known_fns()
        seen = set()
        for caller, callee in self.inlined:
            if caller == path and callee not in known and callee not in seen:
                seen.add(callee)
                out += [b for b in self.bodies if b.kind == "Closure" and b.path.startswith(callee + "::{closure") and not _absorbed(b.path, absorbed) and b not in out]
        return out

    def user_bodies(self):
        """bodies that are not compiler-derived impls and not const-assert helpers"""
        out = []
        for b in self.bodies:
            if b.is_derived():
                continue
            root = b.path.split("::{closure")[0]
            if root in self.unknown_fns and root not in self.value_refs:
                continue  # a helper unknown to the pinned tree, inlined into every caller: analysed there
            if b.kind == "Closure" and _absorbed(b.path, set(self.raw.get("_inlined_closures", []))):
                continue  # a closure inlined at the combinator that applies it: analysed in its parent
            out.append(b)
        return out

    def const_int(self, path):
        c = self.consts.get(path)
        if c is None or "int" not in c:
            raise AnchorMissing(f"const {path!r} not found / not evaluated in {self.config}")
        return int(c["int"])

    def variant_name(self, enum_path, discr):
        t = self.enum_tables.get(enum_path)
        if t is None:
            return None
        return t.get(discr)


def _absorbed(path, absorbed):
    """a closure (or a closure nested in it) that was inlined into its parent"""
    return any(path == a or path.startswith(a + "::{closure") for a in absorbed)


class AnchorMissing(Exception):
    pass


# ---------------------------------------------------------------------------------------
# places / operands helpers


def place_str(pl, body=None):
    s = f"_{pl['l']}"
    if body is not None:
        nm = body.local_name(pl["l"])
        if nm:
            s = nm
    for e in pl["p"]:
        if e == "*":
            s = f"(*{s})"
        elif "f" in e:
            s = f"{s}.{e.get('name', e['f'])}"
        elif "index" in e:
            s = f"{s}[_{e['index']}]"
        elif "cindex" in e:
            s = f"{s}[{'-' if e['from_end'] else ''}{e['cindex']}]"
        elif "subslice_from" in e:
            s = f"{s}[{e['subslice_from']}..{'-' if e['from_end'] else ''}{e['to']}]"
        elif "downcast" in e:
            s = f"({s} as {e['downcast']})"
        else:
            s = f"{s}.?"
    return s


def operand_str(op, body=None):
    k = op["k"]
    if k in ("copy", "move"):
        return place_str(op["pl"], body)
    if k == "const":
        if "fn" in op:
            return "fn:" + op["fn"]["path"]
        if "int" in op:
            return f"{op['int']}_{op['ty']}"
        return op.get("text", "?")
    return "?"


def is_local(op, l=None):
    return op["k"] in ("copy", "move") and not op["pl"]["p"] and (l is None or op["pl"]["l"] == l)


def const_int(op):
    if op["k"] == "const" and "int" in op:
        return int(op["int"])
    return None


# ---------------------------------------------------------------------------------------
# Expr: reconstructed symbolic value of an operand at a program point


class Expr:
    """kinds: arg, var, const, fn, field, deref, ref, index, downcast, call, bin, un, cast,
    discr, agg, phi, unknown, len"""

    __slots__ = ("k", "a", "x")

    def __init__(self, k, a=(), **x):
        self.k = k
        self.a = tuple(a)
        self.x = x

    def __repr__(self):
        return self.show()

    # canonical rendering: borrows/derefs/copies erased, transparent calls erased
    def show(self):
        k, a, x = self.k, self.a, self.x
        if k == "arg":
            return x["name"] or f"arg{x['i']}"
        if k == "var":
            return f"var:{x['name']}"
        if k == "const":
            return str(x["v"])
        if k == "fn":
            return "fn:" + x["path"]
        if k == "text":
            return x["t"]
        if k == "field":
            if x["name"] == "0" and a[0].k == "downcast" and a[0].x["variant"] == "Continue":
                return a[0].show()
            if x["name"] == "0" and a[0].k == "downcast" and a[0].x["variant"] == "Ok" and a[0].a[0].strip().k == "call":
                return a[0].a[0].show() + "?"
            return f"{a[0].show()}.{x['name']}"
        if k in ("deref", "ref"):
            return a[0].show()
        if k == "index":
            return f"{a[0].show()}[{a[1].show() if len(a) > 1 else x.get('i', '?')}]"
        if k == "downcast":
            if x["variant"] == "Continue" and a[0].k == "call" and a[0].x["path"].endswith("Try>::branch"):
                return f"{a[0].a[0].show()}?"
            return f"{a[0].show()}@{x['variant']}"
        if k == "call":
            return f"{short_path(x['path'])}({', '.join(e.show() for e in a)})"
        if k == "bin":
            return f"({a[0].show()} {x['op']} {a[1].show()})"
        if k == "un":
            return f"{x['op']}({a[0].show()})"
        if k == "cast":
            return f"({a[0].show()} as {x['to']})"
        if k == "discr":
            return f"discr({a[0].show()})"
        if k == "agg":
            return f"{x['what']}{{{', '.join(e.show() for e in a)}}}"
        if k == "phi":
            return "phi(" + " | ".join(sorted(set(e.show() for e in a))) + ")"
        if k == "len":
            return f"len({a[0].show()})"
        return "?"

    def walk(self):
        yield self
        for c in self.a:
            yield from c.walk()

    def ident(self):
        """identity of the *object* an expression denotes: calls are identified by callee and call
        site (not by their argument text), so loop-carried values compare equal however the cycle
        was cut during reconstruction"""
        e = self.strip()
        k = e.k
        if k == "call":
            return f"{short_path(e.x['path'])}#{e.x.get('site')}"
        if k == "field":
            return f"{e.a[0].ident()}.{e.x['name']}"
        if k == "downcast":
            return f"{e.a[0].ident()}@{e.x['variant']}"
        if k == "index":
            return f"{e.a[0].ident()}[{e.a[1].ident() if len(e.a) > 1 else e.x.get('i')}]"
        if k == "arg":
            return e.x["name"] or f"arg{e.x['i']}"
        if k == "phi":
            ids = sorted({c.ident() for c in e.a})
            return ids[0] if len(ids) == 1 else "phi(" + "|".join(ids) + ")"
        return e.show()

    def strip(self, keep_phi=False):
        """drop ref/deref/transparent wrappers at the top (keep_phi: do not merge a join whose alternatives print
        the same — they may be the same call at different sites)"""
        e = self
        while True:
            if e.k in ("ref", "deref"):
                e = e.a[0]
            elif e.k == "cast" and e.x.get("transparent"):
                e = e.a[0]
            elif e.k == "call" and is_transparent(e.x["path"]) and e.a:
                e = e.a[0]
            elif e.k == "field" and e.x["name"] == "0" and e.a[0].k == "downcast" and e.a[0].x["variant"] == "Continue" and e.a[0].a[0].k == "call" and e.a[0].a[0].x["path"].endswith("Try>::branch") and e.a[0].a[0].a:
                br = e.a[0].a[0]
                x = br.a[0]
                # `x?` -> the Ok/Some payload of x when x's construction is visible (a join of Ok(v) and Err(..):
                # only the Ok side continues), otherwise x itself stands for its payload
                pv = _constructed_payload(x, "Some" if "option::Option" in br.x["path"] else "Ok", 0) if x.k in ("phi", "agg") else None
                e = pv if pv is not None else x
            elif e.k == "field" and e.x["name"] == "0" and e.a[0].k == "downcast" and e.a[0].x["variant"] == "Ok" and e.a[0].a[0].strip().k == "call":
                e = e.a[0].a[0]  # `match r { Ok(x) => x, Err(e) => return Err(e) }` -> r (the Ok payload of r)
            elif e.k == "phi" and not keep_phi and len({c.show() for c in e.a}) == 1:
                e = e.a[0]
            elif e.k == "agg" and e.x.get("ak") == "adt" and len(e.a) == 1 and e.x.get("adt") in NEWTYPES:
                e = e.a[0]      # a private wrapper struct around one value that the pinned tree does not have
            elif e.k == "call" and len(e.a) == 2 and e.x["path"].endswith(("::index", "::index_mut")) and e.a[1].strip().k == "agg" and (e.a[1].strip().x.get("adt") or "").endswith("ops::RangeFull"):
                e = e.a[0]      # v[..] is the whole of v
            elif e.k == "field" and isinstance(e.x.get("idx"), int) and e.a[0].strip().k == "agg" and e.a[0].strip().x.get("ak") == "tuple" and e.x["idx"] < len(e.a[0].strip().a):
                e = e.a[0].strip().a[e.x["idx"]]      # (a, b).1 -> b
            elif e.k == "call" and e.a and e.x["path"].rsplit("::", 1)[-1] in ("unwrap", "expect") and e.x["path"].startswith(("std::result::Result", "std::option::Option")):
                # unwrap of a value whose construction is visible: the Ok / Some payload
                inner = _constructed_payload(e.a[0], "Ok" if "Result" in e.x["path"] else "Some", 0)
                if inner is None:
                    return e
                e = inner
            else:
                return e

    def calls(self, path_suffix=None):
        for e in self.walk():
            if e.k == "call" and (path_suffix is None or e.x["path"].endswith(path_suffix)):
                yield e

    def mentions_field(self, name):
        return any(e.k == "field" and e.x["name"] == name for e in self.walk())

    def mentions_arg(self, name):
        return any(e.k == "arg" and e.x["name"] == name for e in self.walk())

    def leaves(self):
        for e in self.walk():
            if not e.a:
                yield e


# calls that return (a view of) their first argument unchanged
TRANSPARENT_CALLS = {
    "std::ops::Deref::deref",
    "std::ops::DerefMut::deref_mut",
    "std::convert::AsRef::as_ref",
    "std::convert::AsMut::as_mut",
    "std::borrow::Borrow::borrow",
    "std::borrow::BorrowMut::borrow_mut",
    "std::vec::Vec::<T, A>::as_slice",
    "std::vec::Vec::<T, A>::as_mut_slice",
    "std::convert::Into::into",
    "std::convert::From::from",
    "std::iter::IntoIterator::into_iter",
    "std::option::Option::<T>::as_ref",
    "std::option::Option::<T>::as_mut",
    "std::option::Option::<T>::as_deref",
    "std::clone::Clone::clone",
    "std::slice::<impl [T]>::to_vec",
    "std::borrow::ToOwned::to_owned",
}


TRANSPARENT_LAST = {"deref", "deref_mut", "as_ref", "as_mut", "borrow", "borrow_mut", "as_slice", "as_mut_slice",
                    "into_iter", "clone", "to_vec", "to_owned", "as_deref", "as_deref_mut", "as_bytes"}


def is_transparent(path):
    if path in TRANSPARENT_CALLS:
        return True
    last = path.rsplit("::", 1)[-1]
    if last in TRANSPARENT_LAST:
        return True
    if path.startswith("std::convert::num::<impl std::convert::From<") and path.endswith(">::from"):
        return True      # lossless integer widening (`usize::from(x)` for `x as usize`)
    return path.endswith("Into>::into") or path.endswith("From>::from") or path.endswith("::Into::into") or path.endswith("::From::from")


def short_path(p):
    """readable short name for a def path: keep last two segments"""
    p = re.sub(r"<[^<>]*>", "", p)
    p = re.sub(r"<[^<>]*>", "", p)
    parts = [s for s in p.split("::") if s]
    return "::".join(parts[-2:]) if len(parts) >= 2 else p


# ---------------------------------------------------------------------------------------


class Site:
    """a program point: block index + statement index (None = terminator)"""

    __slots__ = ("bb", "i")

    def __init__(self, bb, i):
        self.bb = bb
        self.i = i

    def __repr__(self):
        return f"bb{self.bb}[{'T' if self.i is None else self.i}]"

    def key(self):
        return (self.bb, 10**9 if self.i is None else self.i)

    def __eq__(self, o):
        return isinstance(o, Site) and self.bb == o.bb and self.i == o.i

    def __hash__(self):
        return hash((self.bb, self.i))


class Body:
    def __init__(self, raw, facts):
        self.raw = raw
        self.facts = facts
        self.path = raw["path"]
        self.kind = raw["kind"]
        self.blocks = raw["blocks"]
        self.locals = raw["locals"]
        self.arg_count = raw["arg_count"]
        self.span = raw["span"]
        self.file = raw["span"]["file"]
        self.line = raw["span"]["line"]
        self._names = {}
        for n in raw["names"]:
            pl = n["place"]
            if not pl["p"]:
                self._names.setdefault(pl["l"], n["name"])
        self._closure_captures = [n for n in raw["names"] if n["place"]["p"]]
        self._succ = None
        self._pred = None
        self._dom = None
        self._pdom = None
        self._defs = None
        self._reach = {}
        self._cl = None
        self._forced = {}
        self._dab = None

    # ---- identity
    def is_fieldwise_clone(self):
        """a hand-written `Clone::clone` that does what the derive does: returns `Self { f: self.f (Copy) or
        self.f.clone(), .. }` for every field and calls nothing else"""
        c = getattr(self, "_fwclone", None)
        if c is not None:
            return c
        self._fwclone = False
        if not (self.path.startswith("<") and self.path.endswith(" as std::clone::Clone>::clone")):
            return False
        ty = self.path[1:].split(" as ")[0].split("<")[0]
        adt = self.facts.adts.get(ty)
        if not adt or adt["kind"] != "Struct" or not adt["variants"]:
            return False
        fields = [f["name"] for f in adt["variants"][0]["fields"]]
        try:
            e = self.expr_at_return().strip()
        except Exception:
            return False
        if not (e.k == "agg" and e.x.get("adt") == ty and len(e.a) == len(fields)):
            return False
        names = e.x.get("fields") or fields
        for nm, v in zip(names, e.a):
            x = v.strip()
            if x.k == "call" and x.x["path"].endswith(("Clone::clone", "Clone>::clone")) and len(x.a) == 1:
                x = x.a[0].strip()
            if not (x.k == "field" and x.x.get("name") == nm and x.a[0].strip().k == "arg" and x.a[0].strip().x.get("i") == 1):
                return False
        if any(not callee_name(c_).endswith(("Clone::clone", "Clone>::clone")) for s_, c_, t_ in self.calls() if c_ is not None):
            return False
        self._fwclone = True
        return True

    def is_derived(self):
        f = self.facts.fns.get(self.path)
        if f and f.get("derived"):
            return True
        if self.path.endswith(" as std::clone::Clone>::clone") and self.is_fieldwise_clone():
            return True
        if "macros" in self.span and any(m in ("Pod", "Zeroable", "derive") for m in self.span["macros"]):
            return True
        return "::_::" in self.path or self.path.endswith("::_")

    def local_name(self, l):
        return self._names.get(l)

    def local_ty(self, l):
        return self.locals[l]["ty"]

    def arg_name(self, i):
        return self._names.get(i)

    def arg_by_name(self, name):
        for l in range(1, self.arg_count + 1):
            if self._names.get(l) == name:
                return l
        return None

    def loc(self, site=None):
        if site is None:
            return f"{rel(self.file)}:{self.line}"
        sp = self.span_at(site)
        return f"{rel(sp['file'])}:{sp['line']}"

    def span_at(self, site):
        b = self.blocks[site.bb]
        if site.i is None:
            return b["term"]["span"]
        return b["stmts"][site.i]["span"]

    def src_at(self, site):
        return self.span_at(site).get("src", "")

    def macros_at(self, site):
        return self.span_at(site).get("macros", [])

    # ---- CFG
    def term(self, bb):
        return self.blocks[bb]["term"]

    def _build_cfg(self):
        n = len(self.blocks)
        succ = [[] for _ in range(n)]
        usucc = [[] for _ in range(n)]
        for i, b in enumerate(self.blocks):
            t = b["term"]
            k = t["t"]
            if k == "goto":
                succ[i].append(t["target"])
            elif k == "switch" and self._const_discr2(b, t) is not None:
                # constant condition (cfg!(debug_assertions), a `match` on an enum value that is a literal
                # at this point — typically a direction / mode parameter of a helper spliced into its caller):
                # only the taken edge exists
                v = self._const_discr2(b, t)
                tgt = t["otherwise"]
                for av, tb in t["arms"]:
                    if int(av) == v:
                        tgt = tb
                succ[i].append(tgt)
            elif k == "switch":
                seen = []
                for _, tb in t["arms"]:
                    if tb not in seen:
                        seen.append(tb)
                if t["otherwise"] not in seen:
                    # an otherwise edge to a bare `unreachable` block is not a real edge
                    if self.blocks[t["otherwise"]]["term"]["t"] != "unreachable" or self.blocks[t["otherwise"]]["stmts"]:
                        seen.append(t["otherwise"])
                succ[i].extend(seen)
            elif k in ("drop", "assert"):
                succ[i].append(t["target"])
                if isinstance(t.get("unwind"), int):
                    usucc[i].append(t["unwind"])
            elif k == "call":
                if t["target"] is not None:
                    succ[i].append(t["target"])
                if isinstance(t.get("unwind"), int):
                    usucc[i].append(t["unwind"])
        self._succ = succ
        self._usucc = usucc
        # blocks that cannot be reached from the entry (arms of a pruned constant switch) have no say in what
        # reaches a join: they are not predecessors of anything
        live = {0}
        todo = [0]
        while todo:
            x = todo.pop()
            for y in succ[x] + usucc[x]:
                if y not in live:
                    live.add(y)
                    todo.append(y)
        pred = [[] for _ in range(n)]
        for i, ss in enumerate(succ):
            if i not in live:
                continue
            for s in ss:
                pred[s].append(i)
        self._pred = pred
        self._live = live

    def _const_locals(self):
        """locals that hold one known integer: exactly one definition, which is an integer literal, a literal
        unit variant of an enum (value = its discriminant), a copy of such a local, or the discriminant of one"""
        if getattr(self, "_cl", None) is not None:
            return self._cl
        defs = {}
        multi = set()
        for blk in self.blocks:
            for st in blk["stmts"]:
                if st["s"] == "assign" and not st["pl"]["p"]:
                    l = st["pl"]["l"]
                    if l in defs:
                        multi.add(l)
                    defs[l] = st["rv"]
                elif st["s"] == "assign":
                    multi.add(st["pl"]["l"])
            t = blk["term"]
            if t.get("t") == "call" and "dest" in t:
                multi.add(t["dest"]["l"])
            if t.get("t") == "call":
                for a_ in t.get("args", []):
                    pass
        # a local whose address is taken mutably may change behind our back
        for blk in self.blocks:
            for st in blk["stmts"]:
                if st["s"] == "assign" and st["rv"]["rv"] in ("ref", "rawptr") and st["rv"].get("bk") in ("mut", "Mut"):
                    multi.add(st["rv"]["pl"]["l"])
        for l in range(1, self.arg_count + 1):
            multi.add(l)
        known = {}
        enum_discr = {}
        for p, a_ in self.facts.adts.items():
            if a_["kind"] == "Enum":
                enum_discr[p] = {v["name"]: int(v["discr"]) for v in a_["variants"] if "discr" in v}
        for _ in range(4):
            changed = False
            for l, rv in defs.items():
                if l in multi or l in known:
                    continue
                v = None
                if rv["rv"] == "use":
                    op = rv["op"]
                    if op["k"] == "const" and "int" in op:
                        v = ("int", int(op["int"]))
                    elif op["k"] == "const" and op.get("variant") and op.get("ty") in enum_discr and op["variant"] in enum_discr[op["ty"]]:
                        v = ("enum", enum_discr[op["ty"]][op["variant"]])
                    elif op["k"] in ("copy", "move") and not op["pl"]["p"] and op["pl"]["l"] in known:
                        v = known[op["pl"]["l"]]
                elif rv["rv"] == "agg" and rv.get("ak") == "adt" and not rv.get("ops") and rv.get("adt") in enum_discr and rv.get("variant") in enum_discr[rv["adt"]]:
                    v = ("enum", enum_discr[rv["adt"]][rv["variant"]])
                elif rv["rv"] == "agg" and rv.get("ak") == "adt" and rv.get("adt") in ("std::option::Option", "std::result::Result") and "vidx" in rv:
                    v = ("enum", int(rv["vidx"]))      # the variant built is known whatever its payload
                elif rv["rv"] == "discr" and not rv["pl"]["p"] and rv["pl"]["l"] in known and known[rv["pl"]["l"]][0] == "enum":
                    v = ("int", known[rv["pl"]["l"]][1])
                if v is not None:
                    known[l] = v
                    changed = True
            if not changed:
                break
        self._cl = known
        return known

    def _const_discr2(self, blk, t):
        v = self._const_discr(blk, t)
        if v is not None:
            return v
        for bb_, fv in self._forced.items():
            if self.blocks[bb_]["term"] is t:
                return fv
        d = t["discr"]
        if d["k"] in ("copy", "move") and not d["pl"]["p"]:
            k = self._const_locals().get(d["pl"]["l"])
            if k is not None and k[0] == "int":
                return k[1]
        return None

    @staticmethod
    def _const_discr(blk, t):
        d = t["discr"]
        if d["k"] == "const" and "int" in d:
            return int(d["int"])
        if d["k"] in ("copy", "move") and not d["pl"]["p"]:
            l = d["pl"]["l"]
            val = None
            for st in blk["stmts"]:
                if st["s"] == "assign" and not st["pl"]["p"] and st["pl"]["l"] == l:
                    rv = st["rv"]
                    if rv["rv"] == "use" and rv["op"]["k"] == "const" and "int" in rv["op"]:
                        val = int(rv["op"]["int"])
                    else:
                        val = None
            return val
        return None

    def _ensure_cfg(self):
        if self._succ is not None:
            return
        self._build_cfg()
        if getattr(self, "_refining", False) or getattr(self, "_refined", False):
            return
        # second look at the remaining switches: a discriminant read through a borrow (a closure capturing a
        # `mode` / `direction` value that is a literal here) is a constant too — resolve it with the expression
        # machinery on the first CFG, then rebuild
        self._refining = True
        try:
            for _round in range(2):
                forced = {}
                enum_discr = {p: {v["name"]: int(v["discr"]) for v in a_["variants"] if "discr" in v} for p, a_ in self.facts.adts.items() if a_["kind"] == "Enum"}
                for bb in sorted(self._live):
                    t = self.blocks[bb]["term"]
                    if t.get("t") != "switch" or bb in self._forced or self._const_discr2(self.blocks[bb], t) is not None:
                        continue
                    try:
                        e = self.expr_of_operand(t["discr"], Site(bb, None))
                    except Exception:
                        continue
                    if e.k != "discr":
                        continue
                    x = e.a[0].strip()
                    v = None
                    if x.k == "text" and x.x.get("variant") and x.x.get("ty", "").lstrip("&") in enum_discr:
                        v = enum_discr[x.x["ty"].lstrip("&")].get(x.x["variant"])
                    elif x.k == "agg" and x.x.get("ak") == "adt" and not x.a and x.x.get("adt") in enum_discr:
                        v = enum_discr[x.x["adt"]].get(x.x.get("variant"))
                    elif x.k == "agg" and x.x.get("ak") == "adt" and x.x.get("adt") in ("std::option::Option", "std::result::Result"):
                        v = {"None": 0, "Some": 1, "Ok": 0, "Err": 1}.get(x.x.get("variant"))
                    elif e.a[0].k == "call" and e.a[0].x["path"].endswith("Try>::branch") and e.a[0].a:
                        # `?` applied to a value whose variant is known: Ok / Some continue, Err / None leave
                        y = e.a[0].a[0]
                        while y.k in ("ref", "deref"):
                            y = y.a[0]
                        if y.k == "agg" and y.x.get("ak") == "adt" and y.x.get("adt") in ("std::option::Option", "std::result::Result"):
                            v = {"Ok": 0, "Some": 0, "Err": 1, "None": 1}.get(y.x.get("variant"))
                    if v is not None:
                        forced[bb] = v
                if not forced:
                    break
                self._forced.update(forced)
                self._succ = self._pred = self._dom = self._pdom = self._defs = None
                self._reach = {}
                self._cl = None
                self._build_cfg()
        finally:
            self._refining = False
            self._refined = True

    def force_switches(self, forced):
        """resolve the given switches ({block: discriminant value}) under a data invariant established elsewhere
        and rebuild the flow graph; the arms not taken become dead code for every later query on this body"""
        new = {bb: v for bb, v in forced.items() if self._forced.get(bb) != v}
        if not new:
            return
        self._ensure_cfg()
        self._forced.update(new)
        self._succ = self._pred = self._dom = self._pdom = self._defs = None
        self._reach = {}
        self._cl = None
        self._build_cfg()

    def succs(self, bb):
        if self._succ is None:
            self._ensure_cfg()
        return self._succ[bb]

    def preds(self, bb):
        if self._pred is None:
            self._ensure_cfg()
        return self._pred[bb]

    def normal_blocks(self):
        """blocks reachable from entry without unwind edges"""
        if "normal" not in self._reach:
            seen = {0}
            dq = deque([0])
            while dq:
                b = dq.popleft()
                for s in self.succs(b):
                    if s not in seen:
                        seen.add(s)
                        dq.append(s)
            self._reach["normal"] = seen
        return self._reach["normal"]

    def return_blocks(self):
        return [b for b in self.normal_blocks() if self.blocks[b]["term"]["t"] == "return"]

    def diverging_blocks(self):
        """normal blocks ending in a call with no target (panic etc.) or unreachable"""
        out = []
        for b in self.normal_blocks():
            t = self.blocks[b]["term"]
            if (t["t"] == "call" and t["target"] is None) or t["t"] in ("unreachable", "resume", "terminate"):
                out.append(b)
        return out

    # ---- dominators (Cooper-Harvey-Kennedy on the normal CFG)
    def _compute_dom(self, entry_list, succ_fn, pred_fn, nodes):
        # generic iterative set-based dominators (graphs are tiny)
        nodes = list(nodes)
        allset = set(nodes)
        dom = {n: set(allset) for n in nodes}
        for e in entry_list:
            dom[e] = {e}
        changed = True
        order = nodes
        while changed:
            changed = False
            for n in order:
                if n in entry_list:
                    continue
                ps = [p for p in pred_fn(n) if p in allset]
                if not ps:
                    new = {n}
                else:
                    new = set.intersection(*(dom[p] for p in ps)) | {n}
                if new != dom[n]:
                    dom[n] = new
                    changed = True
        return dom

    def dominators(self):
        if self._dom is None:
            nodes = sorted(self.normal_blocks())
            self._dom = self._compute_dom([0], self.succs, self.preds, nodes)
        return self._dom

    def dominates(self, a, b):
        """site a dominates site b (every normal path from entry to b passes a)"""
        if isinstance(a, int):
            a = Site(a, -1)
        if isinstance(b, int):
            b = Site(b, -1)
        if a.bb == b.bb:
            return a.key() <= b.key()
        d = self.dominators()
        return b.bb in d and a.bb in d[b.bb]

    def postdominators(self):
        """post-dominators w.r.t. Return exits only (panics are not exits)"""
        if self._pdom is None:
            nodes = set(self.normal_blocks())
            # restrict to nodes that can reach a return
            rets = self.return_blocks()
            can = set(rets)
            dq = deque(rets)
            while dq:
                b = dq.popleft()
                for p in self.preds(b):
                    if p in nodes and p not in can:
                        can.add(p)
                        dq.append(p)
            EXIT = -1
            def succ_fn(n):
                return [EXIT] if n in rets else [s for s in self.succs(n) if s in can]
            def pred_of_rev(n):  # predecessors in the reversed graph = successors
                return succ_fn(n) if n != EXIT else []
            def succ_of_rev(n):
                return rets if n == EXIT else [p for p in self.preds(n) if p in can]
            nodes2 = [EXIT] + sorted(can)
            self._pdom = self._compute_dom([EXIT], succ_of_rev, pred_of_rev, nodes2)
            self._can_return = can
        return self._pdom

    def postdominates(self, a, b):
        """site a post-dominates site b: every normal path from b to a Return passes a"""
        if a.bb == b.bb:
            return a.key() >= b.key()
        pd = self.postdominators()
        return b.bb in pd and a.bb in pd[b.bb]

    # ---- reachability
    def reachable_from(self, bb, stop=()):
        seen = set()
        dq = deque([s for s in self.succs(bb)])
        stop = set(stop)
        while dq:
            b = dq.popleft()
            if b in seen:
                continue
            seen.add(b)
            if b in stop:
                continue
            for s in self.succs(b):
                if s not in seen:
                    dq.append(s)
        return seen

    def reaches(self, bb, stop=()):
        seen = set()
        dq = deque(self.preds(bb))
        stop = set(stop)
        while dq:
            b = dq.popleft()
            if b in seen:
                continue
            seen.add(b)
            if b in stop:
                continue
            for p in self.preds(b):
                if p not in seen:
                    dq.append(p)
        return seen

    def sites_between(self, a, b):
        """all sites X such that some normal path a -> X -> b exists that does not pass `a` again
        (b itself may be revisited: if b sits in a loop that does not contain a, the earlier
        iterations of b and of everything in that loop are `between`)"""
        out = []
        same = a.bb == b.bb and a.key() < b.key()
        fwd = self.reachable_from(a.bb, stop=[a.bb]) - {a.bb}
        bwd = self.reaches(b.bb, stop=[a.bb]) - {a.bb}
        b_cyclic = b.bb in fwd and b.bb in bwd  # b reachable from itself without passing a
        ablk = self.blocks[a.bb]
        if same:
            for i in range(len(ablk["stmts"])):
                if a.key()[1] < i < b.key()[1]:
                    out.append(Site(a.bb, i))
            if not b_cyclic:
                return out
        if not same:
            if not (b.bb in fwd):
                return out
            for i in range(len(ablk["stmts"])):
                if i > a.key()[1]:
                    out.append(Site(a.bb, i))
        mid = (fwd & bwd) - {b.bb}
        for m in sorted(mid):
            for i in range(len(self.blocks[m]["stmts"])):
                out.append(Site(m, i))
            out.append(Site(m, None))
        bblk = self.blocks[b.bb]
        if b_cyclic:
            for i in range(len(bblk["stmts"])):
                if not (same and a.key()[1] <= i):
                    out.append(Site(b.bb, i))
                elif same and i > b.key()[1]:
                    out.append(Site(b.bb, i))
            out.append(Site(b.bb, None))
        elif not same:
            for i in range(len(bblk["stmts"])):
                if i < b.key()[1]:
                    out.append(Site(b.bb, i))
        # dedupe
        seen = set()
        res = []
        for x in out:
            if x not in seen:
                seen.add(x)
                res.append(x)
        return res

    def loops(self):
        """natural loops: list of (header, set(blocks))"""
        d = self.dominators()
        loops = {}
        for b in self.normal_blocks():
            for s in self.succs(b):
                if s in d.get(b, ()):  # back edge b -> s
                    body = {s, b}
                    dq = deque([b])
                    while dq:
                        x = dq.popleft()
                        if x == s:
                            continue
                        for p in self.preds(x):
                            if p not in body and p in d:
                                body.add(p)
                                dq.append(p)
                    loops.setdefault(s, set()).update(body)
        return sorted(loops.items())

    def in_loop(self, bb):
        return any(bb in blks for _, blks in self.loops())

    # ---- statement / terminator iteration
    def sites(self, normal_only=True):
        nb = self.normal_blocks() if normal_only else range(len(self.blocks))
        for bb in sorted(nb):
            blk = self.blocks[bb]
            for i, st in enumerate(blk["stmts"]):
                yield Site(bb, i), st
            yield Site(bb, None), blk["term"]

    def at(self, site):
        blk = self.blocks[site.bb]
        return blk["term"] if site.i is None else blk["stmts"][site.i]

    def debug_assert_blocks(self):
        """blocks that only exist to evaluate a `debug_assert!`: between the `cfg!(debug_assertions)` test and
        the point where the asserting and the non-asserting paths meet again.  Such code decides nothing but
        "panic or go on" and is absent from release builds; inventories of calls and comparisons skip it."""
        if getattr(self, "_dab", None) is not None:
            return self._dab
        out = set()
        for bb in sorted(self.normal_blocks()):
            t = self.blocks[bb]["term"]
            if t.get("t") != "switch":
                continue
            mac = (t.get("span") or {}).get("macros", [])
            if not any(m in ("debug_assert", "debug_assert_eq", "debug_assert_ne") for m in mac):
                continue
            v = self._const_discr(self.blocks[bb], t)
            if v is None:
                continue
            zero = [tb for av, tb in t["arms"] if int(av) == 0]
            if not zero:
                continue
            if v == 0:
                continue      # assertions compiled out (release-like config): the asserting path is not live, nothing to skip
            taken, skip = t["otherwise"], zero[0]      # the asserting path / the path around it
            st = self.blocks[skip]["term"]
            if st.get("t") != "goto":
                continue
            join = st["target"]
            seen, todo = set(), [taken]
            while todo:
                x = todo.pop()
                if x in seen or x == join:
                    continue
                seen.add(x)
                todo += list(self.succs(x))
            out |= seen
        self._dab = out
        return out

    def calls(self, normal_only=True, skip_debug_asserts=True):
        """yield (site, callee_info, term) for every call terminator with a static callee"""
        dab = self.debug_assert_blocks() if skip_debug_asserts else ()
        for site, t in self.sites(normal_only):
            if site.i is None and t["t"] == "call":
                if site.bb in dab and t.get("target") is not None:
                    continue
                yield site, callee_of(t), t

    def calls_to(self, pred, normal_only=True):
        out = []
        for site, c, t in self.calls(normal_only):
            if c is not None and pred(c):
                out.append((site, c, t))
        return out

    # ---- definitions
    def defs(self):
        """local -> list of (site, kind, payload): assignments to the bare local (whole-local
        defs only; partial writes through projections are listed under 'partial')"""
        if self._defs is None:
            d = defaultdict(list)
            part = defaultdict(list)
            if self._succ is None:
                self._ensure_cfg()
            for site, st in self.sites(normal_only=False):
                if site.bb not in self._live:
                    continue      # code behind a pruned constant switch defines nothing
                if site.i is not None:
                    if st["s"] == "assign":
                        pl = st["pl"]
                        if not pl["p"]:
                            d[pl["l"]].append((site, "assign", st["rv"]))
                        else:
                            part[pl["l"]].append((site, st))
                    elif st["s"] == "set_discr":
                        part[st["pl"]["l"]].append((site, st))
                elif st["t"] == "call":
                    pl = st["dest"]
                    if not pl["p"]:
                        d[pl["l"]].append((site, "call", st))
                    else:
                        part[pl["l"]].append((site, st))
            # out-parameters: `&mut local` (possibly reborrowed) handed to a call is a definition of local
            refof = {}
            for l, lst in list(d.items()):
                for site, kind, payload in lst:
                    if kind == "assign" and payload["rv"] == "ref" and payload.get("bk") == "mut":
                        pl = payload["pl"]
                        if not pl["p"]:
                            refof[l] = pl["l"]
                        elif pl["p"] == ["*"] and pl["l"] in refof:
                            refof[l] = refof[pl["l"]]
            changed = True
            while changed:
                changed = False
                for l, lst in d.items():
                    if l in refof:
                        continue
                    for site, kind, payload in lst:
                        if kind == "assign" and payload["rv"] == "ref" and payload.get("bk") == "mut" and payload["pl"]["p"] == ["*"] and payload["pl"]["l"] in refof:
                            refof[l] = refof[payload["pl"]["l"]]
                            changed = True
                        elif kind == "assign" and len(lst) == 1 and payload["rv"] == "use" and payload["op"].get("k") in ("move", "copy") and not payload["op"]["pl"]["p"] and payload["op"]["pl"]["l"] in refof:
                            # the reference handed on (the parameter of a helper spliced into this body)
                            refof[l] = refof[payload["op"]["pl"]["l"]]
                            changed = True
            # a store through such a reference — `*p = v` with p = &mut x, x a scalar — is a definition of x
            # (a spliced helper that advances an offset through `&mut usize`)
            for l, lst in list(part.items()):
                if l not in refof or len(d.get(l, [])) != 1:
                    continue
                tgt = refof[l]
                if self.locals[tgt]["ty"] not in ("u8", "u16", "u32", "u64", "usize", "i32", "i64", "bool"):
                    continue
                for site, st in lst:
                    if st.get("s") == "assign" and st["pl"]["p"] == ["*"]:
                        d[tgt].append((site, "assign", st["rv"]))
            for site, st in self.sites(normal_only=False):
                if site.i is None and st["t"] == "call":
                    for ai, a in enumerate(st["args"]):
                        if a["k"] in ("copy", "move") and not a["pl"]["p"] and a["pl"]["l"] in refof:
                            tgt = refof[a["pl"]["l"]]
                            # only scalars / small values are modelled as out-params (not &mut self receivers)
                            if self.locals[tgt]["ty"] in ("u8", "u16", "u32", "u64", "usize", "i32", "i64", "bool"):
                                d[tgt].append((site, "outparam", (st, ai)))
            self._defs = (d, part)
        return self._defs

    # ---- FLOW: expression reconstruction
    def reaching_defs(self, l, at):
        """definitions of the bare local `l` that reach the use at site `at` (normal edges only).
        Returns (defs, from_entry) where from_entry says some path reaches `at` with no def."""
        d, _ = self.defs()
        ds = d.get(l, [])
        if not ds:
            return [], True
        if at is None:
            return list(ds), False
        if len(ds) == 1:
            return list(ds), False
        by_bb = defaultdict(list)
        for x in ds:
            by_bb[x[0].bb].append(x)

        def last_in(bb, upto):
            c = [x for x in by_bb.get(bb, []) if x[0].key()[1] < upto]
            return max(c, key=lambda x: x[0].key()) if c else None

        x = last_in(at.bb, at.key()[1])
        if x is not None:
            return [x], False
        out = []
        from_entry = at.bb == 0
        visited = set()
        work = list(self.preds(at.bb))
        while work:
            b = work.pop()
            if b in visited:
                continue
            visited.add(b)
            x = last_in(b, 10**10)
            if x is not None:
                if x not in out:
                    out.append(x)
                continue
            if b == 0:
                from_entry = True
            work.extend(self.preds(b))
        out.sort(key=lambda x: x[0].key())
        return out, from_entry

    def expr_of_operand(self, op, at=None, depth=0, seen=None):
        k = op["k"]
        if k == "const":
            if "fn" in op:
                return Expr("fn", path=op["fn"]["path"], info=op["fn"])
            if "int" in op:
                return Expr("const", v=int(op["int"]), ty=op["ty"])
            return Expr("text", t=op.get("text", "?"), ty=op["ty"], bytes=op.get("bytes"), elem_ty=op.get("elem_ty"), len=op.get("len"), variant=op.get("variant"))
        if k in ("copy", "move"):
            return self.expr_of_place(op["pl"], at, depth, seen)
        return Expr("unknown")

    def _struct_root(self, l, deref, depth=0):
        """the local that holds the value a place `l` / `*l` denotes: pointers with one definition `&[mut] m` /
        `&mut *q` / a copy of another pointer are followed, whole moves `l = move m` of a struct are followed"""
        d, _ = self.defs()
        for _i in range(12):
            ds = d.get(l, [])
            if len(ds) != 1 or ds[0][1] != "assign":
                break
            rv = ds[0][2]
            if deref:
                if rv["rv"] == "ref" and not rv["pl"]["p"]:
                    l, deref = rv["pl"]["l"], False
                elif rv["rv"] == "ref" and rv["pl"]["p"] == ["*"]:
                    l = rv["pl"]["l"]
                elif rv["rv"] == "use" and rv["op"].get("k") in ("move", "copy") and not rv["op"]["pl"]["p"]:
                    l = rv["op"]["pl"]["l"]
                else:
                    return None
            else:
                if rv["rv"] == "use" and rv["op"].get("k") in ("move", "copy") and not rv["op"]["pl"]["p"] and not self.locals[l]["ty"].startswith("&"):
                    l = rv["op"]["pl"]["l"]
                else:
                    break
        return None if deref else l

    def _field_stores(self):
        """(root local, field index) -> [(site, rvalue)] for every partial store `root.f = v`, directly or through a
        pointer to root; None as a value marks a store this map cannot express (deeper place, call destination)"""
        fs = self.__dict__.get("_fstores")
        if fs is None:
            fs = self.__dict__["_fstores"] = {}
            d, part = self.defs()
            for l, lst in part.items():
                for site, st in lst:
                    pl = st.get("pl") or st.get("dest")
                    if pl is None:
                        continue
                    p = pl["p"]
                    deref = bool(p) and p[0] == "*"
                    rest = p[1:] if deref else p
                    if not rest or not isinstance(rest[0], dict) or rest[0].get("f") is None:
                        continue
                    root = self._struct_root(l, deref)
                    if root is None:
                        continue
                    exact = len(rest) == 1 and st.get("s") == "assign"
                    fs.setdefault((root, rest[0]["f"]), []).append((site, st["rv"] if exact else None))
        return fs

    def _stored_field(self, pl, i, at, depth, seen):
        """the value of field proj[i] of the struct local behind pl when the body stores into that field: the one
        store that dominates `at` with no other definition in between (strong update), else None / "opaque" """
        proj = pl["p"]
        if not (i == 0 or (i == 1 and proj[0] == "*")):
            return None
        root = self._struct_root(pl["l"], i == 1)
        if root is None:
            return None
        stores = self._field_stores().get((root, proj[i]["f"]))
        if not stores or at is None:
            return None
        if any(rv is None for _s, rv in stores):
            return "opaque"
        d, _ = self.defs()
        whole = [x[0] for x in d.get(root, [])]
        cands = [(s_, rv) for s_, rv in stores if s_ != at and self.dominates(s_, at)]
        for s_, rv in cands:
            between = set(self.sites_between(s_, at))
            if any(o != s_ and o in between for o, _rv in stores) or any(w in between for w in whole):
                continue
            return self._expr_of_def((s_, "assign", rv), depth + 1, seen)
        # no single latest store: every store and the constructed value are alternatives
        return [self._expr_of_def((s_, "assign", rv), depth + 1, seen) for s_, rv in stores]

    def expr_of_place(self, pl, at=None, depth=0, seen=None):
        e = self.expr_of_local(pl["l"], at, depth, seen)
        proj = pl["p"]
        i = 0
        while i < len(proj):
            el = proj[i]
            if el == "*":
                e = Expr("deref", [e])
            elif "f" in el and el["f"] is None:
                # a field named by the alignment layer without a position (component of a flattened group): symbolic
                e = Expr("field", [e], name=str(el.get("name", "?")), adt=el.get("adt", ""), idx=None, ty=el.get("ty", ""))
            elif "f" in el:
                s = e.strip() if e.k in ("ref", "deref") else e
                sf = self._stored_field(pl, i, at, depth, seen) if (s.k == "agg" and depth < 60) else None
                if sf == "opaque":
                    e = Expr("field", [e], name=str(el.get("name", el["f"])), adt=el.get("adt", ""), idx=el["f"], ty=el.get("ty", ""))
                elif isinstance(sf, Expr):
                    e = sf
                elif isinstance(sf, list) and s.k == "agg" and el["f"] < len(s.a):
                    e = Expr("phi", [s.a[el["f"]]] + sf, l=-1, name="stored-field")
                elif s.k == "agg" and s.x.get("ak") in ("tuple", "adt", "closure") and el["f"] < len(s.a) and (s.x.get("ak") != "adt" or "variant" not in el or s.x.get("variant") == el.get("variant")):
                    e = s.a[el["f"]]
                elif s.k == "phi" and s.a and all(c.k == "agg" and c.x.get("ak") == "tuple" and el["f"] < len(c.a) for c in s.a):
                    # a component of a join of tuples is the join of the components
                    parts = [c.a[el["f"]] for c in s.a]
                    e = parts[0] if len(parts) == 1 else Expr("phi", parts, l=s.x.get("l", -1), name=s.x.get("name", "join"))
                else:
                    e = Expr("field", [e], name=str(el.get("name", el["f"])), adt=el.get("adt", ""), idx=el["f"], ty=el.get("ty", ""))
            elif "index" in el:
                e = Expr("index", [e, self.expr_of_local(el["index"], at, depth + 1, seen)])
            elif "cindex" in el:
                e = Expr("index", [e], i=(("-" if el["from_end"] else "") + str(el["cindex"])))
            elif "subslice_from" in el:
                e = Expr("index", [e], i=f"{el['subslice_from']}..{el['to']}")
            elif "downcast" in el:
                # payload of a value whose construction is visible: (V(x) as V).0 -> x, also through
                # the join of a desugared combinator / explicit match (phi of constructed variants)
                nxt = proj[i + 1] if i + 1 < len(proj) else None
                pay = _constructed_payload(e, el["downcast"], nxt["f"]) if isinstance(nxt, dict) and "f" in nxt else None
                if pay is not None:
                    e = pay
                    i += 2
                    continue
                e = Expr("downcast", [e], variant=el["downcast"], vidx=el["vidx"])
            else:
                e = Expr("unknown")
            i += 1
        return e

    def expr_of_local(self, l, at=None, depth=0, seen=None):
        if seen is None:
            seen = frozenset()
        name = self._names.get(l, f"_{l}")
        is_arg = 1 <= l <= self.arg_count
        if depth > 80:
            return Expr("var", name=name, l=l)
        ds, from_entry = self.reaching_defs(l, at)
        if not ds:
            if is_arg:
                return Expr("arg", i=l, name=self._names.get(l, ""), ty=self.local_ty(l))
            return Expr("var", name=name, l=l)
        es = []
        for x in ds[:64]:
            key = (l, x[0])
            if key in seen:
                es.append(Expr("var", name=name, l=l))
            else:
                es.append(self._expr_of_def(x, depth + 1, seen | {key}, l))
        if is_arg and from_entry:
            es.append(Expr("arg", i=l, name=self._names.get(l, ""), ty=self.local_ty(l)))
        if len(es) == 1:
            return es[0]
        return Expr("phi", es, l=l, name=name)

    def _expr_of_def(self, d, depth=0, seen=None, l=None):
        site, kind, payload = d
        if seen is None:
            seen = frozenset()
        if kind == "outparam":
            term, ai = payload
            c = callee_of(term)
            return Expr("call", [], path="out:" + (callee_name(c) if c else "<indirect>"), site=site, info=c, out=ai)
        if kind == "call":
            c = callee_of(payload)
            args = [self.expr_of_operand(a, site, depth, seen) for a in payload["args"]]
            if c is None:
                f = self.expr_of_operand(payload["func"], site, depth, seen)
                return Expr("call", [f] + args, path="<indirect>", site=site, info=None)
            if "value" in c and not args:
                return Expr("const", v=int(c["value"]), ty="usize", from_call=c["inst"])
            nm_ = callee_name(c)
            if len(args) >= 1 and nm_.startswith("std::result::Result::<T, E>::") and nm_.rsplit("::", 1)[-1] in ("expect", "unwrap") \
                    and len(c.get("args") or []) == 2 and c["args"][0] in _INT_DEFAULTS and c["args"][1] in ("std::num::TryFromIntError", "std::convert::Infallible"):
                src = args[0].strip()
                if src.k == "call" and src.a and (src.x["path"].endswith(">::try_from") or src.x["path"].endswith("::try_into") or src.x["path"].endswith("TryFrom::try_from") or src.x["path"].endswith("TryInto::try_into")):
                    # `T::try_from(x).expect(..)` / `.unwrap()` on integers: the cast `x as T`, with a panic where the cast
                    # would have truncated
                    return Expr("cast", [src.a[0]], ck="IntToInt", to=c["args"][0], frm=(src.x.get("info") or {}).get("args", ["?", "?"])[-1], transparent=False, site=site, checked=True)
            if not args and c.get("path") == "std::default::Default::default" and len(c.get("args") or []) == 1 and c["args"][0] in _INT_DEFAULTS:
                # `<usize as Default>::default()` — what a derived `Default` puts in an integer field
                return Expr("const", v=0, ty=c["args"][0], from_call=c.get("inst", ""))
            return Expr("call", args, path=callee_name(c), site=site, info=c, ty=payload["dest"].get("ty", ""))
        rv = payload
        k = rv["rv"]
        if k == "use":
            return self.expr_of_operand(rv["op"], site, depth, seen)
        if k in ("ref", "rawptr"):
            return Expr("ref", [self.expr_of_place(rv["pl"], site, depth, seen)], bk=rv["bk"])
        if k == "copy_for_deref":
            return self.expr_of_place(rv["pl"], site, depth, seen)
        if k == "cast":
            inner = self.expr_of_operand(rv["op"], site, depth, seen)
            ck = rv["ck"]
            transparent = not ck.startswith("Int") and not ck.startswith("Float")
            return Expr("cast", [inner], ck=ck, to=rv["to"], frm=rv["from"], transparent=transparent, site=site)
        if k == "bin":
            return Expr("bin", [self.expr_of_operand(rv["a"], site, depth, seen), self.expr_of_operand(rv["b"], site, depth, seen)], op=rv["op"], site=site)
        if k == "un":
            if rv["op"] == "PtrMetadata":
                return Expr("len", [self.expr_of_operand(rv["a"], site, depth, seen)])
            return Expr("un", [self.expr_of_operand(rv["a"], site, depth, seen)], op=rv["op"], site=site)
        if k == "discr":
            return Expr("discr", [self.expr_of_place(rv["pl"], site, depth, seen)])
        if k == "agg":
            what = rv.get("adt", rv["ak"])
            if rv["ak"] == "adt":
                what = short_path(rv["adt"]) + ("::" + rv["variant"] if rv.get("variant") and rv.get("variant") != short_path(rv["adt"]).split("::")[-1] else "")
            return Expr("agg", [self.expr_of_operand(o, site, depth, seen) for o in rv["ops"]], what=what, ak=rv["ak"], adt=rv.get("adt"), variant=rv.get("variant"), fields=rv.get("fields"), closure=rv.get("closure"), site=site)
        if k == "repeat":
            return Expr("agg", [self.expr_of_operand(rv["op"], site, depth, seen)], what="repeat", ak="repeat", site=site)
        return Expr("unknown")

    def expr_at_return(self):
        rets = self.return_blocks()
        es = [self.expr_of_local(0, Site(r, None)) for r in rets]
        return es[0] if len(es) == 1 else Expr("phi", es, l=0, name="_0")

    def arg_exprs(self, site):
        t = self.at(site)
        return [self.expr_of_operand(a, site) for a in t["args"]]


def _constructed_payload(e, variant, fidx):
    """field `fidx` of variant `variant` of e, when e is (a join of) visible constructions"""
    s = e
    while s.k in ("ref", "deref"):
        s = s.a[0]
    if s.k == "agg" and s.x.get("ak") == "adt":
        if s.x.get("variant") == variant and fidx < len(s.a):
            return s.a[fidx]
        return None
    if s.k == "phi":
        outs = []
        for c in s.a:
            cc = c
            while cc.k in ("ref", "deref"):
                cc = cc.a[0]
            if cc.k == "agg" and cc.x.get("ak") == "adt":
                if cc.x.get("variant") == variant and fidx < len(cc.a):
                    outs.append(cc.a[fidx])
                # constructions of other variants cannot be observed under this downcast
                continue
            if cc.k == "call" and cc.x["path"].endswith("::from_residual") and variant in ("Ok", "Some"):
                continue    # `?`'s error value: an Err / None by construction, never observed under Ok / Some
            sub = _constructed_payload(cc, variant, fidx) if cc.k == "phi" else None
            if sub is not None:
                outs.append(sub)
            else:
                outs.append(Expr("field", [Expr("downcast", [c], variant=variant, vidx=-1)], name=str(fidx), adt="", idx=fidx, ty=""))
        if not outs:
            return None
        if len(outs) == 1:
            return outs[0]
        return Expr("phi", outs, l=-1, name="join")
    return None


def rel(path):
    for pre in ("/repo/",):
        if path.startswith(pre):
            return path[len(pre):]
    m = re.search(r"/(src/.*)$", path)
    if m and "/registry/" in path:
        return "grenad-0.4.7/" + m.group(1)
    return path


def callee_of(term):
    f = term["func"]
    if f["k"] == "const" and "fn" in f:
        return f["fn"]
    return None


def callee_name(c):
    """preferred identification of a callee: resolved impl method if known"""
    if c is None:
        return "<indirect>"
    return c.get("resolved") or c["path"]


def call_matches(c, *suffixes):
    if c is None:
        return False
    names = [c["path"], c.get("resolved", "")]
    return any(n.endswith(s) for n in names if n for s in suffixes)


# ---------------------------------------------------------------------------------------
# pretty printer (development / --explain)


def dump_body(b, out=None):
    lines = []
    lines.append(f"fn {b.path}  [{b.kind}]  {b.loc()}  args={b.arg_count}")
    for i, l in enumerate(b.locals):
        nm = b.local_name(i)
        lines.append(f"    let _{i}: {l['ty']}" + (f"   // {nm}" if nm else ""))
    for bb, blk in enumerate(b.blocks):
        lines.append(f"  bb{bb}{' (cleanup)' if blk['cleanup'] else ''}:")
        for st in blk["stmts"]:
            if st["s"] == "assign":
                lines.append(f"      {place_str(st['pl'])} = {rvalue_str(st['rv'])}   // L{st['span']['line']}" + (f" {st['span'].get('macros')}" if st['span'].get('macros') else ""))
            else:
                lines.append(f"      {st['s']} {place_str(st['pl']) if 'pl' in st else st.get('dbg','')}")
        t = blk["term"]
        lines.append(f"      -> {term_str(t)}   // L{t['span']['line']}" + (f" {t['span'].get('macros')}" if t['span'].get('macros') else ""))
    s = "\n".join(lines)
    if out is None:
        print(s)
    return s


def rvalue_str(rv):
    k = rv["rv"]
    if k == "use":
        return operand_str(rv["op"])
    if k in ("ref", "rawptr"):
        return f"&{rv['bk']} {place_str(rv['pl'])}"
    if k == "cast":
        return f"{operand_str(rv['op'])} as {rv['to']} ({rv['ck']})"
    if k == "bin":
        return f"{rv['op']}({operand_str(rv['a'])}, {operand_str(rv['b'])})"
    if k == "un":
        return f"{rv['op']}({operand_str(rv['a'])})"
    if k == "discr":
        return f"discriminant({place_str(rv['pl'])})"
    if k == "agg":
        what = rv.get("adt_inst", rv["ak"]) + ("::" + rv["variant"] if rv.get("variant") else "")
        return f"{what}{{{', '.join(operand_str(o) for o in rv['ops'])}}}"
    if k == "copy_for_deref":
        return f"deref_copy {place_str(rv['pl'])}"
    if k == "repeat":
        return f"[{operand_str(rv['op'])}; {rv.get('n')}]"
    return rv.get("dbg", k)


def term_str(t):
    k = t["t"]
    if k == "goto":
        return f"goto bb{t['target']}"
    if k == "switch":
        arms = ", ".join(f"{v}: bb{b}" for v, b in t["arms"])
        return f"switchInt({operand_str(t['discr'])}: {t['discr_ty']}) [{arms}, otherwise: bb{t['otherwise']}]"
    if k == "call":
        c = callee_of(t)
        nm = (c["inst"] if c else operand_str(t["func"]))
        res = f" [=> {c['resolved']}]" if c and c.get("resolved") else ""
        return f"{place_str(t['dest'])} = {nm}({', '.join(operand_str(a) for a in t['args'])}){res} -> bb{t['target']} unwind {t['unwind']}"
    if k == "drop":
        return f"drop({place_str(t['pl'])}) -> bb{t['target']} unwind {t['unwind']}"
    if k == "assert":
        return f"assert({operand_str(t['cond'])} == {t['expected']}, {t['kind']}({', '.join(operand_str(o) for o in t['ops'])})) -> bb{t['target']}"
    return k + " " + t.get("dbg", "")


if __name__ == "__main__":
    import sys
    f = Facts(sys.argv[1])
    pat = sys.argv[2] if len(sys.argv) > 2 else "."
    for b in f.find_bodies(pat):
        dump_body(b)
        print()
