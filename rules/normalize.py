"""normalize — structural alignment of *renames* with the pinned tree, applied to a fact file
before inlining and before any rule runs, so that rules (written against the pinned names, listed
once in anchors.toml) stay silent on pure renames:

  * struct fields: an ADT with the same number of fields and the same field types in the same order
    as on the pinned tree gets its current field names mapped back to the pinned names;
  * parameters: a known function with the same arity gets its parameter names mapped back;
  * functions: if exactly one pinned function of a parent (module / impl) is missing and exactly one
    new function with the identical signature appeared under the same parent, it is the renamed one;
    a function that kept its name and signature but moved between its module and an impl block of
    the same module (free function <-> associated function) is the moved one.

Anything else (fields added, types changed, two candidates) is left alone: rules then see the real
program and fail closed where an anchor is gone."""
import copy
import json
import os
import re

_PIN = None


def pinned():
    global _PIN
    if _PIN is None:
        p = os.path.join(os.path.dirname(os.path.abspath(__file__)), "pinned_shape.json")
        with open(p) as f:
            _PIN = json.load(f)
    return _PIN


def shape_of(raw):
    adts = {}
    for a in raw["adts"]:
        if a["kind"] in ("Struct",) and a["variants"]:
            adts[a["path"]] = [[f["name"], f["ty"]] for f in a["variants"][0]["fields"]]
    fns = {}
    names = {}
    for b in raw["bodies"]:
        if b["kind"] in ("Fn", "AssocFn"):
            nm = {}
            for n in b["names"]:
                pl = n["place"]
                if not pl["p"] and 1 <= pl["l"] <= b["arg_count"]:
                    nm.setdefault(pl["l"], n["name"])
            names[b["path"]] = [nm.get(i, "") for i in range(1, b["arg_count"] + 1)]
    for f in raw["fns"]:
        fns[f["path"]] = {"sig": f["sig"], "params": names.get(f["path"], [])}
    return {"adts": adts, "fns": fns}


def _parent(path):
    return path.rsplit("::", 1)[0] if "::" in path else ""


def normalize(raw):
    """mutates raw; returns a description of what was aligned"""
    pin = pinned()
    log = {"fields": {}, "params": {}, "fns": {}}
    # ---- a whole private module renamed (file moved): every pinned item of module M is gone, and one module the
    # pinned tree does not have holds items with the same names — all its paths are rewritten to M first
    def _mod_of(p):
        if p.startswith("<"):
            return None
        segs = p.split("::")
        out = []
        for x in segs[:-1]:
            if x[:1].isupper() or x.startswith("<") or x.startswith("{"):
                break
            out.append(x)
        return "::".join(out)
    pin_items, cur_items = {}, {}
    for p in list(pin["fns"]) + list(pin["adts"]) + list(pin.get("enums", [])):
        m = _mod_of(p)
        if m:
            pin_items.setdefault(m, set()).add(p[len(m) + 2:].split("::")[0])
    for p in [f["path"] for f in raw["fns"]] + [a_["path"] for a_ in raw["adts"] if not a_["path"].startswith(("std::", "core::", "alloc::"))]:
        m = _mod_of(p)
        if m:
            cur_items.setdefault(m, set()).add(p[len(m) + 2:].split("::")[0])
    mmap = {}
    for m, items in pin_items.items():
        if m in cur_items:
            continue
        cands = [n for n, its in cur_items.items() if n not in pin_items and _parent(n) == _parent(m) and len(items & its) * 5 >= len(items) * 4]
        if len(cands) == 1:
            mmap[cands[0]] = m
    if mmap:
        txt = json.dumps(raw)
        for n in sorted(mmap, key=len, reverse=True):
            txt = re.sub(r"(?<![A-Za-z0-9_:])" + re.escape(n) + "::", mmap[n] + "::", txt)
        new = json.loads(txt)
        raw.clear()
        raw.update(new)
        log["modules"] = dict(mmap)
    # ---- types moved to another module (`sorter::EntryBoundAlignedBuffer` -> `sorter::aligned_buffer::…`): the only
    # pinned type of that name that is missing, the only new type of that name, same kind and (for structs) same
    # fields — every path of the fact file is rewritten to the pinned one before anything else is compared
    known_adts = set(pin["adts"]) | set(pin.get("enums", []))
    have = {a["path"]: a for a in raw["adts"]}
    tmap = {}
    for p in sorted(known_adts):
        if p in have:
            continue
        last = p.rsplit("::", 1)[-1]
        cands = [q for q, a in have.items() if q not in known_adts and q.rsplit("::", 1)[-1] == last and not q.startswith(("std::", "core::", "alloc::"))]
        others = [x for x in known_adts if x not in have and x.rsplit("::", 1)[-1] == last]
        if len(cands) != 1 or len(others) != 1:
            continue
        q = cands[0]
        if p in pin["adts"]:
            fs = [[f["name"], f["ty"].replace(q, p)] for f in have[q]["variants"][0]["fields"]] if have[q]["kind"] == "Struct" and have[q]["variants"] else None
            if fs is None or [n for n, t in fs] != [n for n, t in pin["adts"][p]]:
                continue
        elif have[q]["kind"] != "Enum":
            continue
        tmap[q] = p
    # ---- types renamed in place: same module, same field names and types (structs) / same variant names (enums),
    # the only missing and the only new type of that shape
    def _shape(a, self_path):
        if a["kind"] == "Struct" and a["variants"]:
            return ("S", tuple((f["name"], f["ty"].replace(self_path, "Self")) for f in a["variants"][0]["fields"]))
        if a["kind"] == "Enum":
            return ("E", tuple(v["name"] for v in a["variants"]))
        return None
    pinned_enum_shapes = {}
    for p in sorted(known_adts):
        if p in have or p in tmap.values():
            continue
        if p in pin["adts"]:
            want = ("S", tuple((n, t.replace(p, "Self")) for n, t in pin["adts"][p]))
        else:
            continue      # the pinned shape file does not record enum variants: enums are aligned by name only
        cands = [q for q, a in have.items() if q not in known_adts and q not in tmap and _parent(q) == _parent(p) and _shape(a, q) == want and want[1]]
        others = [x for x in pin["adts"] if x not in have and x not in tmap.values() and _parent(x) == _parent(p) and ("S", tuple((n, t.replace(x, "Self")) for n, t in pin["adts"][x])) == want]
        if len(cands) == 1 and len(others) == 1:
            tmap[cands[0]] = p
    # traits of the crate moved to another module, by name
    havet = {t_["path"] for t_ in raw.get("traits", [])}
    for p in pin.get("traits", []):
        if p in havet:
            continue
        last = p.rsplit("::", 1)[-1]
        cands = [q for q in havet if q not in pin.get("traits", []) and q.rsplit("::", 1)[-1] == last and not q.startswith(("std::", "core::", "alloc::"))]
        if len(cands) == 1:
            tmap[cands[0]] = p
    if tmap:
        txt = json.dumps(raw)
        for q in sorted(tmap, key=len, reverse=True):
            txt = txt.replace(q, tmap[q])
        new = json.loads(txt)
        raw.clear()
        raw.update(new)
        log["types"] = dict(tmap)
    # ---- constants renamed in place: same module, same type, same value, the only missing and the only new one
    pc = pin.get("consts", {})
    havec = {c["path"]: c for c in raw["consts"] if "int" in c}
    cmap = {}
    for p, (ty, val) in sorted(pc.items()):
        if p in havec:
            continue
        cands = [q for q, c in havec.items() if q not in pc and _parent(q) == _parent(p) and c["ty"] == ty and c["int"] == val]
        others = [x for x, (t2, v2) in pc.items() if x not in havec and _parent(x) == _parent(p) and t2 == ty and v2 == val]
        if len(cands) == 1 and len(others) == 1:
            cmap[cands[0]] = p
    # ... or moved to another module under the same name (the builder's constants following the builder into a
    # submodule): the only missing and the only new constant of that name, same type and value
    for p, (ty, val) in sorted(pc.items()):
        if p in havec or p in cmap.values():
            continue
        last = p.rsplit("::", 1)[-1]
        cands = [q for q, c in havec.items() if q not in pc and q not in cmap and q.rsplit("::", 1)[-1] == last and c["ty"] == ty and c["int"] == val]
        others = [x for x in pc if x not in havec and x.rsplit("::", 1)[-1] == last]
        if len(cands) == 1 and len(others) == 1:
            cmap[cands[0]] = p
    if cmap:
        for c in raw["consts"]:
            if c["path"] in cmap:
                c["path"] = cmap[c["path"]]
        log["consts"] = cmap
    cur = shape_of(raw)
    # ---- function renames
    missing = [p for p in pin["fns"] if p not in cur["fns"] and not p.startswith("<")]
    new = [p for p in cur["fns"] if p not in pin["fns"] and not p.startswith("<")]
    fn_map = {}
    for m in missing:
        cands = [n for n in new if _parent(n) == _parent(m) and cur["fns"][n]["sig"] == pin["fns"][m]["sig"]]
        others = [x for x in missing if _parent(x) == _parent(m) and pin["fns"][x]["sig"] == pin["fns"][m]["sig"]]
        if len(cands) == 1 and len(others) == 1:
            fn_map[cands[0]] = m
    # a function moved between a module and an impl block of that module (free fn <-> associated fn),
    # name and signature unchanged
    def _module(p):
        segs = p.split("::")
        out = []
        for x in segs[:-1]:
            if x[:1].isupper() or x.startswith("<"):
                break
            out.append(x)
        return "::".join(out)
    for m in missing:
        if m in fn_map.values():
            continue
        last = m.rsplit("::", 1)[-1]
        cands = [n for n in new if n not in fn_map and n.rsplit("::", 1)[-1] == last and _module(n) == _module(m) and cur["fns"][n]["sig"] == pin["fns"][m]["sig"]]
        others = [x for x in missing if x.rsplit("::", 1)[-1] == last and _module(x) == _module(m)]
        if len(cands) == 1 and len(others) == 1:
            fn_map[cands[0]] = m
    # same name, same module, signature changed (a by-value generic became `&mut Concrete`, a parameter pair became
    # a struct): still the same function if it is the only one of that name missing and the only one appearing
    for m in missing:
        if m in fn_map.values():
            continue
        last = m.rsplit("::", 1)[-1]
        _ep = lambda p: re.sub(r"::<[^<>]*(<[^<>]*>[^<>]*)*>", "", _parent(p))      # the owning type / module, generics aside
        cands = [n for n in new if n not in fn_map and n.rsplit("::", 1)[-1] == last and _module(n) == _module(m) and _ep(n) == _ep(m)]
        others = [x for x in missing if x not in fn_map.values() and x.rsplit("::", 1)[-1] == last and _module(x) == _module(m) and _ep(x) == _ep(m)]
        if len(cands) == 1 and len(others) == 1:
            fn_map[cands[0]] = m
            continue
        # ... or a free function of the module became an associated function of a type of that module (or the
        # reverse) and its signature was touched on the way: the only function of that name in the module, before and after
        if not cands:
            cands = [n for n in new if n not in fn_map and n.rsplit("::", 1)[-1] == last and _module(n) == _module(m) and (_ep(m) == _module(m)) != (_ep(n) == _module(n))]
            others = [x for x in missing if x not in fn_map.values() and x.rsplit("::", 1)[-1] == last and _module(x) == _module(m)]
            now = [n for n in cur["fns"] if n.rsplit("::", 1)[-1] == last and _module(n) == _module(m) and not n.startswith("<")]
            if len(cands) == 1 and len(others) == 1 and len(now) == 1:
                fn_map[cands[0]] = m
    # several functions of one parent renamed at once with unchanged arity: pair them by the words their names share
    # (end_contains -> is_within_end, start_contains -> is_within_start)
    left = [m for m in missing if m not in fn_map.values()]
    free = [n for n in new if n not in fn_map]

    def arity(sig):
        inner = sig.split("fn(", 1)[1] if "fn(" in sig else ""
        depth, n, seen = 0, 0, False
        for ch in inner:
            if ch in "(<[":
                depth += 1
            elif ch in ")>]":
                if depth == 0:
                    break
                depth -= 1
            elif ch == "," and depth == 0:
                n += 1
            if not ch.isspace():
                seen = True
        return n + 1 if seen and inner and inner[0] != ")" else 0
    if left and free:
        def toks(p):
            return set(p.rsplit("::", 1)[-1].lower().split("_"))

        def _arity_unused(sig):
            inner = sig.split("fn(", 1)[1] if "fn(" in sig else ""
            depth, n, seen = 0, 0, False
            for ch in inner:
                if ch in "(<[":
                    depth += 1
                elif ch in ")>]":
                    if depth == 0:
                        break
                    depth -= 1
                elif ch == "," and depth == 0:
                    n += 1
                if not ch.isspace():
                    seen = True
            return n + 1 if seen and inner and inner[0] != ")" else 0
        for m in left:
            scored = []
            for n in free:
                if _parent(n) != _parent(m) or arity(cur["fns"][n]["sig"]) != arity(pin["fns"][m]["sig"]):
                    continue
                common = toks(n) & toks(m)
                if common:
                    scored.append((len(common), n))
            scored.sort(reverse=True)
            if scored and (len(scored) == 1 or scored[0][0] > scored[1][0]):
                n = scored[0][1]
                # the best partner of n among the missing ones must be m as well
                back = sorted(((len(toks(n) & toks(x)), x) for x in left if _parent(x) == _parent(n)), reverse=True)
                if back and back[0][1] == m and (len(back) == 1 or back[0][0] > back[1][0]) and n not in fn_map:
                    fn_map[n] = m
    # last resort inside one parent (impl block / module): exactly one function of that parent is missing and exactly one
    # is new, same number of parameters — the one was renamed and its signature touched at the same time
    left = [m for m in missing if m not in fn_map.values()]
    free = [n for n in new if n not in fn_map]
    for m in left:
        sibs_m = [x for x in left if _parent(x) == _parent(m)]
        sibs_n = [n for n in free if _parent(n) == _parent(m)]
        if len(sibs_m) == 1 and len(sibs_n) == 1 and arity(cur["fns"][sibs_n[0]]["sig"]) == arity(pin["fns"][m]["sig"]) and sibs_n[0] not in fn_map:
            fn_map[sibs_n[0]] = m
    # the impl block of a function changed its generic parameters (`impl<U> Error<U>` -> `impl Error<Infallible>`):
    # same path once the `::<..>` segments are erased
    def _erase(p):
        return re.sub(r"::<[^<>]*(<[^<>]*>[^<>]*)*>", "", p)
    for m in missing:
        if m in fn_map.values():
            continue
        cands = [n for n in new if n not in fn_map and _erase(n) == _erase(m)]
        others = [x for x in missing if _erase(x) == _erase(m)]
        if len(cands) == 1 and len(others) == 1:
            fn_map[cands[0]] = m
    # a free function moved to another module (or a method to a sibling impl elsewhere), name and signature unchanged:
    # the only missing function of that name and signature, the only new one — crate-wide
    for m in missing:
        if m in fn_map.values():
            continue
        last = m.rsplit("::", 1)[-1]
        cands = [n for n in new if n not in fn_map and n.rsplit("::", 1)[-1] == last and cur["fns"][n]["sig"] == pin["fns"][m]["sig"]]
        others = [x for x in missing if x not in fn_map.values() and x.rsplit("::", 1)[-1] == last]
        same_name_now = [n for n in cur["fns"] if n.rsplit("::", 1)[-1] == last and not n.startswith("<")]
        if len(cands) == 1 and len(others) == 1 and len(same_name_now) == 1:
            fn_map[cands[0]] = m
    # a private function renamed AND moved inside its module (a nested fn hoisted to a free fn under a better name):
    # the only missing and the only new function of the module with that signature, generic parameter names aside
    def _gsig(sig):
        return re.sub(r"\b[A-Z][A-Z0-9]{0,2}\b(?!::)", "G", sig)
    for m in missing:
        if m in fn_map.values():
            continue
        gs = _gsig(pin["fns"][m]["sig"])
        cands = [n for n in new if n not in fn_map and _module(n) == _module(m) and _gsig(cur["fns"][n]["sig"]) == gs]
        others = [x for x in missing if x not in fn_map.values() and _module(x) == _module(m) and _gsig(pin["fns"][x]["sig"]) == gs]
        if len(cands) == 1 and len(others) == 1 and gs.count(",") >= 1:
            fn_map[cands[0]] = m
    if fn_map:
        log["fns"] = dict(fn_map)
        _rename_fns(raw, fn_map)
        cur = shape_of(raw)
    # ---- field renames
    fmap = {}
    for path, fields in cur["adts"].items():
        pf = pin["adts"].get(path)
        if pf is None or len(pf) != len(fields):
            continue
        # fields that kept their name are themselves wherever they are declared (a pure reordering renames nothing);
        # the others are paired in declaration order, types agreeing
        pn, cn = {n for n, t in pf}, {n for n, t in fields}
        gone = [(n, t) for n, t in pf if n not in cn]
        came = [(n, t) for n, t in fields if n not in pn]
        if len(gone) != len(came):
            continue
        if [t for n, t in gone] != [t for n, t in came] and len(gone) != 1:
            continue      # (a single field that changed both its name and its type is still that field)
        m = {c[0]: p[0] for c, p in zip(came, gone)}
        if m and len(set(m.values())) == len(m):
            fmap[path] = m
    if fmap:
        log["fields"] = fmap
        _rename_fields(raw, fmap)
    # ---- several fields of a struct grouped into one field of a new private struct (`current_key`, `merged_value`
    # -> `current: MergedEntry { key, value }`): places `x.current.key` are flattened back to `x.current_key`
    cur = shape_of(raw)
    have = {a_["path"]: a_ for a_ in raw["adts"]}
    gmap = {}
    for path, fields in cur["adts"].items():
        pf = pin["adts"].get(path)
        if pf is None:
            continue
        pn, cn = {n for n, t in pf}, {n for n, t in fields}
        gone = [(n, t) for n, t in pf if n not in cn]
        came = [(n, t) for n, t in fields if n not in pn]
        if len(came) != 1 or len(gone) < 2:
            continue
        f, sty = came[0]
        sdef = have.get(sty)
        if sdef is None or sty in pin["adts"] or sdef["kind"] != "Struct" or not sdef["variants"]:
            continue
        sf = [(x["name"], x["ty"]) for x in sdef["variants"][0]["fields"]]
        if [t for n, t in sf] != [t for n, t in gone]:
            continue
        gmap[(path, f)] = (sty, {sn: gn for (sn, st_), (gn, gt) in zip(sf, gone)}, {gn: gt for gn, gt in gone})
    if gmap:
        raw["_grouped"] = [[p, f, sty, m, tys] for (p, f), (sty, m, tys) in gmap.items()]
        def flat(o):
            if isinstance(o, dict):
                if "l" in o and isinstance(o.get("p"), list):
                    p = o["p"]
                    j = 0
                    while j + 1 < len(p):
                        a_, b_ = p[j], p[j + 1]
                        if isinstance(a_, dict) and isinstance(b_, dict) and (a_.get("adt"), a_.get("name")) in gmap:
                            sty, m, tys = gmap[(a_.get("adt"), a_.get("name"))]
                            if b_.get("adt") == sty and b_.get("name") in m:
                                n = m[b_["name"]]
                                p[j:j + 2] = [{"f": a_.get("f"), "ty": tys[n], "name": n, "adt": a_["adt"]}]
                                continue
                        j += 1
                    return
                for k, v in o.items():
                    if k not in ("span", "fn"):
                        flat(v)
            elif isinstance(o, list):
                for v in o:
                    flat(v)
        for b in raw["bodies"]:
            flat(b["blocks"])
        _flatten_aggregates(raw, gmap)
        for a_ in raw["adts"]:
            for (path, f), (sty, m, tys) in gmap.items():
                if a_["path"] == path and a_["variants"]:
                    fl = a_["variants"][0]["fields"]
                    k = [i for i, x in enumerate(fl) if x["name"] == f]
                    if k:
                        proto = fl[k[0]]
                        fl[k[0]:k[0] + 1] = [dict(proto, name=n, ty=t) for n, t in tys.items()]
        log["grouped_fields"] = {f"{p}.{f}": sorted(m.values()) for (p, f), (sty, m, tys) in gmap.items()}
    # ---- an out-parameter (`value: &mut T`, returns R) turned into a component of the returned tuple (`-> (T, R)`):
    # the body stores the component through a re-created parameter, call sites hand it a fresh local
    outp = _tuple_return_to_out_parameter(raw, pin)
    if outp:
        log["out_parameters"] = outp
    # ---- several parameters of a function bundled into one parameter of a new private struct (by value or by
    # reference): the struct parameter is replaced by one parameter per field, in the body and at every call site
    pobj = _flatten_parameter_objects(raw, pin)
    if pobj:
        log["parameter_objects"] = pobj
    # ---- parameters of a function declared in another order (same names): the body's argument locals, the `inputs`
    # of its signature and the argument lists of every call to it are permuted back to the pinned order
    perms = {}
    for b in raw["bodies"]:
        pf = pin["fns"].get(b["path"])
        if not pf or b["kind"] not in ("Fn", "AssocFn") or len(pf["params"]) != b["arg_count"] or b["arg_count"] < 2:
            continue
        nm = {}
        for n in b["names"]:
            pl = n["place"]
            if not pl["p"] and 1 <= pl["l"] <= b["arg_count"]:
                nm.setdefault(pl["l"], n["name"])
        cn = [nm.get(i, "") for i in range(1, b["arg_count"] + 1)]
        want = pf["params"]
        if cn == want or "" in cn or len(set(cn)) != len(cn) or sorted(cn) != sorted(want):
            continue
        perm = {i + 1: want.index(cn[i]) + 1 for i in range(len(cn))}     # current local -> pinned local
        perms[b["path"]] = perm

        def remap(o, perm=perm):
            if isinstance(o, dict):
                if "l" in o and "p" in o and isinstance(o["p"], list):
                    o["l"] = perm.get(o["l"], o["l"])
                    for el in o["p"]:
                        if isinstance(el, dict) and "index" in el:
                            el["index"] = perm.get(el["index"], el["index"])
                    return
                for k, v in o.items():
                    if k not in ("span", "fn"):
                        remap(v)
            elif isinstance(o, list):
                for v in o:
                    remap(v)
        remap(b["blocks"])
        remap(b["names"])
        old = list(b["locals"])
        for i, j in perm.items():
            b["locals"][j] = old[i]
    if perms:
        for f in raw["fns"]:
            p = perms.get(f["path"])
            if p and len(f.get("inputs", [])) == len(p):
                old = list(f["inputs"])
                for i, j in p.items():
                    f["inputs"][j - 1] = old[i - 1]
        for b in raw["bodies"]:
            for blk in b["blocks"]:
                t = blk["term"]
                if t.get("t") != "call":
                    continue
                fn = t.get("func", {}).get("fn") if t.get("func", {}).get("k") == "const" else None
                if not fn:
                    continue
                p = perms.get(fn.get("resolved") or fn.get("path"))
                if p and len(t["args"]) == len(p):
                    old = list(t["args"])
                    for i, j in p.items():
                        t["args"][j - 1] = old[i - 1]
        log["param_order"] = {k: [v[i] for i in sorted(v)] for k, v in perms.items()}
    # ---- parameter names
    for b in raw["bodies"]:
        pf = pin["fns"].get(b["path"])
        if not pf or b["kind"] not in ("Fn", "AssocFn") or len(pf["params"]) != b["arg_count"]:
            continue
        for n in b["names"]:
            pl = n["place"]
            if not pl["p"] and 1 <= pl["l"] <= b["arg_count"]:
                want = pf["params"][pl["l"] - 1]
                if want and n["name"] != want:
                    log["params"].setdefault(b["path"], {})[n["name"]] = want
                    n["name"] = want
    return log


def _rename_fields(raw, fmap):
    def walk(o):
        if isinstance(o, dict):
            adt = o.get("adt")
            if adt in fmap:
                if "name" in o and o["name"] in fmap[adt]:
                    o["name"] = fmap[adt][o["name"]]
                if "fields" in o and isinstance(o["fields"], list):
                    o["fields"] = [fmap[adt].get(x, x) for x in o["fields"]]
            for v in o.values():
                walk(v)
        elif isinstance(o, list):
            for v in o:
                walk(v)
    walk(raw["bodies"])
    for a in raw["adts"]:
        if a["path"] in fmap:
            for v in a["variants"]:
                for f in v["fields"]:
                    f["name"] = fmap[a["path"]].get(f["name"], f["name"])


def _rename_fns(raw, fn_map):
    def fix(p):
        for old, new in fn_map.items():
            if p == old:
                return new
            if p.startswith(old + "::"):
                return new + p[len(old):]
        return p

    def walk(o):
        if isinstance(o, dict):
            for k in ("path", "resolved", "parent", "closure", "owner", "callee"):
                if k in o and isinstance(o[k], str):
                    o[k] = fix(o[k])
            for v in o.values():
                walk(v)
        elif isinstance(o, list):
            for v in o:
                walk(v)
    walk(raw["bodies"])
    walk(raw["fns"])
    walk(raw["unsafety"])


def reflatten(raw):
    """places `x.group.sub` -> `x.field` again, after helpers were spliced and references forwarded (the accesses made
    inside methods of the grouping struct only become paths from the outer struct at that point)"""
    gl = raw.get("_grouped")
    if not gl:
        return 0
    gmap = {(p, f): (sty, m, tys) for p, f, sty, m, tys in gl}
    n = 0

    def flat(o):
        nonlocal n
        if isinstance(o, dict):
            if "l" in o and isinstance(o.get("p"), list):
                p = o["p"]
                j = 0
                while j + 1 < len(p):
                    a_, b_ = p[j], p[j + 1]
                    if isinstance(a_, dict) and isinstance(b_, dict) and (a_.get("adt"), a_.get("name")) in gmap:
                        sty, m, tys = gmap[(a_.get("adt"), a_.get("name"))]
                        if b_.get("adt") == sty and b_.get("name") in m:
                            nm = m[b_["name"]]
                            p[j:j + 2] = [{"f": a_.get("f"), "ty": tys[nm], "name": nm, "adt": a_["adt"]}]
                            n += 1
                            continue
                    j += 1
                return
            for k, v in o.items():
                if k not in ("span", "fn"):
                    flat(v)
        elif isinstance(o, list):
            for v in o:
                flat(v)
    for b in raw["bodies"]:
        flat(b["blocks"])
    return n


def _flatten_aggregates(raw, gmap):
    """`P { group: <S value>, .. }` -> `P { f1: <S value>.s1, f2: <S value>.s2, .. }`: when the S value is a literal built
    just before (single definition of the operand's local by an S aggregate) its operands are used, otherwise the
    components are read from the place the S value is copied from"""
    import copy
    for b in raw["bodies"]:
        # single whole-local definitions by an aggregate
        defs = {}
        for blk in b["blocks"]:
            for st in blk["stmts"]:
                if st.get("s") == "assign" and not st["pl"]["p"]:
                    defs.setdefault(st["pl"]["l"], []).append(st["rv"])
            t = blk["term"]
            if t.get("t") == "call" and not t["dest"]["p"]:
                defs.setdefault(t["dest"]["l"], []).append({"rv": "call"})
        for blk in b["blocks"]:
            for st in blk["stmts"]:
                rv = st.get("rv") if st.get("s") == "assign" else None
                if not rv or rv.get("rv") != "agg" or rv.get("ak") != "adt":
                    continue
                for (path, f), (sty, m, tys) in gmap.items():
                    if rv.get("adt") != path or f not in (rv.get("fields") or []):
                        continue
                    i = rv["fields"].index(f)
                    op = rv["ops"][i]
                    new_fields, new_ops = [], []
                    src = None
                    if op.get("k") in ("move", "copy") and not op["pl"]["p"]:
                        ds = defs.get(op["pl"]["l"], [])
                        if len(ds) == 1 and ds[0].get("rv") == "agg" and ds[0].get("adt") == sty:
                            src = ds[0]
                        elif len(ds) == 1 and ds[0].get("rv") == "use" and ds[0]["op"].get("k") in ("move", "copy"):
                            op = ds[0]["op"]      # a temporary holding a copy of the group: read the components at the source
                    for sn, gn in m.items():
                        new_fields.append(gn)
                        if src is not None and sn in (src.get("fields") or []):
                            new_ops.append(copy.deepcopy(src["ops"][src["fields"].index(sn)]))
                        elif op.get("k") in ("move", "copy"):
                            pl = copy.deepcopy(op["pl"])
                            pl["p"] = list(pl["p"]) + [{"f": None, "ty": tys[gn], "name": sn, "adt": sty}]
                            pl["ty"] = tys[gn]
                            new_ops.append({"k": "copy", "pl": pl})
                        else:
                            new_ops.append({"k": "const", "ty": tys[gn]})
                    rv["fields"][i:i + 1] = new_fields
                    rv["ops"][i:i + 1] = new_ops
    # places built above (`x.group.sub`) are flattened like every other place
    reflatten(raw)


def _flatten_parameter_objects(raw, pin):
    have = {a_["path"]: a_ for a_ in raw["adts"]}
    pinned_adts = set(pin["adts"]) | set(pin.get("enums", []))
    done = {}
    plans = {}
    for b in raw["bodies"]:
        pf = pin["fns"].get(b["path"])
        if not pf or b["kind"] not in ("Fn", "AssocFn") or b["arg_count"] >= len(pf["params"]) or b["arg_count"] < 1:
            continue
        nm = {}
        for n in b["names"]:
            pl = n["place"]
            if not pl["p"] and 1 <= pl["l"] <= b["arg_count"]:
                nm.setdefault(pl["l"], n["name"])
        cn = [nm.get(i, "") for i in range(1, b["arg_count"] + 1)]
        want = pf["params"]
        if "" in cn or "" in want or len(set(want)) != len(want):
            continue
        extra = [i for i, n in enumerate(cn) if n not in want]
        missing = [n for n in want if n not in cn]
        if len(extra) != 1 or len(missing) < 2:
            continue
        g = extra[0] + 1                                  # the local of the struct parameter
        gty = b["locals"][g]["ty"]
        byref = gty.startswith("&")
        sty = gty.lstrip("&").strip()
        if sty.startswith("mut "):
            sty = sty[4:]
        if sty.startswith("'"):
            sty = sty.split(" ", 1)[1] if " " in sty else sty
        sdef = have.get(sty)
        if sdef is None or sty in pinned_adts or sdef["kind"] != "Struct" or not sdef["variants"] or sty.startswith(("std::", "core::", "alloc::")):
            continue
        flds = sdef["variants"][0]["fields"]
        if sorted(f["name"] for f in flds) != sorted(missing):
            continue
        # every use of the parameter in the body is a field access
        pre = ["*"] if byref else []
        ok = True

        def scan(o):
            nonlocal ok
            if isinstance(o, dict):
                if "l" in o and "p" in o and isinstance(o["p"], list):
                    if o["l"] == g:
                        p = o["p"]
                        if p[:len(pre)] != pre or len(p) <= len(pre) or not (isinstance(p[len(pre)], dict) and "f" in p[len(pre)] and "downcast" not in p[len(pre)]):
                            ok = False
                    for el in o["p"]:
                        if isinstance(el, dict) and el.get("index") == g:
                            ok = False
                    return
                for k, v in o.items():
                    if k not in ("span", "fn"):
                        scan(v)
            elif isinstance(o, list):
                for v in o:
                    scan(v)
        scan(b["blocks"])
        if not ok:
            continue
        plans[b["path"]] = (b, g, byref, sty, flds)
    for path, (b, g, byref, sty, flds) in plans.items():
        n_old = b["arg_count"]
        nf = len(flds)
        # new numbering: the other arguments keep their order, the fields follow them, everything else shifts
        newl = {}
        k = 1
        for i in range(1, n_old + 1):
            if i != g:
                newl[i] = k
                k += 1
        fld_local = {}
        for j, f in enumerate(flds):
            fld_local[j] = k
            k += 1
        for i in range(n_old + 1, len(b["locals"])):
            newl[i] = i + nf - 1
        newl[0] = 0
        npre = 1 if byref else 0

        def remap(o):
            if isinstance(o, dict):
                if "l" in o and "p" in o and isinstance(o["p"], list):
                    for el in o["p"]:
                        if isinstance(el, dict) and "index" in el:
                            el["index"] = newl[el["index"]]
                    if o["l"] == g:
                        fi = o["p"][npre]["f"]
                        o["l"] = fld_local[fi]
                        o["p"] = o["p"][npre + 1:]
                    else:
                        o["l"] = newl[o["l"]]
                    return
                for k_, v in o.items():
                    if k_ not in ("span", "fn"):
                        remap(v)
            elif isinstance(o, list):
                for v in o:
                    remap(v)
        remap(b["blocks"])
        b["names"] = [n for n in b["names"] if not (n["place"]["l"] == g and not n["place"]["p"])]
        remap(b["names"])
        old = b["locals"]
        new = [None] * (len(old) + nf - 1)
        for i, l in enumerate(old):
            if i != g:
                new[newl[i]] = l
        for j, f in enumerate(flds):
            new[fld_local[j]] = {"ty": f["ty"]}
            b["names"].insert(0, {"name": f["name"], "place": {"l": fld_local[j], "p": [], "ty": f["ty"]}})
        b["locals"] = new
        b["arg_count"] = n_old + nf - 1
        for f_ in raw["fns"]:
            if f_["path"] == path and len(f_.get("inputs", [])) == n_old:
                ins = [t for i, t in enumerate(f_["inputs"]) if i != g - 1] + [f["ty"] for f in flds]
                f_["inputs"] = ins
        done[path] = {"struct": sty, "fields": [f["name"] for f in flds], "by_reference": byref}
    if not plans:
        return done
    for b in raw["bodies"]:
        for blk in b["blocks"]:
            t = blk["term"]
            if t.get("t") != "call":
                continue
            fn = t.get("func", {}).get("fn") if t.get("func", {}).get("k") == "const" else None
            if not fn:
                continue
            pl = plans.get(fn.get("resolved") or fn.get("path"))
            if not pl:
                continue
            _b, g, byref, sty, flds = pl
            if len(t["args"]) != _b["arg_count"] - len(flds) + 1:      # the arity before the flattening
                continue
            a = t["args"][g - 1]
            if a.get("k") not in ("move", "copy"):
                continue
            rest = [x for i, x in enumerate(t["args"]) if i != g - 1]
            fa = []
            for j, f in enumerate(flds):
                p = copy.deepcopy(a["pl"])
                p["p"] = list(p["p"]) + (["*"] if byref else []) + [{"f": j, "ty": f["ty"], "name": f["name"], "adt": sty}]
                p["ty"] = f["ty"]
                fa.append({"k": "copy", "pl": p})
            t["args"] = rest + fa
    return done


def _split_top(s):
    out, depth, cur = [], 0, ""
    for ch in s:
        if ch in "<([":
            depth += 1
        elif ch in ">)]":
            depth -= 1
        if ch == "," and depth == 0:
            out.append(cur.strip())
            cur = ""
        else:
            cur += ch
    if cur.strip():
        out.append(cur.strip())
    return out


def _sig_parts(sig):
    """'for<..> fn(A, B) -> R' -> ([A, B], R) with lifetimes erased"""
    sig = re.sub(r"'\w+ ", "", sig)
    i = sig.find("fn(")
    if i < 0:
        return None
    depth, j = 0, i + 2
    for j in range(i + 2, len(sig)):
        if sig[j] == "(":
            depth += 1
        elif sig[j] == ")":
            depth -= 1
            if depth == 0:
                break
    params = _split_top(sig[i + 3:j])
    rest = sig[j + 1:].strip()
    ret = rest[2:].strip() if rest.startswith("->") else "()"
    return params, ret


def _shift_locals(b, at, by=1):
    """make room for `by` new locals at index `at`"""
    def remap(o):
        if isinstance(o, dict):
            if "l" in o and "p" in o and isinstance(o["p"], list):
                if o["l"] >= at:
                    o["l"] += by
                for el in o["p"]:
                    if isinstance(el, dict) and "index" in el and el["index"] >= at:
                        el["index"] += by
                return
            for k, v in o.items():
                if k not in ("span", "fn"):
                    remap(v)
        elif isinstance(o, list):
            for v in o:
                remap(v)
    remap(b["blocks"])
    remap(b["names"])


def _tuple_return_to_out_parameter(raw, pin):
    done = {}
    plans = {}
    for b in raw["bodies"]:
        pf = pin["fns"].get(b["path"])
        if not pf or b["kind"] not in ("Fn", "AssocFn") or b["arg_count"] != len(pf["params"]) - 1:
            continue
        sp = _sig_parts(pf["sig"])
        if sp is None or len(sp[0]) != len(pf["params"]):
            continue
        nm = {}
        for n in b["names"]:
            pl = n["place"]
            if not pl["p"] and 1 <= pl["l"] <= b["arg_count"]:
                nm.setdefault(pl["l"], n["name"])
        cn = [nm.get(i, "") for i in range(1, b["arg_count"] + 1)]
        missing = [(n, t) for n, t in zip(pf["params"], sp[0]) if n not in cn]
        if len(missing) != 1 or "" in cn or not missing[0][1].startswith("&mut "):
            continue
        T, R = missing[0][1][5:].strip(), sp[1]
        cur_ret = b["locals"][0]["ty"]
        if not (cur_ret.startswith("(") and cur_ret.endswith(")")):
            continue
        comps = _split_top(cur_ret[1:-1])
        if len(comps) != 2 or T == R or sorted(comps) != sorted([T, R]):
            continue
        ti = comps.index(T)
        # every definition of the return place is the whole tuple or one of its components
        ok = True
        for blk in b["blocks"]:
            for st in blk["stmts"]:
                if st["s"] == "assign" and st["pl"]["l"] == 0 and not st["pl"]["p"] and not (st["rv"]["rv"] == "agg" and st["rv"].get("ak") == "tuple" and len(st["rv"]["ops"]) == 2):
                    ok = False
            t = blk["term"]
            if t.get("t") == "call" and t["dest"]["l"] == 0 and not t["dest"]["p"]:
                ok = False
        if ok:
            plans[b["path"]] = (b, missing[0][0], T, R, ti)
    for path, (b, pname, T, R, ti) in plans.items():
        at = b["arg_count"] + 1
        _shift_locals(b, at)
        b["locals"].insert(at, {"ty": "&mut " + T})
        b["arg_count"] += 1
        b["locals"][0] = dict(b["locals"][0], ty=R)
        b["names"].insert(0, {"name": pname, "place": {"l": at, "p": [], "ty": "&mut " + T}})
        for blk in b["blocks"]:
            new = []
            for st in blk["stmts"]:
                if st["s"] == "assign" and st["pl"]["l"] == 0 and not st["pl"]["p"]:
                    ops = st["rv"]["ops"]
                    new.append({"s": "assign", "pl": {"l": at, "p": ["*"], "ty": T}, "rv": {"rv": "use", "op": ops[ti]}, "span": st["span"]})
                    new.append({"s": "assign", "pl": {"l": 0, "p": [], "ty": R}, "rv": {"rv": "use", "op": ops[1 - ti]}, "span": st["span"]})
                    continue
                new.append(st)
            blk["stmts"] = new

        def fix(o):
            # component-wise accesses of the return place
            if isinstance(o, dict):
                if "l" in o and "p" in o and isinstance(o["p"], list):
                    if o["l"] == 0 and o["p"] and isinstance(o["p"][0], dict) and "f" in o["p"][0]:
                        if o["p"][0]["f"] == ti:
                            o["l"], o["p"] = at, ["*"] + o["p"][1:]
                        else:
                            o["p"] = o["p"][1:]
                    return
                for k, v in o.items():
                    if k not in ("span", "fn"):
                        fix(v)
            elif isinstance(o, list):
                for v in o:
                    fix(v)
        fix(b["blocks"])
        for f_ in raw["fns"]:
            if f_["path"] == path:
                f_["inputs"] = list(f_.get("inputs", [])) + ["&mut " + T]
                f_["output"] = R
        done[path] = {"parameter": pname, "type": T, "returned_component": ti}
    if not plans:
        return done
    for b in raw["bodies"]:
        sites = []
        for bi, blk in enumerate(b["blocks"]):
            t = blk["term"]
            if t.get("t") != "call":
                continue
            fn = t.get("func", {}).get("fn") if t.get("func", {}).get("k") == "const" else None
            pl = plans.get((fn or {}).get("resolved") or (fn or {}).get("path"))
            if pl and not t["dest"]["p"] and len(t["args"]) == pl[0]["arg_count"] - 1:
                sites.append((bi, pl))
        for bi, (cb, pname, T, R, ti) in sites:
            t = b["blocks"][bi]["term"]
            D = t["dest"]["l"]
            # every other mention of D is a component access (or D is given up)
            ok = True

            def scan(o):
                nonlocal ok
                if isinstance(o, dict):
                    if "l" in o and "p" in o and isinstance(o["p"], list):
                        if o["l"] == D and not (o["p"] and isinstance(o["p"][0], dict) and "f" in o["p"][0]):
                            ok = False
                        return
                    for k, v in o.items():
                        if k not in ("span", "fn", "dest"):
                            scan(v)
                elif isinstance(o, list):
                    for v in o:
                        scan(v)
            for blk in b["blocks"]:
                scan([st for st in blk["stmts"] if st["s"] == "assign"])
                scan(blk["term"])
            if not ok or sum(1 for blk in b["blocks"] if blk["term"].get("t") == "call" and blk["term"]["dest"]["l"] == D) != 1:
                continue
            tl = len(b["locals"])
            b["locals"].append({"ty": T})
            b["locals"].append({"ty": "&mut " + T})
            b["locals"][D] = dict(b["locals"][D], ty=R)

            def fix(o):
                if isinstance(o, dict):
                    if "l" in o and "p" in o and isinstance(o["p"], list):
                        if o["l"] == D and o["p"]:
                            if o["p"][0]["f"] == ti:
                                o["l"] = tl
                            o["p"] = o["p"][1:]
                        elif o["l"] == D:
                            o["ty"] = R
                        return
                    for k, v in o.items():
                        if k not in ("span", "fn"):
                            fix(v)
                elif isinstance(o, list):
                    for v in o:
                        fix(v)
            fix(b["blocks"])
            sp = t.get("span")
            b["blocks"][bi]["stmts"].append({"s": "assign", "pl": {"l": tl + 1, "p": [], "ty": "&mut " + T}, "rv": {"rv": "ref", "bk": "mut", "pl": {"l": tl, "p": [], "ty": T}}, "span": sp})
            t["args"] = list(t["args"]) + [{"k": "move", "pl": {"l": tl + 1, "p": [], "ty": "&mut " + T}}]
    return done
