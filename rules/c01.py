"""C01 — write/read round trip: the structural bookkeeping without which no round trip can
be right (entry count, codec plumbing and dispatch tables, index pairing, finish order, depth,
mirror agreement of the two scan directions).  See DESIGN.md §4 C01."""
from .common import *
from . import mirror

PID = "C01"
META = {
    "explanation": "Static analysis of the writer/reader bookkeeping on the compiler's MIR of the current tree (default and all-features builds): entry count incremented once per insert and plumbed to trailer and Reader::len (R1), codec plumbing on both sides (R2), codec dispatch tables and from_u8 on all 256 ids (R3), every block write paired with a parent index entry whose offset is read before the write (R4), finish order with the trailer last (R5), depth arithmetic (R6), mirror agreement of forward/backward twins (R7), pending non-empty block always flushed (R8). These are necessary conditions of an exact round trip; byte equality through the codec crates is not decided. (R11) the entry frame written by BlockWriter::insert agrees with the regions Block::entry_at reads, and every end-of-payload test of entry_at, in linear form over the frame's fields, can only reject malformed data. Also the varint tables and the remaining file-wellformedness rules shared through rules/shared.py.",
    "assumptions": ["the codec crates return the bytes they were given", "std Vec/slice/Option semantics"],
}


# ---------------------------------------------------------------------------------------
# shared site analysis for the writer (also used by C02, C09, C11, C15, C18)

def classify_block_writes(ck, rule, body, _depth=0):
    """For every compress_and_write_block call in `body` decide how the block is recorded in its
    parent index: returns list of dicts {site, bw, kind: paired|root, insert_site, count_site}"""
    out = []
    sites = calls(body, A("write_block"))
    for site, c, t in sites:
        args = body.arg_exprs(site)
        bw = args[1]
        bws = bw.ident()
        rec = {"site": site, "bw": bws, "bw_expr": bw, "kind": None}
        # candidate parent inserts: BlockWriter::insert whose key is last_key(<same writer>)
        cands = []
        for isite, ic, it in calls(body, A("bw_insert")):
            ia = body.arg_exprs(isite)
            key = unwrap_payload(ia[1], "Some")
            if key is None:
                continue
            key = key.strip()
            if not (key.k == "call" and key.x["path"].endswith(A("bw_last_key"))):
                continue
            if key.a[0].ident() != bws:
                continue
            cands.append((isite, ia, key))
        # paired: with the candidate insert removed from the graph and "parent absent" arms cut,
        # the write must be unreachable from the entry
        if cands:
            isite, ia, key = cands[-1] if len(cands) == 1 else max(cands, key=lambda x: body.dominates(x[0], site))
            rec.update(insert_site=isite, insert_args=ia, lastkey_call=key)
            rec["kind"] = "paired" if _only_bypass_is_absent_parent(body, isite, site, ia[0]) else ("root" if _guarded_by_empty_head(body, site, bw) else "unpaired")
            # (reachability within one iteration: a new iteration re-evaluates the call that yields the writer)
            defs_ = {x.x["site"].bb for x in bw.walk() if x.k == "call" and x.x.get("site") is not None}
            if rec["kind"] == "paired" and site.bb != isite.bb and site.bb not in reachable_without(body, banned_blocks=defs_, start=isite.bb):
                # never reached through the insert at all: this site only serves the "no level above" case
                rec["kind"] = "root" if _guarded_by_empty_head(body, site, bw) else "unpaired"
        else:
            rec["kind"] = "root" if _guarded_by_empty_head(body, site, bw) else "unpaired"
        if rec["kind"] == "unpaired" and _depth == 0:
            # one write site may serve both roles, decided by a flag computed from `last_key()`:
            # decide the two cases separately on the body specialised to last_key() = Some / None
            def has_key(e, enum, _bws=bws):
                if not (enum == "std::option::Option" and e.k == "discr"):
                    return False
                k = e.a[0].strip()
                return k.k == "call" and k.x["path"].endswith(A("bw_last_key")) and k.a[0].ident() == _bws
            parts = []
            for variant in ("Some", "None"):
                sb = specialise_switch(body, has_key, variant)
                if sb.specialised[1] == 0:
                    parts = None
                    break
                if site.bb not in sb.normal_blocks():
                    continue
                sub = [r for r in classify_block_writes(ck, rule, sb, _depth=1) if r["site"] == site]
                for r in sub:
                    r["body"] = sb
                    r["case"] = variant
                    r["bw"] = bws
                parts += sub
            if parts and all(p["kind"] in ("paired", "root") for p in parts) and {p["case"]: p["kind"] for p in parts} in ({"Some": "paired", "None": "root"}, {"Some": "paired"}):
                out += parts
                continue
        out.append(rec)
    return out


def _only_bypass_is_absent_parent(body, isite, wsite, parent_expr):
    """every path entry -> wsite avoids isite only through the None arm of `match <parent>.last_mut()`"""
    parent = parent_expr.strip()
    parent_src = unwrap_payload(parent_expr, "Some")
    banned_edges = set()
    if parent_src is not None:
        ps = parent_src.ident()
        for bb in body.normal_blocks():
            t = body.term(bb)
            if t["t"] != "switch":
                continue
            e, enum, labels, oth = switch_on(body, bb)
            if e.k == "discr" and e.a[0].ident() == ps and enum == "std::option::Option":
                for lab, tb in labels.items():
                    if lab != "Some":
                        banned_edges.add((bb, tb))
    seen = {0}
    work = [0]
    while work:
        b = work.pop()
        if b == isite.bb:
            continue
        if b == wsite.bb:
            return False
        for s in body.succs(b):
            if (b, s) in banned_edges or s in seen:
                continue
            seen.add(s)
            work.append(s)
    return True


def _guarded_by_empty_head(body, wsite, bw):
    """the write is control dependent on `<head>.is_empty()` being true where head is the `.1`
    of the same split_last_mut whose `.0` is the written block writer"""
    sp = split_part(bw)
    if sp is None or sp[1] != 0:
        return False
    for bb in body.normal_blocks():
        t = body.term(bb)
        if t["t"] != "switch":
            continue
        e = body.expr_of_operand(t["discr"], Site(bb, None))
        hp = split_part(e.a[0]) if (e.k == "call" and e.x["path"].endswith("::is_empty")) else None
        if hp is not None and hp[0] == sp[0] and hp[1] == 1:
            false_t = [tb for v, tb in t["arms"] if int(v) == 0]
            true_t = t["otherwise"]
            if body.dominates(true_t, wsite.bb) and not any(body.dominates(f, wsite.bb) for f in false_t):
                return True
        # the same fact stated through an accessor: `match head.last_mut() / last() / first() { None => .. }`
        if e.k == "discr" and e.a[0].strip().k == "call" and e.a[0].strip().x["path"].rsplit("::", 1)[-1] in ("last_mut", "last", "first", "first_mut", "split_last", "split_last_mut", "split_first"):
            hp = split_part(e.a[0].strip().a[0])
            if hp is not None and hp[0] == sp[0] and hp[1] == 1:
                e2, enum, labels, oth = switch_on(body, bb)
                none_t = labels.get("None")
                some_t = labels.get("Some")
                if none_t is not None and body.dominates(none_t, wsite.bb) and (some_t is None or not body.dominates(some_t, wsite.bb)):
                    return True
    return False


def run(ck):
    for cfg in ck.configs():
        F = ck.facts(cfg)
        ck.guard("C01-R1", r1_count, ck, F)
        ck.guard("C01-R2", r2_codec_plumb, ck, F)
        ck.guard("C01-R3", r3_codec_table, ck, F)
        ck.guard("C01-R4", r4_index_pair, ck, F)
        ck.guard("C01-R5", r5_finish_order, ck, F)
        ck.guard("C01-R6", r6_depth, ck, F)
        ck.guard("C01-R7", r7_mirror, ck, F)
        ck.guard("C01-R8", r8_pending_block, ck, F)
        ck.guard("C01-R9", r9_fill_lengths, ck, F)
        from .c14 import entry_frame_agreement
        ck.guard("C01-R11", entry_frame_agreement, ck, F, "C01-R11")
        # the in-block offset table the backward scan walks (shared with C02-R4)
        from .c02 import r4_offsets
        ck.guard("C01-R12", r4_offsets, ck, F, "C01-R12")
        # what is written reaches the sink whole and in order, and offsets are the sink's byte count
        from .c11 import r2_count_accepted, r1_write_all
        ck.guard("C01-R10", r2_count_accepted, ck, F, "C01-R10")
        ck.guard("C01-R10", r1_write_all, ck, F, "C01-R10")
        from . import shared
        shared.file_wellformed(ck, F, "C01-R13")
    from . import fixtures
    ck.guard("C01-R9", fixtures.run, ck, "C01")
    ck.trusted += ["rustc MIR construction", "the codec crates (snap, flate2, lz4_flex, zstd): block bytes in = block bytes out", "std Vec/slice semantics (last_mut, split_last_mut)"]


# ---------------------------------------------------------------------------------------
def r1_count(ck, F):
    R = "C01-R1"
    ins = F.body(A("writer_insert"))
    stores = field_stores(F, A("writer_struct"), "entries_count")
    ck.exact(R, "stores to Writer.entries_count", len(stores), 1, F.config)
    for b, site, st in stores:
        ok = b.path == A("writer_insert")
        e = b._expr_of_def((site, "assign", st["rv"]))
        c = checked(e)
        ok_val = bool(c and c[0] == "Add" and is_self_field(c[1], "entries_count") and const_val(c[2]) == 1)
        ck.ob(R, "increment-by-one", ok and ok_val, f"Writer.entries_count := {e.show()} in {b.path} (must be `self.entries_count + 1` in Writer::insert)", b, site)
        ck.ob(R, "increment-not-in-loop", not b.in_loop(site.bb), "the increment is outside every loop (exactly once per insert)", b, site)
        rets = [Site(r, None) for r in b.return_blocks()]
        data_ins = [s for s, c_, t in calls(b, A("bw_insert")) if is_self_field(b.arg_exprs(s)[0], "block_writer")]
        ck.exact(R, "data BlockWriter::insert sites in Writer::insert", len(data_ins), 1, F.config)
        # the entry is appended and counted together: every succeeding path that appended it passes the
        # increment, and the increment's value was computed on a path that appends it (a validity check
        # that returns Err before either of them is not a path that inserted anything)
        both = bool(data_ins) and all(on_every_success_path_after(b, d.bb, site) for d in data_ins)
        both = both and all(on_every_success_path_after(b, 0, d) for d in data_ins) and on_every_success_path_after(b, 0, site)
        ck.ob(R, "increment-on-every-path", both,
              "every succeeding path through Writer::insert passes the data-block insert and the increment", b, site)
        for d in data_ins:
            a = b.arg_exprs(d)
            ck.ob(R, "insert-gets-callers-entry", is_arg(a[1], "key") and is_arg(a[2], "val"),
                  f"data block receives the caller's key/val: insert({a[1].show()}, {a[2].show()})", b, d)
    # initial value 0
    for b, site, rv in aggregates(F, A("writer_struct")):
        e = agg_field_expr(b, site, rv, "entries_count")
        ck.ob(R, "initial-zero", const_val(e) == 0, f"Writer is built with entries_count = {e.show()}", b, site)
    # trailer flow
    fin = F.body(A("writer_into_inner"))
    aggs = [(b, s, rv) for b, s, rv in aggregates(F, A("meta_struct")) if b.path == fin.path]
    ck.exact(R, "Metadata constructions in Writer::into_inner", len(aggs), 1, F.config)
    for b, s, rv in aggs:
        e = agg_field_expr(b, s, rv, "entries_count")
        ck.ob(R, "trailer-count-from-field", is_self_field(e, "entries_count"), f"Metadata.entries_count := {e.show()}", b, s)
    # getter
    g = F.body(A("reader_len"))
    e = g.expr_at_return()
    ck.ob(R, "reader-len-getter", is_self_field(e, "metadata", "entries_count"), f"Reader::len returns {e.show()}", g)


# ---------------------------------------------------------------------------------------
def r2_codec_plumb(ck, F):
    R = "C01-R2"
    from .origin import Tracer
    T = Tracer(F, stop_at=[A("writer_builder") + "::compression_type", A("writer_builder") + "::compression_level"])
    wb = F.body(A("write_block"))
    cs = calls(wb, A("compress"))
    ck.exact(R, "compress calls in compress_and_write_block", len(cs), 1, F.config)
    if len(cs) != 1:
        return
    csite = cs[0][0]
    ca = wb.arg_exprs(csite)
    ck.ob(R, "compress-args", any(True for _ in ca[2].calls(A("bw_finish"))), f"compress(.., .., {ca[2].show()}) is given the finished block", wb, csite)
    want = {"codec": "param:" + A("writer_builder") + "::compression_type#", "level": "param:" + A("writer_builder") + "::compression_level#"}

    def configured(o, which):
        """the origin set is {the builder's setter parameter} + defaults (constants / unit variants)"""
        return any(x.startswith(want[which]) for x in o) and all(x.startswith(want[which]) or x.startswith(("const:", "variant:")) for x in o)

    n = 0
    seen_sets = {"codec": set(), "level": set()}
    for b in F.user_bodies():
        for site, c, t in calls(b, A("write_block")):
            a = b.arg_exprs(site)
            n += 1
            bind = T.binding_for(wb.path, b, site)
            ot = T.origins(wb, ca[0], bind)
            ol = T.origins(wb, ca[1], bind)
            seen_sets["codec"].add(frozenset(ot))
            seen_sets["level"].add(frozenset(ol))
            ck.ob(R, f"write-site-codec/{b.path}", configured(ot, "codec") and configured(ol, "level") and is_self_field(a[0], "writer"),
                  f"compress_and_write_block(sink={a[0].show()}, ..): the codec reaching compress() comes from {sorted(ot)}, the level from {sorted(ol)} (must be the builder's configuration)", b, site)
    ck.floor(R, "compress_and_write_block call sites", n, 4, F.config)   # 5 on the pinned tree
    fin = F.body(A("writer_into_inner"))
    for b, s, rv in aggregates(F, A("meta_struct")):
        if b.path != fin.path:
            continue
        e = agg_field_expr(b, s, rv, "compression_type")
        ot = T.origins(b, e)
        ck.ob(R, "trailer-codec-from-field", configured(ot, "codec") and seen_sets["codec"] == {frozenset(ot)}, f"Metadata.compression_type := {e.show()} — origins {sorted(ot)}: the same configuration every block was compressed with", b, s)
    for b, s, rv in aggregates(F, A("writer_struct")):
        if "block_size" in rv["fields"]:
            e = agg_field_expr(b, s, rv, "block_size")
            ck.ob(R, "builder-to-writer/block_size", is_self_field(e, "block_size"), f"Writer.block_size := {e.show()}", b, s)
    for fld in ("compression_type", "compression_level"):
        # the setter stores its argument into one field (of the builder, or of a private struct the builder keeps its
        # compression settings in), and nothing else in the crate assigns that field
        sb = F.body(A("writer_builder") + "::" + fld)
        mine = [(site, s) for site, s in sb.sites() if site.i is not None and s["s"] == "assign" and s["pl"]["p"] and isinstance(s["pl"]["p"][-1], dict) and "name" in s["pl"]["p"][-1]]
        n_all = 0
        for site, s in mine:
            e = sb._expr_of_def((site, "assign", s["rv"]))
            last = s["pl"]["p"][-1]
            ck.ob(R, f"setter/{fld}", e.strip().k == "arg", f"WriterBuilder::{fld} stores {e.show()} into {last.get('adt', '?').split('::')[-1]}.{last['name']}", sb, site)
            n_all += len(field_stores(F, last.get("adt"), last["name"]))
        ck.exact(R, f"stores to WriterBuilder.{fld}", len(mine) if n_all == len(mine) else n_all, 1, F.config)
    # reader side: every block load decodes with the codec named in the trailer
    loads = []
    for b in F.user_bodies():
        for site, c, t in calls(b, A("block_new")):
            loads.append((b, site))
    ck.floor(R, "Block::new load sites", len(loads), 8, F.config)
    rec = F.body(A("ibc_recursive"))
    for b, site in loads:
        a = b.arg_exprs(site)[1]
        mf = reader_meta_field(F, a)
        ok = (mf is not None and mf[0] == "compression_type" and is_self_field(mf[1], "reader")) or is_self_field(a, "compression_type")
        if b.path == rec.path:
            ok = is_arg(a, "compression_type")
        ck.ob(R, f"load-codec/{b.path}", ok, f"Block::new(.., codec = {a.show()})", b, site)
    # callers of `recursive` pass the cursor's codec
    for b in F.user_bodies():
        for site, c, t in calls(b, A("ibc_recursive")):
            a = b.arg_exprs(site)[1]
            ck.ob(R, f"recursive-codec/{b.path}", is_self_field(a, "compression_type") or is_arg(a, "compression_type"), f"recursive(.., codec = {a.show()})", b, site)
    if F.has_body(A("reader_codec")):
        g = F.body(A("reader_codec"))
        ck.ob(R, "reader-codec-getter", is_self_field(g.expr_at_return(), "metadata", "compression_type"), f"Reader::compression_type returns {g.expr_at_return().show()}", g)
    # the index cursor is configured in ReaderCursor::new (IndexBlockCursor::new is read as part of it) from the
    # trailer of the reader it wraps: each field from the trailer field of the same meaning, through the accessor
    # or straight from reader.metadata
    rcn = F.body(A("rc_prefix") + "new")
    ibn = A("ibc_prefix") + "new"
    ags = [(b, s, rv) for b, s, rv in aggregates(F, A("ibc_struct")) if b.path != ibn]
    ck.ob(R, "index-cursor-built-once", len(ags) == 1 and ags[0][0].path == rcn.path, f"IndexBlockCursor is built in ReaderCursor::new only ({[b.path for b, s, rv in ags]})", rcn)
    for b, s, rv in ags:
        got = {}
        for fld in ("base_block_offset", "compression_type", "index_levels"):
            mf = reader_meta_field(F, agg_field_expr(b, s, rv, fld)) if fld in rv["fields"] else None
            got[fld] = (mf[0], mf[1].show()) if mf else None
        want = {"base_block_offset": ("index_block_offset", "reader"), "compression_type": ("compression_type", "reader"), "index_levels": ("index_levels", "reader")}
        ck.ob(R, "index-cursor-codec-init", got["compression_type"] == want["compression_type"], f"IndexBlockCursor.compression_type := {got['compression_type']} of the reader's trailer", b, s)
        ck.ob(R, "cursor-new-plumbing", got == want, f"IndexBlockCursor {{ {', '.join(k + ': ' + str(v) for k, v in got.items())} }}", b, s)
    st = field_stores(F, A("ibc_struct"), "compression_type") + field_stores(F, A("block_struct"), "compression_type") + field_stores(F, A("meta_struct"), "compression_type")
    ck.exact(R, "stores overwriting a decoded codec field", len(st), 0, F.config)
    bn = F.body(A("block_new"))
    for b, s, rv in aggregates(F, A("block_struct")):
        e = agg_field_expr(b, s, rv, "compression_type")
        ck.ob(R, "block-codec-init", b.path == bn.path and is_arg(e, "compression_type"), f"Block.compression_type := {e.show()}", b, s)
    rf = F.body(A("block_read_from"))
    ds = calls(rf, A("decompress"))
    ck.exact(R, "decompress calls in Block::read_from", len(ds), 1, F.config)
    for site, c, t in ds:
        a = rf.arg_exprs(site)
        ck.ob(R, "decompress-codec", is_self_field(a[0], "compression_type") and is_self_field(a[2], "buffer"), f"decompress({a[0].show()}, .., into {a[2].show()})", rf, site)


# ---------------------------------------------------------------------------------------
def stale_count_writes(b, count_sites, use, is_sink):
    """sink writes W (calls handed `&mut` the sink) that can run after the latest of the given count() reads and
    before `use`: W is reachable from one of the reads and reaches `use` without passing another read.  Every call
    ends its own basic block, so this is block reachability with the reads' blocks removed."""
    A_ = {s.bb for s in count_sites}
    back = b.reaches(use.bb, stop=A_) - A_
    fwd = set()
    for s in count_sites:
        fwd |= b.reachable_from(s.bb)
    out = []
    for s, c, t in b.calls():
        if s.bb not in back or s.bb not in fwd or (s.bb == use.bb and use.bb not in back):
            continue
        for op, e in zip(t["args"], b.arg_exprs(s)):
            ty = op["pl"]["ty"] if op["k"] in ("copy", "move") else ""
            if ty.startswith("&mut") and is_sink(e):
                out.append(s)
                break
    return out


def dispatch_table(body, argname):
    """switch on discriminant of parameter `argname`: {variant: [callee names in that arm]}"""
    for bb in sorted(body.normal_blocks()):
        t = body.term(bb)
        if t["t"] != "switch":
            continue
        e, enum, labels, oth = switch_on(body, bb)
        if e.k == "discr" and is_arg(e.a[0], argname):
            table = {}
            for lab, tb in labels.items():
                reg = arm_region(body, bb, tb)
                table[lab] = [(s, callee_name(c), t_) for s, c, t_ in region_calls(body, reg)]
            return bb, enum, table
    raise AnchorMissing(f"no switch on discriminant of `{argname}` in {body.path}")


def _codec_calls(F, body, sites, depth=0, seen=None):
    """external codec-crate callees reached from the given call sites of `body`: the calls themselves, and those of the
    crate's own functions they call (the per-codec helpers), transitively"""
    seen = seen if seen is not None else set()
    out = set()
    local = []
    for s, n, t_ in sites:
        c = callee_of(t_)
        if c is None:
            continue
        if _is_codec_crate(n):
            out.add(n)
        elif (c.get("resolved_local") if "resolved" in c else c.get("local")) and F.has_body(n) and n not in seen and depth < 4:
            seen.add(n)
            local.append(n)
            hb = F.body(n)
            out |= _codec_calls(F, hb, [(s2, callee_name(c2), t2) for s2, c2, t2 in hb.calls()], depth + 1, seen)[0]
    return out, local


def r3_codec_table(ck, F, R="C01-R3"):
    """which codec each id selects, on both sides.  Stated on what an arm *reaches* (the external encoder / decoder
    family), so that `snappy_compress(data)` and `snappy::compress(data, framed = true)` spliced into the arm are the
    same table entry, and the inverted flag is the wrong one"""
    stems = anchors()["codec_stems"]
    enum = F.adts[A("compression_enum")]
    variants = [v["name"] for v in enum["variants"]]
    ck.ob(R, "variants-known", sorted(variants) == sorted(stems.keys()), f"CompressionType variants {variants} all have a registered codec family", nontrivial=False, config=F.config)
    comp = F.body(A("compress"))
    deco = F.body(A("decompress"))
    _, e1, tc = dispatch_table(comp, comp.arg_name(1))
    _, e2, td = dispatch_table(deco, deco.arg_name(1))
    for v in variants:
        fam = stems.get(v, {}).get("family", [])
        excl = stems.get(v, {}).get("exclude", [])
        ce, lc = _codec_calls(F, comp, tc.get(v, []))
        de, ld = _codec_calls(F, deco, td.get(v, []))
        cc = [n for _, n, _ in tc.get(v, [])]
        dc = [n for _, n, _ in td.get(v, [])]
        if not fam:
            # identity: returns Ok(Cow::Borrowed(data)) / copies the stream
            ck.ob(R, f"compress-arm/{v}", cc == [], f"compress arm {v}: calls {cc} (identity expected)", comp, config=F.config)
            ck.ob(R, f"decompress-arm/{v}", len(dc) >= 1 and dc[0].endswith("Read::read_to_end") and not de, f"decompress arm {v}: calls {dc} (read_to_end expected)", deco, config=F.config)
            continue
        if not ce and not de:
            # feature compiled out: both sides must be the "unsupported" stubs (return Err)
            stubs = [F.body(n) for n in lc + ld]
            ok = bool(stubs) and all(_returns_err_only(b_) for b_ in stubs) and len(lc) >= 1 and len(ld) >= 1
            if not stubs:
                # the stub spliced into the arm (a helper the pinned tree does not have): the arm builds an io::Error
                # and reaches nothing else
                ok = all(any(n_.endswith("io::Error::new") for n_ in side) and all(n_.endswith(("io::Error::new", "::into", "::from")) or n_.startswith(("std::", "core::", "alloc::", "<std::", "<core::", "<alloc::", "<T as std::")) for n_ in side) for side in (cc, dc))
            ck.ob(R, f"compress-arm/{v}", ok, f"{v}: feature off, both arms end in Err stubs ({lc + ld})", comp, config=F.config, nontrivial=False)
            ck.ob(R, f"decompress-arm/{v}", ok, f"{v}: feature off, both arms end in Err stubs ({lc + ld})", deco, config=F.config, nontrivial=False)
            continue
        crate, framing = fam[0], fam[1:]

        def in_family(side):
            return bool(side) and all(crate in n for n in side) and all(any(tok in n for n in side) for tok in framing) and not any(x in n for x in excl for n in side)
        ck.ob(R, f"compress-arm/{v}", in_family(ce), f"compress arm {v} reaches {sorted(ce)} (expected the {fam} encoder only)", comp, config=F.config)
        ck.ob(R, f"decompress-arm/{v}", in_family(de), f"decompress arm {v} reaches {sorted(de)} (expected the {fam} decoder only)", deco, config=F.config)
        ck.ob(R, f"codec-pair/{v}", in_family(ce) and in_family(de), f"{v}: encoder side {sorted(ce)} / decoder side {sorted(de)} must both be of family {fam}", comp, config=F.config)
    # identity arm of compress returns the input borrowed
    for s, kind, payload in ok_return_sites(comp):
        if kind == "assign":
            e = comp._expr_of_def((s, kind, payload))
            if e.k == "agg" and e.x.get("variant") == "Ok":
                inner = e.a[0]
                if inner.k == "agg" and inner.x.get("variant") == "Borrowed":
                    ck.ob(R, "compress-identity", is_arg(inner.a[0], comp.arg_name(3)), f"compress None arm returns {e.show()}", comp, s)
    # every per-codec helper called from an arm receives the function's own data / level / out
    for v, lst in tc.items():
        for s, n, t_ in lst:
            c = callee_of(t_)
            if c is None or not c.get("local") or not n.startswith("compression::"):
                continue
            a = comp.arg_exprs(s)
            ck.ob(R, f"compress-helper-args/{v}", is_arg(a[0], comp.arg_name(3)) and (len(a) < 2 or is_arg(a[1], comp.arg_name(2)) or a[1].strip().k == "const"), f"{n}({', '.join(x.show() for x in a)})", comp, s)
    for v, lst in td.items():
        for s, n, t_ in lst[:1]:
            c = callee_of(t_)
            if not (n.endswith("Read::read_to_end") or (c is not None and c.get("local") and n.startswith("compression::"))):
                continue
            a = deco.arg_exprs(s)
            # the helper receives the function's own reader (possibly behind an adapter built around it) and its own output buffer
            own_reader = a[0].mentions_arg(deco.arg_name(2)) and not any(x.k == "arg" and x.x.get("name") != deco.arg_name(2) for x in a[0].walk())
            ck.ob(R, f"decompress-helper-args/{v}", own_reader and is_arg(a[1], deco.arg_name(3)), f"{n}({', '.join(x.show() for x in a)})", deco, s)
    # from_u8 is the inverse of `as u8` on all 256 inputs
    fu = F.body(A("from_u8"))
    discr = {int(v["discr"]): v["name"] for v in enum["variants"]}
    from . import fmt
    tbl = fmt.from_u8_table(F)
    bad = [(x, tbl[x], discr.get(x)) for x in range(256) if tbl[x] != discr.get(x)]
    ck.ob(R, "from_u8-inverse-of-as-u8", not bad, "from_u8(d) = Some(variant with discriminant d) for the 6 ids and None for the other 250 byte values" + (f"; mismatches {bad[:6]}" if bad else ""), fu, ids=256)
    ck.exhaustive = True


def _is_codec_crate(n):
    return any(n.startswith(p) or ("<" + p) in n or (" " + p) in n for p in ("snap::", "flate2::", "lz4_flex::", "zstd::"))


def _returns_err_only(b):
    for s, kind, payload in ok_return_sites(b):
        if kind != "assign":
            return False
        e = b._expr_of_def((s, kind, payload))
        if not (e.k == "agg" and e.x.get("variant") == "Err"):
            return False
    return True


def _from_u8_result(fu, tb):
    """follow gotos from tb to the assignment of _0: returns variant name or None"""
    seen = set()
    b = tb
    while b not in seen:
        seen.add(b)
        for i, st in enumerate(fu.blocks[b]["stmts"]):
            if st["s"] == "assign" and not st["pl"]["p"] and st["pl"]["l"] == 0:
                e = fu._expr_of_def((Site(b, i), "assign", st["rv"]))
                if e.k == "agg" and e.x.get("variant") == "None":
                    return None
                if e.k == "agg" and e.x.get("variant") == "Some":
                    inner = e.a[0]
                    if inner.k == "agg" and inner.x.get("adt") == A("compression_enum"):
                        return inner.x.get("variant")
                return "?" + e.show()
        t = fu.term(b)
        if t["t"] == "goto":
            b = t["target"]
        else:
            break
    return "?"


# ---------------------------------------------------------------------------------------
def writer_sink_mut(e):
    return is_self_field(e, "writer")


def r4_index_pair(ck, F, R="C01-R4"):
    npaired = nroot = 0
    for path in (A("writer_insert"), A("writer_into_inner")):
        b = F.body(path)
        b0 = b
        for rec in classify_block_writes(ck, R, b0):
            b = rec.get("body", b0)
            site = rec["site"]
            key = f"{b.path.split('::')[-1]}/{rec['bw']}"
            if rec["kind"] == "root":
                nroot += 1
                ck.ob(R, f"root-site/{key}", b.path == A("writer_into_inner"), "block written without a parent entry is the root index block (guarded by head.is_empty())", b, site)
                continue
            if rec["kind"] != "paired":
                ck.ob(R, f"unpaired/{key}", False, f"block writer `{rec['bw']}` is written without its (last key, offset) being recorded in a parent index on every path", b, site)
                continue
            npaired += 1
            ia = rec["insert_args"]
            isite = rec["insert_site"]
            # parent relation
            bw = rec["bw"]
            parent = unwrap_payload(ia[0], "Some")
            ps = parent.strip().show() if parent is not None else ia[0].show()
            sp = split_part(rec["bw_expr"])
            if sp is None:
                want = "self.index_block_writers.last_mut()"
                okp = is_self_field(rec["bw_expr"], "block_writer") and parent is not None and is_call(parent, "::last_mut") and is_self_field(parent.strip().a[0], "index_block_writers")
            else:
                hp = split_part(parent.strip().a[0]) if (parent is not None and is_call(parent, "::last_mut")) else None
                okp = sp[1] == 0 and hp is not None and hp[0] == sp[0] and hp[1] == 1
                want = "head.last_mut() of the same split_last_mut"
            ck.ob(R, f"parent-is-next-level-up/{key}", okp, f"entry for `{bw}` goes into `{ps}` (expected {want})", b, isite)
            # offset: to_be_bytes(count(self.writer)) taken before the block write, no sink write in between
            val = strip_casts(ia[2])
            okv = is_call(val, "::to_be_bytes")
            # the offset may be carried from block to block (`offset = count()` refreshed after every write): every
            # value it can hold is a count() of the sink, told apart by the site that reads it
            cnts = [c_.strip() for c_ in site_alts(val.strip().a[0])] if okv else []
            okc = bool(cnts) and all(c_.k == "call" and c_.x["path"].endswith(A("count_count")) and is_self_field(c_.a[0], "writer") for c_ in cnts)
            ck.ob(R, f"offset-is-sink-count/{key}", okv and okc, f"recorded offset = {val.show()} (expected to_be_bytes(self.writer.count()))", b, isite)
            if okc:
                stale = stale_count_writes(b, [c_.x["site"] for c_ in cnts], site, writer_sink_mut)
                ck.ob(R, f"offset-read-before-write/{key}", not stale,
                      "on every path the latest count() read precedes the block write with no write to the sink between them" + (f" (sink writes after the latest read at {[b.loc(s) for s in stale]})" if stale else ""), b, cnts[0].x["site"])
    ck.floor(R, "paired block-write sites", npaired, 3, F.config)     # 4 on the pinned tree; sites may be shared through a helper
    # the root index block — the level with no level above it — is written on every finish, even when it
    # holds no entry: specialise the finish code to "this level has no last key" and "there is no level
    # above" and a block write of that level's writer must remain reachable
    fin = F.body(A("writer_into_inner"))

    def _level_writer(e):
        sp = split_part(e)
        return sp is not None and sp[1] == 0

    def _head(e):
        sp = split_part(e)
        return sp is not None and sp[1] == 1

    def chooser(e, enum):
        if e.k == "discr":
            c_ = e.a[0].strip()
            if c_.k == "call" and c_.x["path"].endswith(A("bw_last_key")) and c_.a and _level_writer(c_.a[0]):
                return "None"
            if c_.k == "call" and c_.x["path"].rsplit("::", 1)[-1] in ("last_mut", "last", "first", "first_mut") and c_.a and _head(c_.a[0]):
                return "None"
        if e.k == "call" and e.x["path"].endswith("::is_empty") and e.a and _head(e.a[0]):
            return "true"
        if e.k == "un" and e.x.get("op") == "Not" and e.a[0].k == "call" and e.a[0].x["path"].endswith("::is_empty") and _head(e.a[0].a[0]):
            return "false"
        return None
    sb = specialise_switch(fin, chooser, None)
    root_writes = [s for s, c, t in calls(sb, A("write_block")) if s.bb in sb.normal_blocks() and _level_writer(sb.arg_exprs(s)[1])]
    ck.ob(R, "root-always-written", sb.specialised[1] >= 1 and len(root_writes) >= 1, f"with no last key and no level above, into_inner still writes the level's block ({len(root_writes)} reachable write site(s) after resolving {sb.specialised[1]} decision(s)): the root index block exists in every file", fin)


# ---------------------------------------------------------------------------------------
def r5_finish_order(ck, F, R="C01-R5"):
    b = F.body(A("writer_into_inner"))
    ws = calls(b, A("write_block"))
    data = [s for s, c, t in ws if is_self_field(b.arg_exprs(s)[1], "block_writer")]
    levels = [s for s, c, t in ws if s not in data]
    ck.exact(R, "data-block flush sites in into_inner", len(data), 1, F.config)
    ck.floor(R, "index-level flush sites in into_inner", len(levels), 1, F.config)   # 2 on the pinned tree (with / without a last key); one site may serve both
    for d in data:
        bad = [l for l in levels if d.bb in b.reachable_from(l.bb)]
        ck.ob(R, "data-before-index", not bad and all(d.bb != l.bb for l in levels), "the pending data block is flushed before any index level (no path from an index flush back to the data flush)", b, d)
        # guarded only by "block not empty"
    # level loop: slice starts as the whole vector, advances to head, flushes .0 (the last)
    sl = calls(b, "::split_last_mut")
    ck.exact(R, "split_last_mut sites in into_inner", len(sl), 1, F.config)
    for s, c, t in sl:
        a = b.arg_exprs(s)[0].strip()
        comps = [x for x in (a.a if a.k == "phi" else [a])]
        init = [x for x in comps if is_self_field(x, "index_block_writers")]
        step = [x for x in comps if x not in init]
        ok_step = all((split_part(x) or (None, None))[0] == s and split_part(x)[1] == 1 for x in step) and len(step) >= 1
        ck.ob(R, "levels-last-to-first", len(init) == 1 and ok_step, f"level loop iterates split_last_mut over {a.show()} (whole vector, then `head`)", b, s)
    for l in levels:
        bwe = b.arg_exprs(l)[1]
        sp = split_part(bwe)
        ck.ob(R, f"flushes-last-of-slice/{b.src_at(l)[:40]}", sp is not None and sp[1] == 0 and sl and sp[0] == sl[0][0], f"index flush writes `{bwe.ident()}` (the last writer of the remaining slice)", b, l)
    # trailer offset: the count() of the same iteration, before that iteration's block write
    aggs = [(bb, s, rv) for bb, s, rv in aggregates(F, A("meta_struct")) if bb.path == b.path]
    for bb, s, rv in aggs:
        e = agg_field_expr(b, s, rv, "index_block_offset")
        comps = site_alts(e)      # (through `Ok(offset)?` of a spliced helper, copies, joins; one entry per producing site)
        okc = all(x.strip().k == "call" and x.strip().x["path"].endswith(A("count_count")) and is_self_field(x.strip().a[0], "writer") for x in comps)
        ck.ob(R, "trailer-offset-from-count", okc, f"Metadata.index_block_offset := {e.show()}", b, s)
        if okc:
            loopc = [x.strip().x["site"] for x in comps if b.in_loop(x.strip().x["site"].bb)]
            ck.ob(R, "trailer-offset-updated-in-loop", len(loopc) == 1, "the trailer offset is re-read inside the level loop (once per iteration)", b, s)
            for cs in loopc:
                for l in levels:
                    between = mut_uses_between(b, cs, l, writer_sink_mut)
                    ck.ob(R, f"root-offset-before-write/{b.loc(l)}", b.dominates(cs, l) and not between, "count() of the iteration dominates that iteration's block write with no sink write in between", b, cs)
        fv = agg_field_expr(b, s, rv, "file_version")
        ck.ob(R, "writes-v2", variant_of(F, fv) == "FormatV2", f"Metadata.file_version := {fv.show()} ({variant_of(F, fv)})", b, s)
    wi = calls(b, A("meta_write"))
    ck.exact(R, "Metadata::write_into sites", len(wi), 1, F.config)
    fin = calls(b, A("count_into_inner"))
    ck.exact(R, "CountWrite::into_inner sites", len(fin), 1, F.config)
    if wi and fin:
        w = wi[0][0]
        a = b.arg_exprs(w)
        ck.ob(R, "trailer-into-sink", is_self_field(a[1], "writer"), f"write_into(.., {a[1].show()})", b, w)
        after = b.reachable_from(w.bb)
        late = [s for s, c, t in ws if s.bb in after]
        ck.ob(R, "trailer-after-all-blocks", not late and all(b.dominates(s_, w) or True for s_ in []), "no block is written after the trailer", b, w)
        oks = ok_return_sites(b)
        ck.ob(R, "only-ok-exit-is-flush", len(oks) == 1 and oks[0][0] == fin[0][0], f"the only success exit is CountWrite::into_inner (exits: {[b.loc(s) for s, _, _ in oks]})", b, fin[0][0])
        ck.ob(R, "trailer-dominates-success", b.dominates(w, fin[0][0]), "write_into dominates the success exit", b, w)
        between = [s for s in mut_uses_between(b, w, fin[0][0], writer_sink_mut)]
        ck.ob(R, "nothing-after-trailer", not between, "nothing is written between the trailer and the final flush", b, w)


def _is_head_of_same_loop(b, x, split_site):
    s = x.show()
    return s in ("var:head",) or s.endswith("@Some.0.1")


# ---------------------------------------------------------------------------------------
def r6_depth(ck, F):
    R = "C01-R6"
    bld = F.body(A("writer_build"))
    fe = calls(bld, "vec::from_elem")
    ck.exact(R, "vec![writer; n] sites in WriterBuilder::build", len(fe), 1, F.config)
    for s, c, t in fe:
        n = bld.arg_exprs(s)[1]
        c_ = checked(n)
        # widened to usize before the addition: `x as usize` or `usize::from(x)` (strip() sees through the latter,
        # a lossless widening; an addition done in u8 would show as an Add under the cast instead)
        wide = c_ is not None and ((c_[1].strip().k == "cast" and c_[1].strip().x["to"] == "usize") or (c_[1].k == "call" and "From<u8> for usize" in c_[1].x.get("path", "")) or any(w.k == "call" and "From<u8> for usize" in w.x.get("path", "") for w in c_[1].walk()))
        ok = bool(c_ and c_[0] == "Add" and const_val(c_[2]) == 1 and strip_casts(c_[1]).k == "field" and is_self_field(strip_casts(c_[1]), "index_levels") and wide)
        ck.ob(R, "levels-plus-one-writers", ok, f"index writer vector length = {n.show()} (expected self.index_levels as usize + 1, widened before adding)", bld, s)
    for b, s, rv in aggregates(F, A("writer_struct")):
        e = agg_field_expr(b, s, rv, "index_block_writers")
        ck.ob(R, "vector-into-writer", is_call(e, "vec::from_elem"), f"Writer.index_block_writers := {e.show()}", b, s)
    fin = F.body(A("writer_into_inner"))
    for b, s, rv in aggregates(F, A("meta_struct")):
        if b.path != fin.path:
            continue
        e = agg_field_expr(b, s, rv, "index_levels").strip()
        ok = False
        why = e.show()
        # narrowing by `as u8` or by a checked conversion (try_into / try_from whose failure is an error exit)
        inner = None
        if e.k == "cast" and e.x["to"] == "u8":
            inner = e.a[0]
        else:
            p = unwrap_payload(e, "Ok")
            p = p.strip() if p is not None else e
            if p.k == "call" and p.x["path"].rsplit("::", 1)[-1] in ("try_into", "try_from") and p.a:
                inner = p.a[-1]
        if inner is not None:
            c_ = checked(inner)
            if c_ and c_[0] == "Sub" and const_val(c_[2]) == 1 and is_call(c_[1], "Vec::<T, A>::len") and is_self_field(c_[1].strip().a[0], "index_block_writers"):
                ok = True
        if not ok:
            # the level count kept beside the vector: it must be the very value the vector's length was derived from
            # (the builder's index_levels, whose setter and default are its only origins)
            from .origin import Tracer
            T = Tracer(F, stop_at=[A("writer_builder") + "::index_levels"])
            ot = T.origins(b, e)
            vec_src = set()
            for b2, s2, rv2 in aggregates(F, A("writer_struct")):
                ve = agg_field_expr(b2, s2, rv2, "index_block_writers")
                for x in ve.walk():
                    if x.k == "field" and x.x["name"] == "index_levels":
                        vec_src |= T.origins(b2, x)
            want = "param:" + A("writer_builder") + "::index_levels#"
            ok = bool(ot) and ot == vec_src and any(o.startswith(want) for o in ot) and all(o.startswith(want) or o.startswith("const:") for o in ot)
            why = f"{e.show()} with origins {sorted(ot)}"
        ck.ob(R, "trailer-levels-narrowed-last", ok, f"Metadata.index_levels := {why} (expected (index_block_writers.len() - 1) as u8 — subtract, then narrow — or the builder's level count the vector length was derived from)", b, s)
    stores = field_stores(F, A("writer_struct"), "index_block_writers")
    ck.exact(R, "stores replacing Writer.index_block_writers", len(stores), 0, F.config)
    # nothing pushes to / pops from the vector of index writers
    bad = []
    for b in F.user_bodies():
        for s, c, t in b.calls():
            n = callee_name(c)
            if any(n.endswith(x) for x in ("Vec::<T, A>::push", "Vec::<T, A>::pop", "Vec::<T, A>::truncate", "Vec::<T, A>::clear", "Vec::<T, A>::insert", "Vec::<T, A>::remove")):
                a = b.arg_exprs(s)
                if a and is_self_field(a[0], "index_block_writers"):
                    bad.append(b.loc(s))
    ck.ob(R, "vector-length-fixed", not bad, "the vector of index writers is never resized after construction" + (f": {bad}" if bad else ""), config=F.config)
    if F.has_body(A("reader_levels")):
        g = F.body(A("reader_levels"))
        ck.ob(R, "reader-levels-getter", is_self_field(g.expr_at_return(), "metadata", "index_levels"), f"Reader::index_levels returns {g.expr_at_return().show()}", g)
    ini = F.body(A("ibc_initial"))
    # the loop that loads the levels runs index_levels + 1 times: `for _ in 0..index_levels as usize + 1`,
    # `0..=index_levels`, or `while v.len() < index_levels + 1 { ..; v.push(..) }` (the forms C16-R3 recognises)
    from .c16 import Cost
    C = Cost(F, ck, R)
    loads = [s for s, c, t in calls(ini, A("block_new"))]
    found = False
    for h, blks in ini.loops():
        if not any(s.bb in blks for s in loads):
            continue
        found = True
        ck.ob(R, "reader-depth", C._loop_bound(ini, h, blks) == "D", f"the loop of initial_index_blocks that loads the index levels (at {ini.loc(Site(h, None))}) runs index_levels + 1 times", ini, Site(h, None))
    ck.ob(R, "reader-depth-loop-found", found, "initial_index_blocks loads the index levels in a loop", ini, nontrivial=False)


# ---------------------------------------------------------------------------------------
def _flush_guard_kind(g):
    if "current_size_estimate" in g and "block_size" in g:
        return "size"
    if "BlockWriter::last_key(self.block_writer)" in g:
        return "nonempty"
    if "last_mut(" in g and "index_block_writers" in g:
        return "parent"
    return None


def r8_pending_block(ck, F, R="C01-R8"):
    """a block that holds at least one entry is always flushed: `last_key()` is Some exactly when an
    entry was inserted since the last flush (getter is a pure projection, insert sets it on both
    arms, only the post-flush reset clears it), and both flush sites test exactly that"""
    from .c18 import r1_order_assert, r3_lastkey_life
    from .c03 import r5_wrappers
    lk = F.body(A("bw_last_key"))
    e = lk.expr_at_return()
    from .lastkey import LastKeyRepr
    pure = LastKeyRepr(F).getter_pure(lk)
    ck.ob(R, "last-key-getter-pure", pure and len(list(lk.calls())) <= 3, f"BlockWriter::last_key is a pure view of the field: {e.show()}", lk)
    r3_lastkey_life(ck, F, R)
    r1_order_assert(ck, F, R)
    # both flush sites of the data block are guarded by last_key() being Some and nothing else
    for path in (A("writer_insert"), A("writer_into_inner")):
        b = F.body(path)
        for site, c, t in calls(b, A("write_block")):
            if not is_self_field(b.arg_exprs(site)[1], "block_writer"):
                continue
            guards = []
            for bb in success_guards(b, site):
                e2 = b.expr_of_operand(b.term(bb)["discr"], Site(bb, None))
                guards.append(e2.show())
            # each guard is one of: the size test, "the block holds a key" (a match on / is_some of last_key()), "a
            # parent index level exists"; testing the same fact twice (caller and helper) changes nothing
            kinds = [_flush_guard_kind(g) for g in guards]
            want = {"size", "nonempty", "parent"} if path == A("writer_insert") else {"nonempty", "parent"}
            ok = "nonempty" in kinds and None not in kinds and set(kinds) <= want
            ck.ob(R, f"flush-guard/{path.split('::')[-1]}", ok, f"data block flush is guarded by {[g[:70] for g in guards]}", b, site)
    # the backward scan enters the previous index block at its last entry (shared with C03-R5)
    r5_wrappers(ck, F, R)
    from .c03 import r3_reset
    r3_reset(ck, F, R)


def r7_mirror(ck, F, R="C01-R7"):
    rc = A("rc_prefix")
    ibc = A("ibc_prefix")
    pairs = [
        (rc + "move_on_next", rc + "move_on_prev"),
        (rc + "move_on_first", rc + "move_on_last"),
        (rc + "next_block_from_index", rc + "prev_block_from_index"),
        (ibc + "move_on_next", ibc + "move_on_prev"),
        (ibc + "move_on_first", ibc + "move_on_last"),
    ]
    for a, b in pairs:
        mirror.check_pair(ck, R, F, a, b, mirror.DIRECTION)


# ---------------------------------------------------------------------------------------
def r9_fill_lengths(ck, F, R="C01-R9"):
    """every byte of a block that reaches the file must be codec output: a codec / stream call that fills a
    caller-provided `&mut [u8]` and reports the length it produced must have that length read (to
    truncate / slice the buffer) — otherwise the unwritten tail of the buffer is written as block bytes"""
    bad = dropped_fill_lengths(F)
    for b, s, n in bad:
        ck.ob(R, f"fill-length-dropped/{b.path}/{n.rsplit('::', 1)[-1]}", False, f"{n} fills a byte buffer and returns the number of bytes produced, which is never read: the rest of the buffer is handed on as data", b, s)
    n = sum(1 for b in F.user_bodies() for s, c, t in b.calls())
    ck.ob(R, "fill-lengths-read", not bad, f"{n} call sites inspected: no call that fills a `&mut [u8]` has its produced length discarded (fixture fill_len_dropped proves the detector fires)", config=F.config)
