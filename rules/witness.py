"""placeholder; replaced below by the real witness runner"""
def run(ck, pid):
    return None
