"""witness — runs the compile_fail / no_run doctests of /verif/witness against the repository under
analysis (`cargo +nightly test --doc --offline`; error codes are only honoured on nightly).
Nothing is executed: compile_fail tests stop at type checking, twins are `no_run`.
Results are cached per (tree hash, witness source hash)."""
import fcntl
import hashlib
import json
import os
import re
import shutil
import subprocess

from . import factcache

VERIF = factcache.VERIF


def _run_all(repo):
    src = os.path.join(VERIF, "witness", "src", "lib.rs")
    with open(src, "rb") as fh:
        wh = hashlib.sha256(fh.read()).hexdigest()[:12]
    th = factcache.tree_hash(repo)
    outdir = os.path.join(factcache.CACHE, "facts", th)
    os.makedirs(outdir, exist_ok=True)
    cache = os.path.join(outdir, f"witness-{wh}.json")
    tag = factcache._repo_tag(repo)
    with open(os.path.join(factcache.CACHE, f"witness-{tag}.lock"), "w") as lk:
        fcntl.flock(lk, fcntl.LOCK_EX)
        if os.path.exists(cache):
            return json.load(open(cache))
        work = os.path.join(factcache.CACHE, f"witness-{tag}")
        os.makedirs(os.path.join(work, "src"), exist_ok=True)
        shutil.copy(src, os.path.join(work, "src", "lib.rs"))
        with open(os.path.join(work, "Cargo.toml"), "w") as fh:
            fh.write(f'[package]\nname = "grenad-witness"\nversion = "0.0.0"\nedition = "2021"\n\n[dependencies]\ngrenad = {{ path = "{os.path.abspath(repo)}" }}\n\n[workspace]\n')
        shutil.copy(os.path.join(repo, "Cargo.lock"), os.path.join(work, "Cargo.lock"))
        target = os.path.join(factcache.CACHE, "target", f"witness-{tag}")
        seed = os.path.join(factcache.CACHE, "target", f"witness-{factcache._repo_tag('/repo')}")
        if not os.path.exists(target) and os.path.exists(seed) and seed != target:
            shutil.copytree(seed, target, symlinks=True)
        env = factcache.base_env()
        env["CARGO_TARGET_DIR"] = target
        env["RUSTFLAGS"] = "-Awarnings"
        env["RUSTDOCFLAGS"] = "-Awarnings"
        r = subprocess.run(["cargo", "+nightly", "test", "--doc", "--offline", "--", "--test-threads", "16"], cwd=work, env=env, capture_output=True, text=True)
        out = r.stdout + r.stderr
        res = {}
        for m in re.finditer(r"^test src/lib\.rs - (\S+) \(line \d+\)(?: - (compile fail|compile))? \.\.\. (\w+)", out, re.M):
            res[m.group(1)] = {"kind": m.group(2) or "run", "result": m.group(3)}
        data = {"tests": res, "rc": r.returncode, "tail": out[-1500:] if not res else ""}
        if res:
            with open(cache, "w") as fh:
                json.dump(data, fh)
        return data


def run(ck, pid):
    R = f"{pid}-WIT"
    data = _run_all(ck.repo)
    prefix = pid.lower() + "_"
    tests = {k: v for k, v in data["tests"].items() if k.startswith(prefix)}
    fails = {k[:-len("_fails")]: v for k, v in tests.items() if k.endswith("_fails")}
    twins = {k[:-len("_twin")]: v for k, v in tests.items() if k.endswith("_twin")}
    if not tests:
        ck.ob(R, "witnesses-ran", False, f"no witness result for {pid} (cargo test --doc rc={data['rc']}): {data.get('tail', '')[-400:]}", nontrivial=False)
        return
    for name in sorted(set(fails) | set(twins)):
        f, t = fails.get(name), twins.get(name)
        okf = f is not None and f["result"] == "ok" and f["kind"] == "compile fail"
        okt = t is not None and t["result"] == "ok"
        ck.ob(R, f"witness/{name}", okf and okt, f"{name}: the violating program is rejected by the compiler with the expected error ({'ok' if okf else 'NOT rejected / wrong error'}), its twin without the offending line compiles ({'ok' if okt else 'DOES NOT COMPILE'})", config="witness")
    want = {"C17": 15, "C03": 1, "C08": 1}.get(pid, 1)
    ck.floor(R, f"witness pairs for {pid}", len(set(fails) & set(twins)), want, "witness")
