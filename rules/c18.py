"""C18 — a writer never emits an unsorted block: the order assertion is strict, survives release
builds, dominates every append, and no second way into a block buffer exists."""
from .common import *
from .c01 import classify_block_writes

PID = "C18"
META = {
    "explanation": "Static analysis of BlockWriter::insert and of who can mutate a block buffer, on the MIR of the current tree including a release-like configuration (debug assertions and overflow checks off): the strict order comparison's false edge diverges and, together with the empty-block arm, cuts every path to the buffer appends; last_key is refreshed on both arms; the buffer has no other appender; every index entry goes through the same checked insert with the flushed block's last key. Decides the enforcement mechanism on every path, not sortedness of runtime data. 'Emits' is about bytes: the shared file-wellformedness rules (rules/shared.py: varint / entry framing, counting sink, write_all) are re-run so that the bytes leaving the writer decode to the keys that were checked.",
    "assumptions": ["lexicographic Ord on [u8] from core", "a panic aborts the insert (no catch_unwind inside grenad)"],
}


def run(ck):
    for cfg in ck.configs(quick=("default", "rel", "all"), thorough=("default", "rel", "all", "none")):
        F = ck.facts(cfg)
        ck.guard("C18-R1", r1_order_assert, ck, F)
        ck.guard("C18-R2", r2_sole_appender, ck, F)
        ck.guard("C18-R3", r3_lastkey_life, ck, F)
        ck.guard("C18-R4", r4_index_checked, ck, F)
        ck.guard("C18-R5", r5_limit_asserts, ck, F)
        from . import shared
        # "emits": the bytes that leave the writer decode to the keys that were checked
        shared.file_wellformed(ck, F, "C18-R6")
    ck.trusted += ["rustc MIR construction", "core::cmp lexicographic slice ordering"]


def buffer_appends(b):
    out = []
    for s, c, t in b.calls():
        n = callee_name(c)
        if n.rsplit("::", 1)[-1] in ("extend_from_slice", "extend", "push", "append", "insert", "extend_from_within", "resize", "splice", "write_all", "write"):
            a = b.arg_exprs(s)
            if a and is_self_field(a[0], "buffer"):
                out.append(s)
    return out


def order_check(ck, R, F):
    """shared with C02: returns dict describing the order assertion of BlockWriter::insert"""
    b = F.body(A("bw_insert"))
    cmps = [c for c in byte_comparisons(b) if "new_debug" not in c["callee"]]
    ck.exact(R, "key comparisons in BlockWriter::insert", len(cmps), 1, F.config)
    if len(cmps) != 1:
        return None
    c = cmps[0]
    a, bb_ = c["a"], c["b"]
    op = c["op"]
    # canonical form: new REL last
    new_is_a = is_arg(a, "key")
    last_is_b = unwrap_payload(bb_.strip() if bb_.k in ("ref", "deref") else bb_, "Some") is not None or "last_key" in bb_.show()
    if not new_is_a and is_arg(bb_, "key"):
        a, bb_ = bb_, a
        op = FLIP[op]
    ok_ops = is_arg(a, "key") and any(e.k == "field" and e.x["name"] == "last_key" for e in bb_.walk()) and all(e.k != "index" for e in bb_.walk())
    if not ok_ops and is_arg(a, "key"):
        # the previous key obtained through the getter (a pure view of it: C01-R8 last-key-getter-pure)
        pay = unwrap_payload(bb_.strip() if bb_.k in ("ref", "deref") else bb_, "Some")
        ok_ops = pay is not None and pay.strip().k == "call" and pay.strip().x["path"].endswith(A("bw_last_key")) and is_arg(pay.strip().a[0], "self")
    ck.ob(R, "compares-new-with-last", ok_ops, f"order check compares `{a.show()}` with `{bb_.show()}` (whole slices: new key vs previous key of this block)", b, c["site"])
    ck.ob(R, "strict-greater", op == ">", f"order check is `new {op} last` (must be strictly greater: duplicates and descending keys are rejected)", b, c["site"])
    return b, c


def r1_order_assert(ck, F, R="C18-R1"):
    res = order_check(ck, R, F)
    if not res:
        return
    b, c = res
    ed = bool_edges(b, value_site=c["site"])
    if not ck.ob(R, "assert-branches", ed is not None, "the comparison result steers a branch", b, c["site"]):
        return
    sw, t_t, f_t = ed
    ck.ob(R, "false-edge-panics", diverges(b, f_t), "the `not greater` edge cannot reach a return (it panics)" + ("" if F.config != "rel" else " — also with debug assertions off"), b, c["site"])
    # the decision "first key of a block / a later key"
    from .lastkey import LastKeyRepr
    LK = LastKeyRepr(F)
    pe = LK.presence_edges(b)
    if not ck.ob(R, "match-on-last-key", LK.mode is not None and len(pe) >= 1, f"insert distinguishes the first key of a block (no last key) from later keys; last key kept as {LK.describe()}", b):
        return
    ck.ob(R, "check-on-some-arm", any(b.dominates(p[1], c["site"].bb) for p in pe), "the order check runs where a last key is present", b, c["site"])
    apps = buffer_appends(b)
    ck.floor(R, "appends to the block buffer in insert", len(apps), 3, F.config)
    reach = reachable_without(b, banned_edges=[(sw, t_t)] + [(p[0], p[2]) for p in pe])
    late = [s for s in apps if s.bb in reach]
    ck.ob(R, "check-dominates-appends", not late, "every path to an append of entry bytes passes the successful order check or the no-last-key edge" + (f"; appends reachable without it: {[b.loc(s) for s in late]}" if late else ""), b, c["site"])
    # the last key is refreshed to the new key on both sides, before the entry is appended
    sets = LK.present_sets(b)
    ok_none = ok_some = False
    if LK.mode == "range":
        bad = LK.range_stable()
        ck.ob(R, "last-key-range-stable", not bad, "the last key is read back from the block buffer: the buffer is only appended to while a key is present" + (f" — {bad}" if bad else ""), b)
    for kind, site, involved in sets:
        # the key is recorded before the entry is appended — or, when it is recorded as the place it was appended at,
        # before insert returns
        tg = apps if kind != "range" else [Site(x, None) for x in b.normal_blocks() if b.term(x)["t"] == "return"]
        for p in pe:
            if _on_every_path_from(b, p[2], site, tg) and all(_on_every_path_from(b, p[2], x, tg) for x in involved):
                ok_none = True
        if all(_on_every_path_from(b, t_t, x, tg) for x in involved):
            ok_some = True
    ck.ob(R, "last-key-set/first-key", ok_none, "first key of a block: the last key becomes the new key before the entry is appended", b)
    ck.ob(R, "last-key-set/later-key", ok_some, "later keys: the last key is replaced by the new key on the successful-check path before the entry is appended", b)


def _on_every_path_from(b, start_bb, site, targets):
    """every path from start_bb to any of `targets` passes `site`"""
    reach = reachable_without(b, banned_blocks=[site.bb], start=start_bb)
    if start_bb == site.bb:
        return True
    return not any(t.bb in reach for t in targets)


def r2_sole_appender(ck, F):
    R = "C18-R2"
    from .c03 import mutated_fields
    mf = mutated_fields(F, A("bw_struct"))
    allowed = {"buffer": {A("bw_insert"), A("bw_finish"), A("bw_reset")},
               "last_key": {A("bw_insert"), A("bw_reset")},
               "index_offsets": {A("bw_insert"), A("bw_reset")},
               "index_key_counter": {A("bw_insert"), A("bw_reset")}}
    from .lastkey import LastKeyRepr
    _lk = LastKeyRepr(F)
    if _lk.sibling:
        allowed[_lk.flag] = allowed["last_key"]      # the presence flag of the last key lives and dies with it
    for fld, lst in sorted(mf.items()):
        who = {bb.path for bb, s, st in lst}
        extra = who - allowed.get(fld, set())
        ck.ob(R, f"mutators/{fld}", not extra, f"BlockWriter.{fld} is mutated only by {sorted(x.split('::')[-1] for x in who)}" + (f" — unexpected mutator(s): {sorted(extra)}" if extra else ""), config=F.config)
    ck.floor(R, "mutated BlockWriter fields seen", len(mf), 4, F.config)
    pubs = [f["name"] for f in F.adts[A("bw_struct")]["variants"][0]["fields"] if f["pub"]]
    ck.ob(R, "fields-private", not pubs, f"BlockWriter has no public field (the compiler forbids other modules from bypassing insert){' — public: ' + str(pubs) if pubs else ''}", config=F.config, nontrivial=False)
    # methods of BlockWriter that take &mut self: only insert / finish / reset
    # (private helpers that only exist spliced into these methods are part of them, not a second entry path)
    muts = sorted(f["path"] for f in F.fns.values() if f.get("impl_adt") == A("bw_struct") and f["inputs"] and f["inputs"][0].startswith("&mut") and not f.get("derived")
                  and not (f["path"] in F.unknown_fns and not f.get("pub") and all(caller.startswith(A("bw_struct").rsplit("::", 1)[0] + "::BlockWriter::") for caller, callee in F.inlined if callee == f["path"])))
    want = sorted([A("bw_insert"), A("bw_finish"), A("bw_reset")])
    ck.ob(R, "mutating-api", muts == want, f"&mut self methods of BlockWriter: {[m.split('::')[-1] for m in muts]} (expected insert, finish, reset — a second entry path would bypass the order check)", config=F.config)
    # finish only appends the footer (offset table + count), never entry bytes
    fin = F.body(A("bw_finish"))
    apps = buffer_appends(fin)
    ck.exact(R, "appends in BlockWriter::finish", len(apps), 2, F.config)


def r3_lastkey_life(ck, F, R="C18-R3"):
    rs = F.body(A("bw_reset"))
    from .lastkey import LastKeyRepr
    LK = LastKeyRepr(F)
    ck.ob(R, "reset-clears-last-key", bool(LK.absent_stores(rs)), f"reset makes the last key absent ({LK.describe()})", rs)
    nones = [b.path for b in F.user_bodies() if LK.absent_stores(b)]
    ck.ob(R, "only-reset-clears", nones == [A("bw_reset")], f"the last key is made absent only in {nones}", config=F.config)
    callers = sorted({b.path for b in F.user_bodies() for s, c, t in calls(b, A("bw_reset"))})
    ck.ob(R, "reset-only-from-drop", callers == [A("bb_drop")], f"reset is called only from the finished block's Drop (callers: {callers}) — the comparison base is never cleared in the middle of a block", config=F.config)
    # BlockBuffer is only produced by finish
    ag = aggregates(F, "block_writer::BlockBuffer")
    ck.ob(R, "buffer-guard-from-finish", [b.path for b, s, rv in ag] == [A("bw_finish")], f"BlockBuffer is constructed only in finish ({[b.path for b, s, rv in ag]})", config=F.config)


def r4_index_checked(ck, F):
    R = "C18-R4"
    n = 0
    for path in (A("writer_insert"), A("writer_into_inner")):
        b = F.body(path)
        for s, c, t in calls(b, A("bw_insert")):
            a = b.arg_exprs(s)
            if is_self_field(a[0], "block_writer"):
                continue
            n += 1
            key = unwrap_payload(a[1], "Some")
            ok = key is not None and is_call(key, A("bw_last_key"))
            ck.ob(R, f"index-entry-key/{b.path.split('::')[-1]}", ok, f"index entry key = {a[1].show()[:90]} (the flushed block's last key, through the checked insert)", b, s)
        for rec in classify_block_writes(ck, R, b):
            if rec["kind"] == "unpaired":
                ck.ob(R, f"unrecorded-block/{b.path.split('::')[-1]}", False, "a block is written without its last key passing through a parent's checked insert", b, rec["site"])
    ck.floor(R, "index-entry inserts in writer.rs", n, 4, F.config)
    # every insertion into any BlockWriter in the crate is BlockWriter::insert
    callers = sorted({b.path for b in F.user_bodies() for s, c, t in calls(b, A("bw_insert"))})
    ck.ob(R, "insert-callers", set(callers) <= {A("writer_insert"), A("writer_into_inner")}, f"BlockWriter::insert is called from {callers}", config=F.config, nontrivial=False)


def r5_limit_asserts(ck, F, R="C18-R5"):
    b = F.body(A("bw_insert"))
    found = 0
    for site, st in b.sites():
        if site.i is not None and st["s"] == "assign" and st["rv"]["rv"] == "bin" and st["rv"]["op"] in ("Le", "Lt", "Ge", "Gt"):
            e = b._expr_of_def((site, "assign", st["rv"]))
            x, y = e.a
            if e.x["op"] in ("Ge", "Gt"):
                x, y = y, x
            lim = const_val(strip_casts(y))
            if is_call(x, "::len") and x.strip().a[0].strip().k == "arg" and lim is not None:
                who = x.strip().a[0].strip().x["name"]
                ed = bool_edges(b, value_site=site)
                okb = ed is not None and diverges(b, ed[2])
                okl = (lim == 0xFFFFFFFF and e.x["op"] in ("Le", "Ge")) or (lim == 0x100000000 and e.x["op"] in ("Lt", "Gt"))
                casts = [s for s, s_ in b.sites() if s.i is not None and s_["s"] == "assign" and s_["rv"]["rv"] == "cast" and s_["rv"]["to"] == "u32" and is_call(b.expr_of_operand(s_["rv"]["op"], s), "::len") and is_arg(b.expr_of_operand(s_["rv"]["op"], s).strip().a[0], who)]
                # ... or the checked spelling of the same narrowing, `u32::try_from(x.len()).expect(..)` / `.try_into().unwrap()`
                for s2, c2, t2 in b.calls():
                    e2 = b._expr_of_def((s2, "call", t2))
                    if e2.k == "cast" and e2.x.get("checked") and e2.x.get("to") == "u32" and is_call(e2.a[0], "::len") and is_arg(e2.a[0].strip().a[0], who):
                        casts.append(s2)
                okd = all(b.dominates(site, c) for c in casts) and len(casts) >= 1
                found += 1
                ck.ob(R, f"length-limit/{who}", okb and okl and okd, f"assert!({who}.len() <= u32::MAX) survives in config {F.config}, its false edge panics, and it dominates the `{who}.len() as u32` narrowing ({len(casts)} cast(s))", b, site)
    # the same limit spelled `assert!(u32::try_from(x.len()).is_ok())` (clippy's checked_conversions)
    for s2, c2, t2 in b.calls():
        if not callee_name(c2).endswith("Result::<T, E>::is_ok"):
            continue
        a2 = b.arg_exprs(s2)[0].strip()
        if not (a2.k == "call" and a2.a and (a2.x["path"].endswith(">::try_from") or a2.x["path"].endswith("::try_into")) and "for u32" in a2.x["path"] + " " + " ".join((a2.x.get("info") or {}).get("args", [])) or (a2.k == "call" and a2.a and (a2.x.get("info") or {}).get("args", ["", ""])[0] == "u32")):
            continue
        x = a2.a[0]
        if not (is_call(x, "::len") and x.strip().a[0].strip().k == "arg"):
            continue
        who = x.strip().a[0].strip().x["name"]
        ed = bool_edges(b, value_site=s2)
        okb = ed is not None and diverges(b, ed[2])
        casts = [s for s, s_ in b.sites() if s.i is not None and s_["s"] == "assign" and s_["rv"]["rv"] == "cast" and s_["rv"]["to"] == "u32" and is_call(b.expr_of_operand(s_["rv"]["op"], s), "::len") and is_arg(b.expr_of_operand(s_["rv"]["op"], s).strip().a[0], who)]
        for s3, c3, t3 in b.calls():
            e3 = b._expr_of_def((s3, "call", t3))
            if e3.k == "cast" and e3.x.get("checked") and e3.x.get("to") == "u32" and is_call(e3.a[0], "::len") and is_arg(e3.a[0].strip().a[0], who):
                casts.append(s3)
        okd = all(b.dominates(s2, c) for c in casts) and len(casts) >= 1
        found += 1
        ck.ob(R, f"length-limit/{who}", okb and okd, f"assert!(u32::try_from({who}.len()).is_ok()) survives in config {F.config}, its false edge panics, and it dominates the narrowing of {who}.len() ({len(casts)} site(s))", b, s2)
    # ... desugared into the match it abbreviates when the verdict is only branched on
    for bb in sorted(b.normal_blocks()):
        if b.term(bb)["t"] != "switch":
            continue
        try:
            e, enum, labels, oth = switch_on(b, bb)
        except Exception:
            continue
        if e.k != "discr" or enum != "std::result::Result" or "Err" not in labels:
            continue
        a2 = e.a[0].strip()
        if not (a2.k == "call" and a2.a and (a2.x["path"].endswith(">::try_from") or a2.x["path"].endswith("::try_into")) and ((a2.x.get("info") or {}).get("args", [""])[0] == "u32" or "for u32" in a2.x["path"])):
            continue
        x = a2.a[0]
        if not (is_call(x, "::len") and x.strip().a[0].strip().k == "arg"):
            continue
        who = x.strip().a[0].strip().x["name"]
        if any(o.key == f"length-limit/{who}" for o in ck.obs if getattr(o, "rule", None) == R and getattr(o, "config", None) == F.config):
            continue
        site = Site(bb, None)
        okb = diverges(b, labels["Err"])
        casts = [s for s, s_ in b.sites() if s.i is not None and s_["s"] == "assign" and s_["rv"]["rv"] == "cast" and s_["rv"]["to"] == "u32" and is_call(b.expr_of_operand(s_["rv"]["op"], s), "::len") and is_arg(b.expr_of_operand(s_["rv"]["op"], s).strip().a[0], who)]
        for s3, c3, t3 in b.calls():
            e3 = b._expr_of_def((s3, "call", t3))
            if e3.k == "cast" and e3.x.get("checked") and e3.x.get("to") == "u32" and is_call(e3.a[0], "::len") and is_arg(e3.a[0].strip().a[0], who):
                casts.append(s3)
        okd = all(b.dominates(site, c) for c in casts) and len(casts) >= 1
        found += 1
        ck.ob(R, f"length-limit/{who}", okb and okd, f"assert!(u32::try_from({who}.len()).is_ok()) survives in config {F.config}, its Err edge panics, and it dominates the narrowing of {who}.len() ({len(casts)} site(s))", b, site)
    ck.floor(R, "length-limit assertions", found, 2, F.config)
