"""lastkey — how BlockWriter remembers "the last key of the block being built, if any".

Rules about it (C01-R8, C02-R1, C09-R8, C14-R7, C15-R5, C18-R1/R3) are stated on three abstract facts —
*present?*, *the key bytes*, *becomes absent* — and this module maps them onto the representation the
tree uses:
  option  `last_key: Option<Vec<u8>>`                      present = Some, bytes = the payload
  flag    `last_key: S` with S = { <Vec<u8>>, <bool> }      present = the bool, bytes = the Vec
  sibling `last_key: Vec<u8>` + a new bool field of BlockWriter  present = the bool, bytes = the Vec
  range   `last_key: Option<Range<usize>>`                  present = Some, bytes = self.buffer[range]
(the second keeps the allocation across blocks and still tells the empty key from "no key"; the third reads the key
back from the block buffer, which is sound while the buffer is only appended to as long as a key is present)."""
from .common import *


class LastKeyRepr:
    def __init__(self, F):
        self.F = F
        self.mode = None
        self.sibling = False
        self.flag = self.bytes = None
        bw = F.adts[A("bw_struct")]
        ty = None
        for f in bw["variants"][0]["fields"]:
            if f["name"] == "last_key":
                ty = f["ty"]
        self.ty = ty
        if ty is None:
            return
        if ty.startswith("std::option::Option<std::ops::Range<usize>"):
            self.mode = "range"
        elif ty.startswith("std::option::Option<"):
            self.mode = "option"
        elif ty.startswith("std::vec::Vec<u8"):
            # the bytes alone cannot tell "no key" from the empty key: presence must be a bool field of its own,
            # the one field of BlockWriter the pinned tree does not have
            from .normalize import pinned
            known = {f[0] for f in pinned()["adts"].get(A("bw_struct"), [])}
            news = [f["name"] for f in bw["variants"][0]["fields"] if f["name"] not in known and f["ty"] == "bool"]
            if len(news) == 1:
                self.mode = "flag"
                self.sibling = True
                self.flag, self.bytes = news[0], None
        elif ty in F.adts and F.adts[ty]["kind"] == "Struct":
            fs = F.adts[ty]["variants"][0]["fields"]
            bools = [f["name"] for f in fs if f["ty"] == "bool"]
            vecs = [f["name"] for f in fs if f["ty"].startswith("std::vec::Vec<u8")]
            if len(fs) == 2 and len(bools) == 1 and len(vecs) == 1:
                self.mode = "flag"
                self.flag, self.bytes = bools[0], vecs[0]
                self.struct = ty

    def describe(self):
        if self.mode == "option":
            return "Option<Vec<u8>> (present = Some)"
        if self.mode == "flag" and self.sibling:
            return f"Vec<u8> with the sibling field {self.flag}: bool (present = {self.flag})"
        if self.mode == "flag":
            return f"{self.struct} {{ {self.bytes}: Vec<u8>, {self.flag}: bool }} (present = {self.flag})"
        if self.mode == "range":
            return "Option<Range<usize>> into the block buffer (present = Some, bytes = self.buffer[range])"
        return f"unrecognised representation `{self.ty}`"

    # ---- expressions
    def is_bytes_view(self, e):
        """e denotes (a view of) the stored key bytes"""
        s = e.strip()
        while s.k in ("ref", "deref") or (s.k == "call" and s.a and s.x["path"].rsplit("::", 1)[-1] in ("as_slice", "as_ref", "deref", "borrow", "as_deref")):
            s = s.a[0].strip()
        if self.mode == "option":
            p = unwrap_payload(s, "Some")
            return p is not None and is_self_field(p, "last_key")
        if self.mode == "flag":
            return is_self_field(s, "last_key") if self.sibling else is_self_field(s, "last_key", self.bytes)
        if self.mode == "range":
            # self.buffer[r] with r the payload of (a copy of) self.last_key — the whole range, nothing added to it
            if not (s.k == "call" and s.x["path"].endswith("::index") and len(s.a) == 2 and is_self_field(s.a[0], "buffer")):
                return False
            p = unwrap_payload(s.a[1].strip(), "Some")
            return p is not None and is_self_field(p, "last_key")
        return False

    def mentions_bytes(self, e):
        return any(x.k == "field" and x.x["name"] == "last_key" for x in e.walk())

    # ---- control flow
    def presence_edges(self, b):
        """[(switch block, target when present, target when absent)] for every branch that decides on presence:
        direct tests of the representation, tests of BlockWriter::last_key(self), and tests of an Option built
        as None / Some(view of the bytes) on the two sides of a direct test"""
        direct = []
        for bb in sorted(b.normal_blocks()):
            t = b.term(bb)
            if t["t"] != "switch":
                continue
            e, enum, labels, oth = switch_on(b, bb)
            if e.k == "discr" and enum == "std::option::Option" and "Some" in labels and "None" in labels:
                x = e.a[0]
                if (self.mode in ("option", "range") and is_self_field(x, "last_key")) or (x.strip().k == "call" and x.strip().x["path"].endswith(A("bw_last_key")) and is_arg(x.strip().a[0], "self")):
                    direct.append((bb, labels["Some"], labels["None"]))
                    continue
            if self.mode == "flag" and enum is None:
                d = b.expr_of_operand(t["discr"], Site(bb, None))
                neg = False
                while d.k == "un" and d.x.get("op") == "Not":
                    neg = not neg
                    d = d.a[0]
                if (is_self_field(d, self.flag) if self.sibling else is_self_field(d, "last_key", self.flag)):
                    zero = [tb for v, tb in t["arms"] if int(v) == 0]
                    if zero:
                        tt, ft = t["otherwise"], zero[0]
                        if neg:
                            tt, ft = ft, tt
                        direct.append((bb, tt, ft))
        out = list(direct)
        for bb in sorted(b.normal_blocks()):
            t = b.term(bb)
            if t["t"] != "switch" or any(bb == d[0] for d in direct):
                continue
            e, enum, labels, oth = switch_on(b, bb)
            if not (e.k == "discr" and enum == "std::option::Option" and "Some" in labels and "None" in labels):
                continue
            alts = flat_alts(e.a[0])
            if not alts or not all(a.k == "agg" and a.x.get("variant") in ("Some", "None") for a in alts):
                continue
            ok = True
            for a in alts:
                s = a.x.get("site")
                if a.x.get("variant") == "Some":
                    ok = ok and self.is_bytes_view(a.a[0]) and s is not None and any(b.dominates(d[1], s.bb) for d in direct)
                else:
                    ok = ok and s is not None and any(b.dominates(d[2], s.bb) for d in direct)
            if ok:
                out.append((bb, labels["Some"], labels["None"]))
        return out

    # ---- stores
    def _field_stores(self, b, sub=None):
        """assignments whose target is self.last_key (sub=None) or self.last_key.<sub>, also through a
        reference taken earlier (`let lk = &mut self.last_key; lk.flag = ..`)"""
        for site, st in b.sites():
            if site.i is None or st["s"] != "assign" or not st["pl"]["p"]:
                continue
            last = st["pl"]["p"][-1]
            if not (isinstance(last, dict) and "name" in last):
                continue
            if sub is None and (last["name"] != "last_key" or last.get("adt") != A("bw_struct")):
                continue
            if sub is not None and last["name"] != sub:
                continue
            tgt = b.expr_of_place(st["pl"], site)
            if (sub is None and is_self_field(tgt, "last_key")) or (sub is not None and (is_self_field(tgt, sub) if (self.sibling and last.get("adt") == A("bw_struct")) else is_self_field(tgt, "last_key", sub))):
                yield site, st

    def absent_stores(self, b):
        out = []
        if self.mode in ("option", "range"):
            for site, st in self._field_stores(b):
                e = b._expr_of_def((site, "assign", st["rv"]))
                if e.k == "agg" and e.x.get("variant") == "None":
                    out.append(site)
        elif self.mode == "flag":
            for site, st in self._field_stores(b, self.flag):
                if const_val(b._expr_of_def((site, "assign", st["rv"]))) == 0:
                    out.append(site)
            for site, st in ([] if self.sibling else self._field_stores(b)):      # the whole struct replaced by a default / literal with flag false
                e = b._expr_of_def((site, "assign", st["rv"]))
                if e.k == "agg" and e.x.get("fields") and self.flag in e.x["fields"] and const_val(e.a[e.x["fields"].index(self.flag)]) == 0:
                    out.append(site)
                elif e.k == "call":
                    out.append(site)
        return out

    def present_sets(self, b, key_name="key"):
        """[(site that completes "present with bytes = key", sites involved)]"""
        out = []
        if self.mode == "option":
            for site, st in self._field_stores(b):
                e = b._expr_of_def((site, "assign", st["rv"]))
                if e.k == "agg" and e.x.get("variant") == "Some" and is_arg(e.a[0], key_name):
                    out.append(("fresh", site, [site]))
            clr = [s for s, c_, t in calls(b, "Vec::<T, A>::clear") if self.is_bytes_view(b.arg_exprs(s)[0])]
            ext = [s for s, c_, t in calls(b, "Vec::<T, A>::extend_from_slice") if self.is_bytes_view(b.arg_exprs(s)[0]) and is_arg(b.arg_exprs(s)[1], key_name)]
            if len(clr) == 1 and len(ext) == 1 and b.dominates(clr[0], ext[0]):
                out.append(("reuse", ext[0], [clr[0], ext[0]]))
        elif self.mode == "flag":
            clr = [s for s, c_, t in calls(b, "Vec::<T, A>::clear") if self.is_bytes_view(b.arg_exprs(s)[0])]
            ext = [s for s, c_, t in calls(b, "Vec::<T, A>::extend_from_slice") if self.is_bytes_view(b.arg_exprs(s)[0]) and is_arg(b.arg_exprs(s)[1], key_name)]
            flg = [site for site, st in self._field_stores(b, self.flag) if const_val(b._expr_of_def((site, "assign", st["rv"]))) == 1]
            if len(clr) == 1 and len(ext) == 1 and len(flg) == 1 and b.dominates(clr[0], ext[0]):
                last = flg[0] if b.dominates(ext[0], flg[0]) else ext[0]
                out.append(("reuse", last, [clr[0], ext[0], flg[0]]))
        elif self.mode == "range":
            # self.last_key = Some(a..b) with a = buffer.len() right before and b = buffer.len() right after the one
            # append of `key` to the buffer: the range is exactly where the key bytes were written
            muts = self.buffer_mutations(b)
            for site, st in self._field_stores(b):
                e = b._expr_of_def((site, "assign", st["rv"]))
                if not (e.k == "agg" and e.x.get("variant") == "Some" and e.a and e.a[0].k == "agg" and (e.a[0].x.get("adt") or "").endswith("ops::Range") and len(e.a[0].a) == 2):
                    continue
                lo, hi = (x.strip() for x in e.a[0].a)
                islen = lambda x: x.k == "call" and x.x["path"].endswith("::len") and is_self_field(x.a[0], "buffer") and x.x.get("site") is not None
                if not (islen(lo) and islen(hi)):
                    continue
                s1, s2 = lo.x["site"], hi.x["site"]
                between = [m for m, app in muts if b.dominates(s1, m) and b.dominates(m, s2) and m not in (s1, s2)]
                if len(between) != 1:
                    continue
                m = between[0]
                a_ = b.arg_exprs(m)
                if callee_name(callee_of(b.term(m.bb))).endswith("extend_from_slice") and len(a_) == 2 and is_arg(a_[1], key_name) and b.dominates(s2, site):
                    out.append(("range", site, [s1, m, s2, site]))
        return out

    def buffer_mutations(self, b):
        """[(site, is_append)] for every call of b that takes self.buffer mutably"""
        APPEND = ("extend_from_slice", "extend", "push", "append", "extend_from_within", "write_all", "write", "reserve", "reserve_exact")
        out = []
        for s, c, t in b.calls():
            a = b.arg_exprs(s)
            if not a or not is_self_field(a[0], "buffer"):
                continue
            tys = [op["pl"]["ty"] if op["k"] in ("copy", "move") else op.get("ty", "") for op in t["args"]]
            if not tys or not tys[0].startswith("&mut"):
                continue
            out.append((s, callee_name(c).rsplit("::", 1)[-1] in APPEND))
        return out

    def range_stable(self):
        """range mode only: list of reasons why a stored range could stop denoting the key bytes (empty = sound).
        The buffer may only be appended to, except in a function that also makes the key absent."""
        from .c03 import mutated_fields
        bad = []
        per = {}
        for bb_, site, is_store in mutated_fields(self.F, A("bw_struct")).get("buffer", []):
            per.setdefault(bb_.path, (bb_, []))[1].append((site, is_store))
        for path, (bb_, lst) in sorted(per.items()):
            if self.absent_stores(bb_):
                continue
            name = path.split("::")[-1]
            muts = self.buffer_mutations(bb_)
            for site, is_store in lst:
                if is_store:
                    bad.append(f"{name}: the buffer is assigned ({bb_.loc(site)})")
            for s_, app in muts:
                if not app:
                    bad.append(f"{name}: {callee_name(callee_of(bb_.term(s_.bb))).rsplit('::', 1)[-1]} on the buffer while a key may be present ({bb_.loc(s_)})")
            borrows = [x for x in lst if not x[1]]
            if len(borrows) != len(muts):
                bad.append(f"{name}: {len(borrows)} mutable borrows of the buffer for {len(muts)} calls on it (a borrow escapes)")
        return bad

    # ---- the getter
    def getter_pure(self, lk):
        """BlockWriter::last_key(&self) returns Some(view of the bytes) exactly when present, else None, and does nothing else"""
        e = lk.expr_at_return()
        if self.mode == "option":
            return pure_option_view(e, "last_key")
        if self.mode in ("flag", "range"):
            alts = flat_alts(e)
            somes = [a for a in alts if a.k == "agg" and a.x.get("variant") == "Some"]
            nones = [a for a in alts if a.k == "agg" and a.x.get("variant") == "None"]
            if len(somes) != 1 or len(nones) < 1 or len(somes) + len(nones) != len(alts):
                return False
            if not self.is_bytes_view(somes[0].a[0]):
                return False
            pe = [d for d in self.presence_edges(lk)]
            if not pe:
                return False
            s = somes[0].x.get("site")
            return s is not None and any(lk.dominates(d[1], s.bb) for d in pe) and all(n.x.get("site") is not None and any(lk.dominates(d[2], n.x["site"].bb) for d in pe) for n in nones)
        return False
