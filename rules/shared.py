"""Rule bundles shared between properties.

Every property about *reading* (seeks, cursors, iterators, merging, V1 files) quantifies over files this crate's
Writer emits, through this crate's cursor; every property about the sorter reads its own chunks back the same way.
The rules that make those files well formed and that traversal sound are therefore necessary conditions of each of
them: a recorded offset that drifts with short writes breaks C03's cursor as surely as C11's byte count.  Seeded
batch 7 (small slips far from the functions a property names) was caught 28/53 by the property's own check and 51/53
by *some* check — the rules existed and lived with another owner.  The bundles below are that ownership, stated once.
A rule function that already ran for the same facts in the same check is not run twice (engine.guard)."""


def file_wellformed(ck, F, R):
    """the Writer emits what the Reader expects: index entries pair last keys with start offsets read from the
    counting sink before the block is written, the sink counts what was accepted and writes everything, pending
    blocks are flushed and the trailer comes last, lengths are framed by the varint tables and the entry frame
    written is the one read, depth arithmetic does not truncate"""
    from .c01 import r4_index_pair, r5_finish_order, r8_pending_block, r6_depth, r3_codec_table
    from .c02 import r1_lastkey, r4_offsets
    from .c11 import r1_write_all, r2_count_accepted, r6_offsets_from_count
    from .c14 import r123_tables, entry_frame_agreement
    ck.guard(R, r4_index_pair, ck, F, R)
    ck.guard(R, r1_lastkey, ck, F, R)
    ck.guard(R, r4_offsets, ck, F, R)
    ck.guard(R, r5_finish_order, ck, F, R)
    ck.guard(R, r8_pending_block, ck, F, R)
    ck.guard(R, r6_depth, ck, F)
    ck.guard(R, r2_count_accepted, ck, F, R)
    ck.guard(R, r1_write_all, ck, F, R)
    ck.guard(R, r6_offsets_from_count, ck, F, R)
    ck.guard(R, r123_tables, ck, F)
    ck.guard(R, entry_frame_agreement, ck, F, R)
    ck.guard(R, r3_codec_table, ck, F, R)


def cursor_traversal(ck, F, R):
    """the cursor walks that file soundly: one probe through all levels, canonical comparisons on the seek path and
    in the in-block steps, wrappers and their engines, reload-then-reapply in `recursive`, twins mirror each other,
    reset forgets everything"""
    from .c01 import r7_mirror
    from .c02 import r2_descent, r3_rel, r4_offsets
    from .c03 import r3_reset, r5_wrappers, r7_seek_load, r1_tag, r6_current
    ck.guard(R, r5_wrappers, ck, F, R)
    ck.guard(R, r7_mirror, ck, F, R)
    ck.guard(R, r3_reset, ck, F, R)
    ck.guard(R, r2_descent, ck, F, R)
    ck.guard(R, r3_rel, ck, F, R)
    ck.guard(R, r4_offsets, ck, F, R)
    ck.guard(R, r1_tag, ck, F)
    ck.guard(R, r6_current, ck, F)
    ck.guard(R, r7_seek_load, ck, F, R)


def iterators(ck, F, R):
    """the range and prefix iterators built on that cursor (for properties that promise 'identical results' of every
    query on some class of files)"""
    from . import c04, c05
    for d in ("fwd", "rev"):
        ck.guard(R, c04.r1_bound_table, ck, F, d)
        ck.guard(R, c04.r2_start_table, ck, F, d)
        ck.guard(R, c04.r3_guard, ck, F, d)
        ck.guard(R, c04.r4_once, ck, F, d)
        ck.guard(R, c05.r1_guard, ck, F, d)
    ck.guard(R, c04.r4_map_bound, ck, F)
    ck.guard(R, c05.r2_start, ck, F)
    ck.guard(R, c05.r3_last_prefix, ck, F)
    ck.guard(R, c05.r4_advance, ck, F)


def block_cut(ck, F, R):
    """blocks are cut when they reach the size (what bounds a Writer's memory)"""
    from .c15 import r1_cut_check, r2_level_check, r4_estimate, r5_reset
    ck.guard(R, r1_cut_check, ck, F)
    ck.guard(R, r2_level_check, ck, F)
    ck.guard(R, r4_estimate, ck, F)
    ck.guard(R, r5_reset, ck, F)
