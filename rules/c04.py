"""C04 — range iterators: bound handling as finite decision tables (Bound has three variants per
side and keys are only touched through comparisons)."""
from .common import *
from . import mirror
from .c03 import return_alts, is_err_path, r5_wrappers, r3_reset
from .c01 import r7_mirror

PID = "C04"
META = {
    "explanation": "Static analysis of RangeIter / RevRangeIter on the MIR of the current tree: the bound-membership functions are decoded into a 3-arm table per side (Unbounded -> true, Included -> reflexive relation, Excluded -> irreflexive relation, operands `key REL bound`), the first-call positioning into a 3-arm table per direction (first/last, seek, seek + one conditional step on equality), every yielded entry is control-dependent on the far-side membership test of exactly the key being yielded and a yielding call stores no branch-steering state other than the constructor value, the first-call flag is consumed once, bounds are copied variant-preserving, and the two directions are mirror images. The table is exhaustive over Bound variants; correctness of the underlying seeks is C02. The iterators run on this cursor over files this Writer emits: the shared file-wellformedness and cursor-traversal rules (rules/shared.py), including the in-block backward step, are re-run as necessary conditions.",
    "assumptions": ["core::cmp lexicographic ordering on [u8]", "the seeks of C02"],
}

DIRS = {
    "fwd": dict(next="range_iter_next", new="range_iter_new", near="start_bound", far="end_bound", first="move_on_first",
                seek="move_on_key_greater_than_or_equal_to", step="move_on_next", contains="end_contains", incl="<=", excl="<"),
    "rev": dict(next="rev_range_iter_next", new="rev_range_iter_new", near="end_bound", far="start_bound", first="move_on_last",
                seek="move_on_key_lower_than_or_equal_to", step="move_on_prev", contains="start_contains", incl=">=", excl=">"),
}


def run(ck):
    for cfg in ck.configs():
        F = ck.facts(cfg)
        for d in ("fwd", "rev"):
            ck.guard("C04-R1", r1_bound_table, ck, F, d)
            ck.guard("C04-R2", r2_start_table, ck, F, d)
            ck.guard("C04-R3", r3_guard, ck, F, d)
            ck.guard("C04-R4", r4_once, ck, F, d)
        ck.guard("C04-R4", r4_map_bound, ck, F)
        ck.guard("C04-R5", r5_mirror, ck, F)
        # the single steps both iterators take across block boundaries (shared with C03-R5 / C01-R7)
        ck.guard("C04-R6", r5_wrappers, ck, F, "C04-R6")
        ck.guard("C04-R6", r7_mirror, ck, F, "C04-R6")
        ck.guard("C04-R6", r3_reset, ck, F, "C04-R6")
        # positioning goes through the seeks: their comparison tables are a necessary condition here too
        from .c02 import r2_descent, r3_rel, r4_offsets
        ck.guard("C04-R7", r2_descent, ck, F, "C04-R7")
        ck.guard("C04-R7", r3_rel, ck, F, "C04-R7")
        ck.guard("C04-R7", r4_offsets, ck, F, "C04-R7")
        from . import shared
        shared.file_wellformed(ck, F, "C04-R8")
        shared.cursor_traversal(ck, F, "C04-R6")
    ck.exhaustive = True
    ck.trusted += ["rustc MIR construction", "core::cmp slice ordering", "std::ops::Bound / RangeBounds for (Bound<T>, Bound<T>)"]


def cursor_calls(b, region=None):
    out = []
    for s, c, t in b.calls():
        n = callee_name(c)
        if n.startswith(A("rc_prefix")) and (region is None or s.bb in region):
            out.append((s, n.split("::")[-1], t))
    return out


def _bound_switches(b):
    out = []
    for bb in sorted(b.normal_blocks()):
        if b.term(bb)["t"] == "switch":
            e, enum, labels, oth = switch_on(b, bb)
            if e.k == "discr" and enum == "std::ops::Bound":
                out.append((bb, labels, e.a[0].strip()))
    return out


def _is_bound_of_self(src, which):
    """self.range.start_bound() / end_bound(), the tuple component behind it, or the like-named field of a private
    struct that replaced the tuple (`self.range.start` / `.end`)"""
    src = src.strip()
    if src.k == "call" and src.x["path"].endswith("::" + which) and is_self_field(src.a[0], "range"):
        return True
    return is_self_field(src, "range", "0" if which == "start_bound" else "1") or is_self_field(src, "range", which[: -len("_bound")])


def far_test(b, D):
    """the far-side membership test inside `next` (end_contains / start_contains are spliced into their caller
    when they are functions of their own, so that a hand-inlined test is the same shape):
        match self.range.<far>_bound() { Unbounded => true, Included(x) => key REL= x, Excluded(x) => key REL x }
    followed by one branch on that verdict.  Returns a dict, or a string saying what is missing."""
    sws = [x for x in _bound_switches(b) if _is_bound_of_self(x[2], D["far"])]
    if len(sws) != 1:
        return f"{len(sws)} matches on self.range.{D['far']}()"
    bb, labels, src = sws[0]
    if set(labels) != {"Included", "Excluded", "Unbounded"}:
        return f"the match on the far bound covers {sorted(labels)}"
    cmps = byte_comparisons(b)
    arms = {}
    for var in ("Included", "Excluded", "Unbounded"):
        reg = arm_region(b, bb, labels[var])
        arms[var] = (reg, [c for c in cmps if c["site"].bb in reg])
    if [len(arms[v][1]) for v in ("Included", "Excluded", "Unbounded")] != [1, 1, 0]:
        return "comparisons per arm (Included, Excluded, Unbounded): " + str([len(arms[v][1]) for v in ("Included", "Excluded", "Unbounded")])
    want = {arms["Included"][1][0]["site"], arms["Excluded"][1][0]["site"]}
    verdict = None
    for vb in sorted(b.normal_blocks()):
        t = b.term(vb)
        if t["t"] != "switch":
            continue
        e = b.expr_of_operand(t["discr"], Site(vb, None))
        neg = False
        while e.k == "un" and e.x["op"] == "Not":
            neg = not neg
            e = e.a[0]
        if e.k != "phi" or len(e.a) not in (2, 3):
            continue
        consts = [a for a in e.a if a.k == "const"]
        cs = {a.strip().x.get("site") for a in e.a if a.strip().k == "call"}
        if cs != want or len(consts) + 2 != len(e.a) or any(const_val(c_) != 1 for c_ in consts):
            continue
        zero = [tb for v, tb in t["arms"] if int(v) == 0]
        if not zero:
            continue
        f_t, t_t = zero[0], t["otherwise"]
        if neg:
            f_t, t_t = t_t, f_t
        if not consts:
            # the `Unbounded => true` path was threaded past the test: it must lead straight to the `true` side
            reach = reachable_without(b, banned_blocks=[vb], start=labels["Unbounded"])
            if t_t not in reach or f_t in reach:
                continue
        verdict = (vb, t_t, f_t)
    if verdict is None:
        return "no branch on the verdict `Unbounded => true | Included => cmp | Excluded => cmp`"
    return dict(sw=bb, labels=labels, src=src, arms=arms, verdict=verdict)


def r1_bound_table(ck, F, d):
    R = "C04-R1"
    D = DIRS[d]
    b = F.body(A(D["next"]))
    ft = far_test(b, D)
    if not ck.ob(R, f"switch-on-bound/{d}", isinstance(ft, dict), f"{D['next']} tests the candidate against self.range.{D['far']}() by matching on all three Bound variants" + ("" if isinstance(ft, dict) else f" — {ft}"), b):
        return
    for var, want in (("Included", D["incl"]), ("Excluded", D["excl"])):
        c = ft["arms"][var][1][0]
        a0, a1, op = c["a"], c["b"], c["op"]
        iskey = lambda e: tuple_part(e) == {0} and len(cursor_sources(e)) >= 3
        if not iskey(a0):
            a0, a1, op = a1, a0, FLIP[op]
        okb = iskey(a0) and any(e.k == "downcast" and e.x["variant"] == var and _is_bound_of_self(e.a[0], D["far"]) for e in a1.walk())
        ok = op == want and okb
        ck.ob(R, f"arm/{d}/{var}", ok, f"{D['contains']} {var} arm: `key {op} bound` (payload of {var}), the verdict (expected `key {want} bound`)", b, c["site"])
    ck.ob(R, f"arm/{d}/Unbounded", True, f"{D['contains']} Unbounded arm yields the constant true (the third alternative of the verdict)", b, nontrivial=False)
    first = _first_call_region(b)
    ck.exact(R, f"comparisons in {D['contains']}", len([c for c in byte_comparisons(b) if c["site"].bb not in first]), 2, F.config)


def _first_call_region(b):
    flag = _flag_switch(b)
    if not flag:
        return set()
    fsw, ft, ff = flag
    return arm_region(b, fsw, ft)


def r2_start_table(ck, F, d):
    R = "C04-R2"
    D = DIRS[d]
    b = F.body(A(D["next"]))
    sw = None
    first = _first_call_region(b)
    for x in _bound_switches(b):
        if x[0] in first:
            sw = x
    if not ck.ob(R, f"switch-on-near-bound/{d}", sw is not None and set(sw[1]) == {"Included", "Excluded", "Unbounded"}, f"{D['next']} positions by matching on all three Bound variants", b):
        return
    bb, labels, src = sw
    ok_src = _is_bound_of_self(src, D["near"])
    ck.ob(R, f"near-bound-source/{d}", ok_src, f"first call matches on self.range.{D['near']}() (got {src.show()[:80]})", b)
    # Unbounded
    reg = arm_region(b, bb, labels["Unbounded"])
    cc = [n for s, n, t in cursor_calls(b, reg)]
    ck.ob(R, f"arm/{d}/Unbounded", cc == [D["first"]], f"Unbounded -> {cc} (expected [{D['first']}])", b)
    # Included
    reg = arm_region(b, bb, labels["Included"])
    cl = cursor_calls(b, reg)
    ok = [n for s, n, t in cl] == [D["seek"]]
    if ok:
        a = b.arg_exprs(cl[0][0])
        ok = is_self_field(a[0], "cursor") and any(e.k == "downcast" and e.x["variant"] == "Included" and _is_bound_of_self(e.a[0], D["near"]) for e in a[1].walk())
    ck.ob(R, f"arm/{d}/Included", ok, f"Included(b) -> {[n for s, n, t in cl]} on b (expected [{D['seek']}(b)])", b)
    # Excluded
    reg = arm_region(b, bb, labels["Excluded"])
    cl = cursor_calls(b, reg)
    names = [n for s, n, t in cl]
    ok = names == [D["seek"], D["step"]]
    cmps = [c for c in byte_comparisons(b) if c["site"].bb in reg]
    msg = f"calls {names}, {len(cmps)} comparison(s)"
    if ok and len(cmps) == 1:
        seek_site, step_site = cl[0][0], cl[1][0]
        a = b.arg_exprs(seek_site)
        okp = any(e.k == "downcast" and e.x["variant"] == "Excluded" for e in a[1].walk())
        c = cmps[0]
        x, y, op = c["a"], c["b"], c["op"]
        stored_first = any(e.k == "call" and e.x.get("site") == seek_site for e in x.walk())
        if not stored_first:
            x, y = y, x
        ok_eq = op == "==" and any(e.k == "call" and e.x.get("site") == seek_site for e in x.walk()) and x.strip().k == "field" and x.strip().x["idx"] == 0 and any(e.k == "downcast" and e.x["variant"] == "Excluded" for e in y.walk())
        ed = bool_edges(b, value_site=c["site"])
        ok_step = ed is not None and b.dominates(ed[1], step_site.bb) and not b.dominates(ed[2], step_site.bb)
        ok = okp and ok_eq and ok_step
        msg = f"seek(b); stored {op} b ⇒ one {D['step']}; otherwise the entry itself"
    else:
        ok = False
    ck.ob(R, f"arm/{d}/Excluded", ok, f"Excluded(b) -> {msg}", b)
    ck.exact(R, f"comparisons in {D['next']}", len([c for c in byte_comparisons(b) if c["site"].bb in first]), 1, F.config)
    ck.exact(R, f"matches on a Bound in {D['next']}", len(_bound_switches(b)), 2, F.config)


def r3_guard(ck, F, d):
    R = "C04-R3"
    D = DIRS[d]
    b = F.body(A(D["next"]))
    ft = far_test(b, D)
    ck.exact(R, f"far-side membership tests in {D['next']}", 1 if isinstance(ft, dict) else 0, 1, F.config)
    if not isinstance(ft, dict):
        return
    site = Site(ft["verdict"][0], None)
    keys = []
    for var in ("Included", "Excluded"):
        c = ft["arms"][var][1][0]
        keys.append(c["a"] if (tuple_part(c["a"]) == {0} and len(cursor_sources(c["a"])) >= 3) else c["b"])
    tested = cursor_sources(keys[0])
    ck.ob(R, f"tests-far-bound/{d}", _is_bound_of_self(ft["src"], D["far"]), f"membership is tested against self.range.{D['far']}() ({ft['src'].show()[:70]})", b, site)
    ck.ob(R, f"tests-entry-key/{d}", all(tuple_part(k) == {0} for k in keys) and len(tested) >= 3 and cursor_sources(keys[1]) == tested, f"the tested key is the key part of the candidate entry, whichever cursor move produced it ({len(tested)} producing sites)", b, site)
    sw, t_t, f_t = ft["verdict"]
    # a yielding call leaves nothing behind but the cursor position (same obligation as C05-R1, see c05.py)
    from .c05 import _yield_leaves_no_state
    _yield_leaves_no_state(ck, R, F, b, d, t_t, f_t, adt="reader::range_iter::RangeIter" if d == "fwd" else "reader::range_iter::RevRangeIter", skip=("cursor", "range"))
    somes = []
    for alt in return_alts(b):
        if is_err_path(alt):
            continue
        x = alt.a[0] if (alt.k == "agg" and alt.x.get("variant") == "Ok") else None
        if x is not None and x.k == "agg" and x.x.get("variant") == "Some":
            somes.append((alt, x))
    ck.exact(R, f"Ok(Some(..)) exits of {D['next']}", len(somes), 1, F.config)
    other = []
    for alt in return_alts(b):
        if is_err_path(alt):
            continue
        x = alt.a[0] if (alt.k == "agg" and alt.x.get("variant") == "Ok") else None
        if x is not None and x.k == "agg" and x.x.get("variant") in ("Some", "None"):
            continue
        if alt.k == "agg" and alt.x.get("variant") == "Err":
            continue  # an explicit error exit carries no entry
        other.append(alt.show()[:90])
    ck.ob(R, f"no-unguarded-exit/{d}", not other, f"every success exit of {D['next']} is Ok(None) or the guarded Ok(Some(entry))" + (f" — other exits: {other}" if other else ""), b)
    for alt, x in somes:
        s = alt.x.get("site")
        ok_dom = s is not None and b.dominates(t_t, s.bb) and not b.dominates(f_t, s.bb)
        # the returned pair is the transmuted (key, val) of the same entry
        tup = x.a[0]
        tr = []
        if tup.k == "agg" and len(tup.a) == 2:
            # the lifetime-extending call(s) the two yielded components are taken from (outermost only:
            # an entry may already have been through one inside a positioning helper)
            for comp in tup.a:
                y = comp.strip()
                if y.k == "field" and y.a[0].strip().k == "call" and y.a[0].strip().x["path"].endswith(A("transmute_entry")):
                    tr.append(y.a[0].strip())
        if not tr and tup.strip().k == "call" and tup.strip().x["path"].endswith(A("transmute_entry")):
            tr = [tup.strip(), tup.strip()]      # Some(transmute_entry_to_static(key, val)) — the pair handed over whole
        same = len(tr) == 2 and tr[0].ident() == tr[1].ident() and all(tuple_part(t_.a[0]) == {0} and tuple_part(t_.a[1]) == {1} and cursor_sources(t_.a[0]) == tested and cursor_sources(t_.a[1]) == tested for t_ in tr)
        ck.ob(R, f"yield-guarded/{d}", ok_dom, "the Ok(Some(entry)) exit is reached only through the `contains` == true edge", b, s)
        ck.ob(R, f"yield-is-tested-entry/{d}", same, "the yielded entry is the one whose key was tested", b, s)
    # not-first branch: exactly one step
    flag = _flag_switch(b)
    if flag:
        fsw, ft, ff = flag
        reg = arm_region(b, fsw, ff)
        cc = [n for s, n, t in cursor_calls(b, reg)]
        ck.ob(R, f"later-calls-one-step/{d}", cc == [D["step"]], f"after the first call: {cc} (expected exactly one {D['step']})", b)


def _flag_switch(b):
    for bb in sorted(b.normal_blocks()):
        t = b.term(bb)
        if t["t"] == "switch":
            e = b.expr_of_operand(t["discr"], Site(bb, None))
            if is_self_field(e, "move_on_start"):
                zero = [tb for v, tb in t["arms"] if int(v) == 0]
                if zero:
                    return bb, t["otherwise"], zero[0]
    return None


def r4_once(ck, F, d):
    R = "C04-R4"
    D = DIRS[d]
    b = F.body(A(D["next"]))
    adt = "reader::range_iter::RangeIter" if d == "fwd" else "reader::range_iter::RevRangeIter"
    st = field_stores(F, adt, "move_on_start")
    ck.exact(R, f"stores to {adt.split('::')[-1]}.move_on_start", len(st), 1, F.config)
    flag = _flag_switch(b)
    if not ck.ob(R, f"flag-read/{d}", flag is not None, "next branches on the first-call flag", b):
        return
    fsw, ft, ff = flag
    for bb_, site, s in st:
        v = const_val(bb_._expr_of_def((site, "assign", s["rv"])))
        first_calls = [x for x, n, t in cursor_calls(b, arm_region(b, fsw, ft))]
        ok = bb_.path == b.path and v == 0 and b.dominates(ft, site.bb) and all(b.dominates(site, x) for x in first_calls)
        ck.ob(R, f"flag-cleared-first/{d}", ok, "the flag is set to false on the first-call path before any cursor move", bb_, site)
    nb = F.body(A(D["new"]))
    ag = [(s, rv) for bb_, s, rv in aggregates(F, adt) if bb_.path == nb.path]
    ck.exact(R, f"constructions in {D['new']}", len(ag), 1, F.config)
    for s, rv in ag:
        ck.ob(R, f"flag-initially-true/{d}", const_val(agg_field_expr(nb, s, rv, "move_on_start")) == 1, "a new iterator starts with the flag set", nb, s)
        rng = agg_field_expr(nb, s, rv, "range")
        ok = rng.k == "agg" and len(rng.a) == 2 and (rng.x.get("ak") == "tuple" or (rng.x.get("fields") or []) == ["start", "end"])
        if ok:
            s0, s1 = rng.a
            ismap = lambda z: is_call(z, A("map_bound")) or is_call(z, "ops::Bound::<T>::map")

            def copies(z, accessor):
                """z is the variant-by-variant owned copy of `range.<accessor>()`: the map call, or — the mapping helper
                spliced in — a join of `V(bytes(src@V.0))` for V in {Included, Excluded} and `Unbounded`"""
                if ismap(z):
                    return is_call(z.strip().a[0], accessor)
                alts = flat_alts(z)
                seen_ = set()
                for a_ in alts:
                    if a_.k != "agg" or not (a_.x.get("adt") or "").endswith("ops::Bound"):
                        return False
                    v_ = a_.x.get("variant")
                    if v_ == "Unbounded":
                        seen_.add(v_)
                        continue
                    if v_ not in ("Included", "Excluded") or not a_.a:
                        return False
                    pay = [w for w in a_.a[0].walk() if w.k == "downcast"]
                    if len(pay) != 1 or pay[0].x.get("variant") != v_ or not is_call(pay[0].a[0], accessor):
                        return False
                    calls_ = [w.x["path"].rsplit("::", 1)[-1] for w in a_.a[0].walk() if w.k == "call" and w is not pay[0].a[0].strip()]
                    if not set(calls_) <= {"to_vec", "as_ref", "to_owned", "into", "from", "start_bound", "end_bound", "clone", "borrow", "deref"}:
                        return False
                    seen_.add(v_)
                return seen_ == {"Included", "Excluded", "Unbounded"}
            ok = copies(s0, "::start_bound") and copies(s1, "::end_bound")
        ck.ob(R, f"bounds-copied-in-order/{d}", ok, f"range := (map_bound(start_bound), map_bound(end_bound)) — got {rng.show()[:120]}", nb, s)
        cur = agg_field_expr(nb, s, rv, "cursor")
        ck.ob(R, f"cursor-moved-in/{d}", is_arg(cur, "cursor"), "the iterator owns the cursor it was given", nb, s, nontrivial=False)
    for c in F.closures_of(nb.path):
        e = c.expr_at_return()
        ck.ob(R, f"bound-bytes-copied/{d}/{c.path.split('::')[-1]}", is_call(e, "to_vec") or e.strip().k == "arg", f"bound bytes are copied verbatim ({e.show()[:60]})", c)


def r4_map_bound(ck, F):
    R = "C04-R4"
    if not F.has_body(A("map_bound")):
        # the crate's own helper is gone: the constructors must then use std's `Bound::map` (variant-preserving by
        # its documentation, trusted like the rest of std) — checked at the use sites (bounds-copied-in-order)
        # ... or with a helper the pinned tree does not have, spliced into the constructors: the variant-by-variant copy
        # is then checked at the use sites themselves (bounds-copied-in-order), nothing to add here
        users = [b_.path for b_ in F.user_bodies() for s, c, t in b_.calls() if callee_name(c).endswith("ops::Bound::<T>::map")]
        ck.ob(R, "map-bound-switch", True, f"no local map_bound: the constructors copy the bounds themselves ({sorted(set(users))}); see bounds-copied-in-order", config=F.config, nontrivial=False)
        return
    b = F.body(A("map_bound"))
    for bb in sorted(b.normal_blocks()):
        if b.term(bb)["t"] == "switch":
            e, enum, labels, oth = switch_on(b, bb)
            if e.k == "discr" and enum == "std::ops::Bound":
                for var, tb in labels.items():
                    reg = arm_region(b, bb, tb)
                    built = []
                    for s, st in b.sites():
                        if s.i is not None and s.bb in reg and st["s"] == "assign" and st["rv"]["rv"] == "agg" and st["rv"].get("adt") == "std::ops::Bound":
                            built.append(st["rv"]["variant"])
                    ck.ob(R, f"map-bound-preserves/{var}", built == [var], f"map_bound: {var} -> {built}", b)
                return
    ck.ob(R, "map-bound-switch", False, "map_bound matches on the Bound variant", b)


def r5_mirror(ck, F):
    R = "C04-R5"
    mirror.check_pair(ck, R, F, A("range_iter_next"), A("rev_range_iter_next"), mirror.RANGE)
    mirror.check_pair(ck, R, F, A("range_iter_new"), A("rev_range_iter_new"), mirror.RANGE_TYPE_ONLY)
    # (end_contains / start_contains are decided semantically by R1's table, which is insensitive to
    #  operand order; a skeleton comparison would alarm on `a <= b` rewritten as `b >= a`)
