"""errflow — how the Result of every fallible call is consumed (shared by C12 and by every rule that
needs to know that an error is propagated rather than swallowed)."""
from .common import *

FALLIBLE_ERR = ("std::io::Error", "error::Error", "Error<", "::Error", "io::IntoInnerError", "snap::Error", "lz4_flex", " E>", ", E>", "F>")
BENIGN_ERR = ("TryFromSliceError", "TryFromIntError", "LayoutError", "std::convert::Infallible>", "std::fmt::Error", "std::alloc::")
FORWARD = {"map", "map_err", "and_then", "or_else", "collect", "transpose", "branch", "from_residual", "into", "from", "map_or_else"}
DISCARD = {"ok", "is_ok", "is_err", "unwrap_or", "unwrap_or_else", "unwrap_or_default", "err", "drop", "is_ok_and", "is_err_and", "iter", "into_iter", "map_or"}
PANICKY = {"unwrap", "expect", "unwrap_unchecked", "unwrap_err", "expect_err"}


def is_fallible_result(ty):
    if not ty.startswith("std::result::Result<"):
        return False
    err = ty[len("std::result::Result<"):]
    # error type = text after the last top-level comma
    depth = 0
    cut = None
    for i, ch in enumerate(err):
        if ch in "<([":
            depth += 1
        elif ch in ">)]":
            depth -= 1
        elif ch == "," and depth == 0:
            cut = i
    et = err[cut + 1:].strip() if cut is not None else err
    if any(x in et for x in ("TryFromSliceError", "TryFromIntError", "LayoutError", "std::fmt::Error")):
        return False
    if et.rstrip(">").strip() in ("std::convert::Infallible", "usize", "u64", "u32", "()"):
        return False
    return True


def result_uses(F, b):
    """for every call returning a fallible Result: how the result is consumed.
    yields dict(site, callee, verdict, detail)"""
    out = []
    for s, c, t in b.calls():
        dest = t["dest"]
        if not is_fallible_result(dest["ty"]):
            continue
        n = callee_name(c)
        last = n.rsplit("::", 1)[-1]
        if last in ("branch", "from_residual"):
            continue
        if b.span_at(s).get("macros") and any(m in ("write", "writeln", "format_args", "debug_struct") or "derive" in m for m in b.span_at(s)["macros"]):
            continue
        if dest["p"]:
            out.append(dict(site=s, callee=n, verdict="stored", detail="result stored into a place"))
            continue
        l = dest["l"]
        if l == 0:
            out.append(dict(site=s, callee=n, verdict="propagated", detail="returned"))
            continue
        v, detail = _consume(b, l, s, 0)
        out.append(dict(site=s, callee=n, verdict=v, detail=detail))
    return out


ORDER = ["unwrap", "err-arm-panics", "dropped", "discarded", "err-arm-swallowed", "err-replaced", "unrecognised", "stored", "propagated"]


def _consume(b, l, def_site, depth):
    """how the Result held in local `l` (defined at def_site) is consumed: (verdict, detail)"""
    if depth > 8:
        return "unrecognised", "too deep"
    if l == 0:
        return "propagated", "returned"
    uses = _uses_of(b, l, def_site)
    verdicts = []
    for kind, us, info in uses:
        if kind == "call-arg":
            un = callee_name(info["callee"])
            ul = un.rsplit("::", 1)[-1]
            if ul in FORWARD or ul == "Some" or un.endswith("::Ok"):
                verdicts.append(("propagated", f"forwarded to {ul}"))
            elif ul in PANICKY:
                verdicts.append(("unwrap", f"{ul}() on a component result"))
            elif ul in DISCARD:
                verdicts.append(("discarded", f"{ul}() discards the error"))
            elif info["argi"] > 0 or info["callee"] is None:
                verdicts.append(("propagated", f"passed on to {ul}"))
            else:
                verdicts.append(("unrecognised", f"consumed by {un}"))
        elif kind == "return":
            verdicts.append(("propagated", "returned"))
        elif kind == "discr":
            verdicts.append(_match_verdict(b, us, l, depth))
        elif kind == "moved":
            verdicts.append(("propagated", "moved into a value that is returned/forwarded") if info else ("unrecognised", "moved"))
    if any(v[0] != "no-switch" for v in verdicts):
        verdicts = [v for v in verdicts if v[0] != "no-switch"]
    else:
        verdicts = [("unrecognised", v[1]) for v in verdicts]
    if not verdicts:
        return "dropped", "the Result is never looked at (let _ = .. / statement expression)"
    worst = sorted(verdicts, key=lambda v: ORDER.index(v[0]))[0]
    return worst


def _uses_of(b, l, def_site):
    uses = []
    for s, st in b.sites():
        if s.i is not None:
            if st["s"] != "assign":
                continue
            rv = st["rv"]
            if rv["rv"] == "discr" and rv["pl"]["l"] == l and not [p for p in rv["pl"]["p"] if p != "*"]:
                uses.append(("discr", s, None))
            elif rv["rv"] == "use" and rv["op"]["k"] in ("copy", "move") and rv["op"]["pl"]["l"] == l and not rv["op"]["pl"]["p"]:
                if not st["pl"]["p"] and st["pl"]["l"] == 0:
                    uses.append(("return", s, None))
                elif not st["pl"]["p"]:
                    # copy into another local: follow
                    uses += _uses_of(b, st["pl"]["l"], s)
                else:
                    uses.append(("moved", s, False))
            elif rv["rv"] in ("ref",) and rv["pl"]["l"] == l and not rv["pl"]["p"]:
                if not st["pl"]["p"]:
                    uses += _uses_of(b, st["pl"]["l"], s)
            elif rv["rv"] == "agg":
                for o in rv["ops"]:
                    if o["k"] in ("copy", "move") and o["pl"]["l"] == l and not o["pl"]["p"]:
                        uses.append(("moved", s, True))
        else:
            if st["t"] == "call":
                for i, a in enumerate(st["args"]):
                    if a["k"] in ("copy", "move") and a["pl"]["l"] == l and not a["pl"]["p"]:
                        uses.append(("call-arg", s, {"callee": callee_of(st), "argi": i}))
    return uses


def _match_verdict(b, dsite, l, depth=0):
    """the Result is matched: the Err arm must reach a return that carries an Err"""
    dl = b.at(dsite)["pl"]["l"]
    for bb in sorted(b.normal_blocks()):
        t = b.term(bb)
        if t["t"] == "switch" and t["discr"]["k"] in ("copy", "move") and t["discr"]["pl"]["l"] == dl and b.dominates(dsite, Site(bb, None)):
            arms = {int(v): tb for v, tb in t["arms"]}
            err_t = arms.get(1, t["otherwise"] if 1 not in arms else None)
            ok_t = arms.get(0, t["otherwise"] if 0 not in arms else None)
            if err_t is None or err_t == ok_t:
                return ("err-arm-swallowed", "Ok and Err take the same path")
            if diverges(b, err_t):
                return ("err-arm-panics", "the Err arm cannot return (it panics)")
            # does the Err arm's region assign an Err to _0 / call from_residual before returning?
            reg = {err_t} | {x for x in b.reachable_from(err_t) if b.dominates(err_t, x)}
            for s, k, p in b.defs()[0].get(0, []):
                if s.bb in reg:
                    if k == "call" and call_matches(callee_of(p), "::from_residual"):
                        return ("propagated", "match: Err arm returns the error")
                    if k == "assign":
                        e = b._expr_of_def((s, k, p))
                        if e.k == "agg" and e.x.get("variant") == "Err":
                            if e.a and not any(w.k == "downcast" and w.x.get("variant") == "Err" for w in e.a[0].walk()):
                                # `_ => return Err(Error::SomethingElse)`: an error is returned, but not this one
                                return ("err-replaced", "the Err arm returns a different, constant error: the failure itself is not carried")
                            return ("propagated", "match: Err arm returns Err(..)")
            # the Err arm rebuilds an Err (possibly of a converted error) into another local, as the
            # definition of map / map_err / and_then / an explicit match does: follow that local
            for s2, st in b.sites():
                if s2.i is not None and s2.bb in reg and st["s"] == "assign" and not st["pl"]["p"] and st["rv"]["rv"] == "agg" and st["rv"].get("variant") == "Err" and st["rv"].get("adt", "").endswith("result::Result"):
                    v, d = _consume(b, st["pl"]["l"], s2, depth + 1)
                    return (v, "match: Err arm rebuilds Err(..) -> " + d)
            return ("err-arm-swallowed", "the Err arm continues without returning an error (`if let Ok(..)` / `match .. { Err(_) => {} }`)")
    # the switch was decided per predecessor by jump threading (thread.py): this copy of the chain ends in a jump
    # to the one arm that can be taken on the paths that reach it
    t = b.term(dsite.bb)
    if t.get("t") == "goto" and t.get("threaded") in ("Ok", "Some", "Err", "None"):
        if t["threaded"] in ("Ok", "Some"):
            return ("propagated", "on these paths the value is known to be Ok: there is no error to lose")
        err_t = t["target"]
        if diverges(b, err_t):
            return ("err-arm-panics", "the Err arm cannot return (it panics)")
        reg = {err_t} | {x for x in b.reachable_from(err_t) if b.dominates(err_t, x)}
        for s, k, p in b.defs()[0].get(0, []):
            if s.bb in reg:
                if k == "call" and call_matches(callee_of(p), "::from_residual"):
                    return ("propagated", "match: Err arm returns the error")
                if k == "assign":
                    e = b._expr_of_def((s, k, p))
                    if e.k == "agg" and e.x.get("variant") == "Err":
                        return ("propagated", "match: Err arm returns Err(..)")
        for s2, st in b.sites():
            if s2.i is not None and s2.bb in reg and st["s"] == "assign" and not st["pl"]["p"] and st["rv"]["rv"] == "agg" and st["rv"].get("variant") == "Err" and st["rv"].get("adt", "").endswith("result::Result"):
                v, d = _consume(b, st["pl"]["l"], s2, depth + 1)
                return (v, "match: Err arm rebuilds Err(..) -> " + d)
        return ("err-arm-swallowed", "the Err arm continues without returning an error")
    return ("no-switch", "discriminant read but no switch found")




def verdict_at(F, b, site):
    """consumption verdict of the Result produced by the call at `site` ('propagated', 'dropped', ...)"""
    cache = b.__dict__.setdefault("_errflow", None)
    if cache is None:
        cache = {r["site"]: r for r in result_uses(F, b)}
        b.__dict__["_errflow"] = cache
    r = cache.get(site)
    return r["verdict"] if r else None


def propagated(F, b, site):
    """the error of the call at `site` is propagated to the caller (`?`, returned, forwarded to a
    combinator whose result is itself propagated, or a match whose Err arm returns the error)"""
    return verdict_at(F, b, site) == "propagated"


def err_chain(b, site):
    """the conversions applied to the Err payload of the call at `site` before it is handed on:
    callee names from the innermost to the outermost, e.g. ['into', 'convert_merge_error'];
    [] when the error is passed on unchanged; None when the Err payload is never rebuilt"""

    def descend(x, depth=0):
        """list of chains (outermost first) through which x reaches `<call at site>@Err.0`"""
        if depth > 14:
            return []
        xs = x
        while xs.k in ("ref", "deref") or (xs.k == "cast" and xs.x.get("transparent")):
            xs = xs.a[0]
        if xs.k == "phi":
            out = []
            for c in xs.a:
                out += descend(c, depth + 1)
            return out
        if xs.k == "field" and xs.x["name"] == "0" and xs.a[0].k == "downcast" and xs.a[0].x["variant"] == "Err":
            src = xs.a[0].a[0]
            while src.k in ("ref", "deref"):
                src = src.a[0]
            if src.k == "call" and src.x.get("site") == site:
                return [[]]
            if src.k == "phi":
                return [[]] if any(c.strip().k == "call" and c.strip().x.get("site") == site for c in src.a) else []
            return []
        if xs.k == "call" and xs.a and xs.x.get("site") != site:
            return [[xs.x["path"].rsplit("::", 1)[-1]] + ch for ch in descend(xs.a[0], depth + 1)]
        if xs.k == "agg" and xs.x.get("ak") == "adt" and len(xs.a) == 1 and xs.x.get("variant") not in ("Err", "Ok", "Some"):
            # a wrapping variant (Error::Merge(e)) counts as a conversion named after the variant
            return [[xs.x["variant"]] + ch for ch in descend(xs.a[0], depth + 1)]
        return []

    best = None
    for s2, st in b.sites():
        if s2.i is None or st["s"] != "assign" or st["rv"]["rv"] != "agg" or st["rv"].get("variant") != "Err":
            continue
        e = b._expr_of_def((s2, "assign", st["rv"]))
        if not e.a:
            continue
        for ch in descend(e.a[0]):
            ch = list(reversed(ch))
            if best is None or len(ch) > len(best):
                best = ch
    return best
