"""C12 — any failure of a user-supplied component surfaces as Err from the current call: error
discipline over every fallible call site (fault points are call sites, and call sites are static)."""
from .common import *
from .c03 import return_alts
from .c06 import r4_merge_once, r5_pop_push, r6_stream
from .c07 import r7_group, r5_reopen

PID = "C12"
META = {
    "explanation": "Static error-discipline analysis on the MIR of the current tree (all feature sets): every call in library code that returns a Result whose error type can carry a component failure (io::Error, grenad::Error<_>, MF::Error, CC::Error, any generic E) is inventoried and its result must be consumed by a propagating idiom — `?`, returned as the function's result, forwarded through map/map_err/and_then/collect whose result obeys the same rule, or a match whose Err arm returns Err; drop / let _ / .ok() / .is_ok() / unwrap_or* / `if let Ok` (error arm falls through) / unwrap / expect / an Err arm that panics are findings. Error::convert_merge_error is decoded as a table: every variant inhabited for U = Infallible maps to itself, and at every use the receiver's U is Infallible. Merge errors reach Error::Merge unchanged; ChunkCreator errors go Into -> convert -> `?`; the writer's only success exit is the flushing CountWrite::into_inner; chunks are flushed before being pushed. Fixtures prove the detectors fire. Data-dependent errors inside the codec crates are outside this analysis.",
    "assumptions": ["the `?` desugaring (Try::branch + FromResidual::from_residual) returns the error", "From<io::Error> for Error wraps into Error::Io"],
}

from .errflow import *  # noqa
from .errflow import result_uses, is_fallible_result, PANICKY


def run(ck):
    for cfg in ck.configs(quick=("default", "all", "none"), thorough=("default", "all", "none", "rel")):
        F = ck.facts(cfg)
        ck.guard("C12-R1", r1_no_drop, ck, F)
        ck.guard("C12-R3", r3_convert, ck, F)
        ck.guard("C12-R4", r4_merge_wrap, ck, F)
        ck.guard("C12-R5", r5_create_wrap, ck, F)
        ck.guard("C12-R6", r6_flush, ck, F)
    from . import fixtures, witness
    ck.guard("C12-R1", fixtures.run, ck, "C12")
    ck.trusted += ["rustc MIR construction", "the `?` desugaring", "From<io::Error> for Error"]


def r1_no_drop(ck, F):
    R = "C12-R1"
    n = 0
    hist = {}
    # a read retried on ErrorKind::Interrupted inside a verified pass-through adapter is not a swallowed error
    from .c11 import retry_adapters

    class _Quiet:
        def ob(self, *a, **k):
            return a[2] if len(a) > 2 else True
    retry_bodies = {x.path for x in retry_adapters(_Quiet(), F, R).values()}
    for b in F.user_bodies():
        for rec in result_uses(F, b):
            n += 1
            if rec["verdict"] == "err-arm-swallowed" and b.path in retry_bodies and rec["callee"] == "std::io::Read::read":
                rec["verdict"] = "propagated"
            hist[rec["verdict"]] = hist.get(rec["verdict"], 0) + 1
            if rec["verdict"] == "propagated":
                continue
            rule = "C12-R2" if rec["verdict"] == "unwrap" else ("C12-R7" if rec["verdict"] == "err-arm-panics" else R)
            ck.ob(rule, f"{rec['verdict']}/{b.path}/{rec['callee'].rsplit('::', 1)[-1]}", False, f"result of {rec['callee']} is {rec['verdict']}: {rec['detail']} (src: {b.src_at(rec['site'])[:70]})", b, rec["site"])
    ck.extra.setdefault("result_consumption", {})[F.config] = hist
    ck.ob(R, "all-fallible-results-propagated", set(hist) <= {"propagated"}, f"{n} fallible call results inventoried: {hist}", config=F.config)
    # counted on the pinned tree: 150 in the smallest configuration; the floor guards against a vacuous
    # inventory, not against de-duplicating refactorings, hence the 20% slack
    ck.floor(R, "fallible call sites inventoried", n, 120, F.config)
    # C12-R2: unwrap/expect anywhere on a component error type (also through fn references)
    bad = []
    for b in F.user_bodies():
        for s, c, t in b.calls():
            if c is None:
                continue
            last = callee_name(c).rsplit("::", 1)[-1]
            if last in PANICKY and c["path"].startswith("std::result::Result"):
                et = c["args"][1] if len(c["args"]) > 1 else ""
                if not any(x in et for x in ("TryFromSliceError", "TryFromIntError", "LayoutError", "Infallible")):
                    bad.append((b.path, b.loc(s), et))
    ck.ob("C12-R2", "no-unwrap-on-component-error", not bad, f"no unwrap()/expect() on a Result whose error can be a component failure" + (f": {bad}" if bad else " (the existing unwraps are on TryFromSliceError / TryFromIntError / LayoutError)"), config=F.config)


def _receiver_param(f, t):
    """the U of the Error<U> that convert_merge_error is applied to at this use, from the instantiated signature
    of the function reference (works whether U is a generic parameter of the method or fixed by its impl block)"""
    import re
    ty = None
    func = t.get("func", {})
    if func.get("fn") is f:
        ty = func.get("ty")
    else:
        for a in t.get("args", []):
            if a.get("k") == "const" and a.get("fn") is f:
                ty = a.get("ty")
    if ty and "fn(" in ty:
        inputs = ty.split("fn(", 1)[1]
        m = re.match(r"\s*(error::Error(<.*)?)", inputs)
        if m:
            first = inputs
            # first parameter: up to the matching top-level `)` or `,`
            depth = 0
            out = ""
            for ch in first:
                if ch in "<(":
                    depth += 1
                elif ch in ">)":
                    if depth == 0:
                        break
                    depth -= 1
                elif ch == "," and depth == 0:
                    break
                out += ch
            out = out.strip()
            if out == "error::Error":
                return "std::convert::Infallible"
            if out.startswith("error::Error<") and out.endswith(">"):
                return out[len("error::Error<"):-1]
    return f["args"][0] if f.get("args") else "?"


def r3_convert(ck, F):
    R = "C12-R3"
    b = F.body(A("convert_merge_error"))
    enum = F.adts[A("error_enum")]
    inhabited = [v["name"] for v in enum["variants"] if not any(f["ty"] == "U" or "U" in f["flags"]["params"] for f in v["fields"])]
    sw = None
    for bb in sorted(b.normal_blocks()):
        if b.term(bb)["t"] == "switch":
            e, en, labels, oth = switch_on(b, bb)
            if e.k == "discr" and e.a[0].strip().k == "arg":
                sw = (bb, labels, oth)
                break
    if not ck.ob(R, "switch-on-self", sw is not None, "convert_merge_error matches on self", b):
        return
    bb, labels, oth = sw
    for v in inhabited:
        tb = labels.get(v)
        built = None
        if tb is not None:
            reg = arm_region(b, bb, tb) | {tb}
            for s, st in b.sites():
                if s.i is not None and s.bb in reg and st["s"] == "assign" and st["rv"]["rv"] == "agg" and st["rv"].get("adt") == A("error_enum") and not st["pl"]["p"] and st["pl"]["l"] == 0:
                    built = st["rv"]["variant"]
        pan = tb is None or diverges(b, tb)
        ck.ob(R, f"variant-maps-to-itself/{v}", built == v and not pan, f"Error::{v} (inhabited when U = Infallible) -> " + (f"Error::{built}" if built else "PANIC (falls into the catch-all arm)"), b)
    ck.floor(R, "variants inhabited for U = Infallible", len(inhabited), 3, F.config)
    # receivers are Error<Infallible> at every use
    uses = []
    for bdy in F.user_bodies():
        for s, c, t in bdy.calls():
            cands = []
            if c is not None and c["path"] == A("convert_merge_error"):
                cands.append(c)
            for a in t["args"]:
                if a.get("k") == "const" and "fn" in a and a["fn"]["path"] == A("convert_merge_error"):
                    cands.append(a["fn"])
            for f in cands:
                uses.append((bdy, s, _receiver_param(f, t)))
    ck.floor(R, "uses of convert_merge_error", len(uses), 4, F.config)  # 8 counted; call sites may legitimately be shared
    for bdy, s, u in uses:
        ck.ob(R, f"receiver-has-no-merge-error/{bdy.path}", u == "std::convert::Infallible", f"convert_merge_error applied to Error<{u}> (must be Error<Infallible>: a real merge error would hit the panicking arm)", bdy, s)
    f = F.fns.get(A("convert_merge_error"))
    ck.ob(R, "stays-crate-private", f is not None and not f["pub"], "convert_merge_error is not public", config=F.config, nontrivial=False)


def r4_merge_wrap(ck, F):
    R = "C12-R4"
    r4_merge_once(ck, F, R)
    r7_group(ck, F, R)
    r5_pop_push(ck, F, R)
    r6_stream(ck, F, R)
    # From<io::Error>: wraps into Io
    fb = F.body("<error::Error<U> as std::convert::From<std::io::Error>>::from")
    e = fb.expr_at_return()
    ck.ob(R, "io-error-wrapped-as-io", e.k == "agg" and e.x.get("variant") == "Io" and e.a[0].strip().k == "arg", f"From<io::Error> for Error = {e.show()}", fb)


def r5_create_wrap(ck, F):
    R = "C12-R5"
    for p in (A("sorter_write_chunk"), A("sorter_merge_chunks")):
        b = F.body(p)
        cr = calls(b, "ChunkCreator::create")
        ck.exact(R, f"create sites in {p.split('::')[-1]}", len(cr), 1, F.config)
        if not cr:
            continue
        from .errflow import err_chain, propagated
        chain = err_chain(b, cr[0][0])
        ok = chain == ["into", "convert_merge_error"] and propagated(F, b, cr[0][0])
        ck.ob(R, f"create-error-path/{p.split('::')[-1]}", ok, f"the creator's error is converted with {chain} and propagated (expected Into::into then convert_merge_error)", b, cr[0][0])
    r5_reopen(ck, F, R)


def r6_flush(ck, F):
    R = "C12-R6"
    b = F.body(A("count_into_inner"))
    fl = calls(b, "Write::flush")
    oks = [a for a in return_alts(b) if a.k == "agg" and a.x.get("variant") == "Ok"]
    ok = len(fl) == 1 and len(oks) == 1 and is_self_field(b.arg_exprs(fl[0][0])[0], "inner")
    if ok:
        brs = [x for x, c, t in calls(b, "Try>::branch") if b.arg_exprs(x)[0].k == "call" and b.arg_exprs(x)[0].x.get("site") == fl[0][0]]
        s = oks[0].x.get("site")
        ok = len(brs) == 1 and s is not None and b.dominates(brs[0], s) and is_self_field(oks[0].a[0], "inner")
    ck.ob(R, "into-inner-flushes", ok, "CountWrite::into_inner: self.inner.flush()? dominates Ok(self.inner)", b)
    w = F.body(A("writer_into_inner"))
    oks = ok_return_sites(w)
    fin = calls(w, A("count_into_inner"))
    ck.ob(R, "writer-success-exit-is-flush", len(oks) == 1 and len(fin) == 1 and oks[0][0] == fin[0][0], "Writer::into_inner's only success exit is CountWrite::into_inner(self.writer)", w)
    f = F.body(A("writer_finish"))
    e = f.expr_at_return()
    ii = calls(f, A("writer_into_inner"))
    from .errflow import propagated
    others = [callee_name(c) for s, c, t in f.calls() if c and c.get("resolved_local", c["local"]) and not call_matches(c, A("writer_into_inner"))]
    ck.ob(R, "finish-is-into-inner", len(ii) == 1 and propagated(F, f, ii[0][0]) and not others and is_arg(f.arg_exprs(ii[0][0])[0], "self"), f"Writer::finish = into_inner(self) with its error propagated ({e.show()[:80]})", f)
    fb = F.body(A("count_flush"))
    e = fb.expr_at_return()
    ck.ob(R, "flush-delegates", is_call(e, "Write::flush") and is_self_field(e.strip().a[0], "inner"), "CountWrite::flush forwards to the sink's flush (result returned)", fb)
