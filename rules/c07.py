"""C07 — sorter output independent of when/how data was spilled: the control skeleton (nothing
lost at insert, spill writes everything then clears, final flush before the merge, chunk order =
age order, chunks reopened at 0 after being flushed, sort dispatch, grouping loop, configuration
plumbing, buffer layout agreement between Entries::insert and its readers)."""
from .common import *
from .c03 import mutated_fields
from .c06 import REORDER, r1_heap_order, r2_seed, r4_merge_once, r5_pop_push, r6_stream
from .c08 import r1_spill_table, r6_plumb

PID = "C07"
META = {
    "explanation": "Static analysis of the sorter's control skeleton on the MIR of the current tree (default, all-features incl. rayon, no-default-features): every insert path stores the caller's entry exactly once; write_chunk sorts once, streams Entries::iter() through the grouping loop (group closed on whole-key inequality: merge once, insert, clear, replace key; value pushed on both arms; trailing group flushed), then pushes the flushed chunk and clears the buffer; every consumer goes through one final write_chunk; the chunk vector is only appended to / drained whole so vector order is age order, which the merger's source-index tie-break (C06 rules re-run here) turns into oldest-value-first; chunks are flushed before being pushed and re-read from offset 0; stable/unstable and sequential/parallel dispatch tables; every builder setting reaches the sorter and both chunk writers; the byte layout Entries::insert writes is the one iter() and the sort key read. Equality of the output with a reference sort-and-merge is not decided. The reallocation keeps the two-ended layout: bounds copied to the front, entry bytes to the back of the new buffer, each region expressed over its own buffer's length. The sorter writes its chunks with this Writer and reads them back through this cursor: the shared file-wellformedness and cursor-traversal rules (rules/shared.py) are re-run as necessary conditions.",
    "assumptions": ["slice sort_by_key / sort_unstable_by_key and rayon par_sort* sort by the given key (stable where documented)", "C06 (merger) rules"],
}


def run(ck):
    for cfg in ck.configs(quick=("default", "all", "none"), thorough=("default", "all", "none", "rel")):
        F = ck.facts(cfg)
        ck.guard("C07-R1", r1_no_loss, ck, F)
        ck.guard("C07-R2", r2_spill_all, ck, F)
        ck.guard("C07-R3", r3_final_flush, ck, F)
        ck.guard("C07-R4", r4_age_order, ck, F)
        ck.guard("C07-R5", r5_reopen, ck, F)
        ck.guard("C07-R6", r6_sort_table, ck, F)
        ck.guard("C07-R7", r7_group, ck, F)
        ck.guard("C07-R8", r8_config, ck, F)
        ck.guard("C07-R9", r9_layout, ck, F)
        # stored entries are never overwritten: the bounds area and the entries area of the buffer stay
        # disjoint (linear-invariant analysis shared with C17-R10)
        from . import bufarith
        ck.guard("C07-R11", bufarith.run_rule, ck, F, "C07-R11")
        # the merger rules the age-order argument rests on (shared with C06)
        ck.guard("C07-R10", r1_heap_order, ck, F, "C07-R10")
        ck.guard("C07-R10", r2_seed, ck, F, "C07-R10")
        ck.guard("C07-R10", r4_merge_once, ck, F, "C07-R10")
        ck.guard("C07-R10", r5_pop_push, ck, F, "C07-R10")
        ck.guard("C07-R10", r6_stream, ck, F, "C07-R10")
        # every chunk is written through Writer / CountWrite into the user's chunk storage and read back from it: the
        # offsets recorded in a chunk are right only if the counter adds what the sink accepted (shared with C11-R1/R2)
        from .c11 import r1_write_all, r2_count_accepted
        ck.guard("C07-R12", r2_count_accepted, ck, F, "C07-R12")
        ck.guard("C07-R12", r1_write_all, ck, F, "C07-R12")
        from . import shared
        shared.file_wellformed(ck, F, "C07-R12")
        shared.cursor_traversal(ck, F, "C07-R13")
    ck.trusted += ["rustc MIR construction", "std / rayon sorting contracts", "BinaryHeap"]


def r1_no_loss(ck, F):
    r1_spill_table(ck, F, "C07-R1")


def _q(b, s):
    """[s] if the error of the call at s is propagated to the caller, else []"""
    from .errflow import propagated
    return [s] if propagated(b.facts, b, s) else []


def r2_clear(ck, F, R="C07-R2"):
    """the buffer is emptied — both counters zeroed — by `clear`, which only write_chunk calls (shared with C08-R3:
    a spill that leaves one counter behind makes the next insert find the buffer 'full' and grow it)"""
    callers = sorted({bb.path for bb in F.user_bodies() for s, c, t in calls(bb, A("entries_clear"))})
    ck.ob(R, "clear-callers", callers == [A("sorter_write_chunk")], f"Entries::clear is called only from write_chunk ({callers})", config=F.config)
    ec = F.body(A("entries_clear"))
    zs = {}
    for site, st in ec.sites():
        if site.i is not None and st["s"] == "assign" and st["pl"]["p"]:
            zs[st["pl"]["p"][-1].get("name")] = const_val(ec._expr_of_def((site, "assign", st["rv"])))
    ck.ob(R, "clear-zeroes-counters", zs == {"entries_len": 0, "bounds_count": 0}, f"clear() sets {zs}", ec)
    mf = mutated_fields(F, A("entries_struct"))
    who = {f: sorted({bb.path.split("::")[-1] for bb, s, st in lst if st}) for f, lst in mf.items()}
    ck.ob(R, "counter-writers", who.get("entries_len") == ["clear", "insert"] and who.get("bounds_count") == ["clear", "insert"], f"entries_len / bounds_count are written only by insert and clear ({ {k: v for k, v in who.items() if k != 'buffer'} })", config=F.config)


def r2_spill_all(ck, F):
    R = "C07-R2"
    b = F.body(A("sorter_write_chunk"))
    sorts = calls(b, A("entries_sort")) + calls(b, A("entries_par_sort"))
    it = calls(b, A("entries_iter"))
    ck.exact(R, "Entries::iter sites in write_chunk", len(it), 1, F.config)
    ck.exact(R, "sort call sites in write_chunk", len(sorts), 2, F.config)
    if it:
        reach = reachable_without(b, banned_blocks=[s.bb for s, c, t in sorts])
        ck.ob(R, "sorted-before-iterated", it[0][0].bb not in reach and not any(x.bb in b.reachable_from(y.bb) for x, _, _ in sorts for y, _, _ in sorts), "every path to entries.iter() passes exactly one sort call", b, it[0][0])
        for s, c, t in sorts + it:
            ck.ob(R, f"operates-on-own-buffer/{callee_name(c).split('::')[-1]}", is_self_field(b.arg_exprs(s)[0], "entries"), "sort / iter operate on self.entries", b, s, nontrivial=False)
    push = [s for s, c, t in calls(b, "Vec::<T, A>::push") if is_self_field(b.arg_exprs(s)[0], "chunks")]
    clr = [s for s, c, t in calls(b, A("entries_clear")) if is_self_field(b.arg_exprs(s)[0], "entries")]
    oks = [s for s, k, p in ok_return_sites(b)]
    ck.exact(R, "entries.clear() sites in write_chunk", len(clr), 1, F.config)
    if push and clr and oks:
        ck.ob(R, "push-then-clear", b.dominates(push[0], clr[0]) and all(b.dominates(clr[0], o) for o in oks), "chunks.push(chunk) dominates entries.clear(), which dominates the success exit (data is only forgotten once it is safely in a chunk)", b, clr[0])
        errs = [s for s, k, p in err_return_sites(b)]
        ck.ob(R, "no-clear-on-error", not any(e.bb in b.reachable_from(clr[0].bb) for e in errs), "no error exit after the buffer was cleared", b, clr[0])
    r2_clear(ck, F, R)
    # the written bytes are what the writer over the created chunk received
    wi = calls(b, A("writer_insert"))
    ck.exact(R, "Writer::insert sites in write_chunk", len(wi), 2, F.config)
    fin = calls(b, A("writer_into_inner"))
    ck.ob(R, "writer-finished", len(fin) == 1 and all(b.dominates(fin[0][0], o) for o in oks) and len(_q(b, fin[0][0])) == 1, "the chunk writer is finished (trailer written) before the chunk is pushed", b)


def r3_final_flush(ck, F):
    R = "C07-R3"
    b = F.body(A("sorter_extract"))
    wc = calls(b, A("sorter_write_chunk"))
    mv = [s for s, c, t in b.calls() if any(is_self_field(x, "chunks") for x in b.arg_exprs(s))]
    ck.exact(R, "write_chunk sites in extract_reader_cursors_and_merger", len(wc), 1, F.config)
    if wc:
        ck.ob(R, "flush-before-chunks-move", all(b.dominates(wc[0][0], m) for m in mv) and len(mv) >= 1 and len(_q(b, wc[0][0])) == 1, "the pending buffer is spilled (write_chunk()?) before the chunk vector is consumed", b, wc[0][0])
    for name in ("sorter_into_iter", "sorter_into_cursors"):
        f = F.body(A(name))
        cs = calls(f, A("sorter_extract"))
        rets = [Site(r, None) for r in f.return_blocks()]
        ck.ob(R, f"goes-through-final-flush/{A(name).split('::')[-1]}", len(cs) == 1 and all(f.dominates(cs[0][0], r) for r in rets) and is_arg(f.arg_exprs(cs[0][0])[0], "self"), f"{A(name).split('::')[-1]} starts with extract_reader_cursors_and_merger(self)", f)
    st = F.body(A("sorter_stream"))
    cs = calls(st, A("sorter_into_iter"))
    ck.ob(R, "goes-through-final-flush/write_into_stream_writer", len(cs) == 1 and is_arg(st.arg_exprs(cs[0][0])[0], "self"), "write_into_stream_writer streams into_stream_merger_iter(self)", st)
    # into_stream_merger_iter: sources in vector order, the sorter's merge function
    f = F.body(A("sorter_into_iter"))
    ext = calls(f, "Extend<reader::reader_cursor::ReaderCursor<R>>>::extend")
    ok = len(ext) == 1
    if ok:
        a = f.arg_exprs(ext[0][0])
        src = a[1].strip()
        ok = src.k == "field" and src.x["idx"] == 0 and any(x.k == "call" and x.x["path"].endswith(A("sorter_extract")) for x in src.walk())
    ck.ob(R, "merger-gets-all-cursors", ok, "the merger is extended with the whole cursor vector returned by the final flush", f)
    icb = F.body(A("sorter_into_cursors"))
    oks = [a for a in flat_alts(icb.expr_at_return()) if a.k == "agg" and a.x.get("variant") == "Ok"]
    ok = len(oks) == 1 and tuple_part(oks[0].a[0]) == {0} and any(x.k == "call" and x.x["path"].endswith(A("sorter_extract")) for x in oks[0].a[0].walk())
    if not oks:
        cl = [c for c in F.closures_of(A("sorter_into_cursors"))]
        ok = len(cl) == 1 and cl[0].expr_at_return().strip().k == "field" and cl[0].expr_at_return().strip().x["idx"] == 0
    ck.ob(R, "cursors-returned-whole", ok, "into_reader_cursors returns the cursor vector of the final flush unchanged", icb)


def r4_age_order(ck, F):
    R = "C07-R4"
    touched = []
    for b in F.user_bodies():
        if not b.path.startswith("sorter::"):
            continue
        for s, c, t in b.calls():
            a = b.arg_exprs(s)
            if a and is_self_field(a[0], "chunks"):
                touched.append((b, s, callee_name(c).rsplit("::", 1)[-1]))
    names = sorted({n for b, s, n in touched})
    bad = [(b.loc(s), n) for b, s, n in touched if n in (REORDER - {"drain"})]
    ck.ob(R, "chunks-append-or-drain-only", not bad and set(names) <= {"push", "drain", "into_iter", "len", "map"}, f"the chunk vector is only touched by {names}" + (f" — reordering: {bad}" if bad else ""), config=F.config)
    ck.floor(R, "uses of the chunk vector", len(touched), 5, F.config)
    m = F.body(A("sorter_merge_chunks"))
    col = calls(m, "Iterator::collect")
    ok = len(col) == 1
    chain = []
    if ok:
        e = m.arg_exprs(col[0][0])[0]
        chain = [x.x["path"].rsplit("::", 1)[-1] for x in e.walk() if x.k == "call"]
        ok = chain.count("drain") == 1 and set(chain) <= {"map", "drain"} and any(x.k == "field" and x.x["name"] == "chunks" for x in e.walk())
    ck.ob(R, "merge-sources-in-vector-order", ok, f"merge_chunks builds its sources with {chain} over self.chunks (oldest first; no rev/skip/filter)", m)
    ext = calls(m, "Extend<reader::reader_cursor::ReaderCursor<R>>>::extend")
    ok = len(ext) == 1 and col and any(x.k == "call" and x.x.get("site") == col[0][0] for x in m.arg_exprs(ext[0][0])[1].walk())
    ck.ob(R, "merger-extended-with-collected", ok, "the merger is extended with the collected sources, in order", m)
    bl = calls(m, "Merger::<R, MF>::builder")
    ck.ob(R, "merge-chunks-uses-own-merge-fn", len(bl) == 1 and is_self_field(m.arg_exprs(bl[0][0])[0], "merge_function"), "merge_chunks merges with the sorter's merge function", m)
    e = F.body(A("sorter_extract"))
    col = calls(e, "Iterator::collect")
    ok = len(col) == 1
    if ok:
        x = e.arg_exprs(col[0][0])[0]
        chain = [y.x["path"].rsplit("::", 1)[-1] for y in x.walk() if y.k == "call"]
        ok = set(chain) <= {"map", "into_iter"} and any(y.k == "field" and y.x["name"] == "chunks" for y in x.walk())
    ck.ob(R, "final-sources-in-vector-order", ok, "the final cursors are chunks.into_iter().map(open).collect() — vector order", e)


def r5_reopen(ck, F, R="C07-R5"):
    n = 0
    for p in (A("sorter_merge_chunks"), A("sorter_extract")):
        for c in F.closures_of(p):
            rn = calls(c, A("reader_new"))
            if not rn:
                continue
            n += 1
            sk = calls(c, "Seek::seek")
            ok = len(sk) == 1 and len(rn) == 1 and c.dominates(sk[0][0], rn[0][0])
            if ok:
                a = c.arg_exprs(sk[0][0])
                pos = a[1].strip()
                ok = pos.k == "agg" and pos.x.get("variant") == "Start" and const_val(pos.a[0]) == 0 and a[0].ident() == c.arg_exprs(rn[0][0])[0].ident() and len(_q(c, sk[0][0])) == 1
            ck.ob(R, f"rewind-before-open/{p.split('::')[-1]}", ok, "chunk.seek(SeekFrom::Start(0))? dominates Reader::new(chunk) on the same chunk", c)
            from .errflow import propagated, err_chain
            ic = calls(c, "reader::Reader::<R>::into_cursor")
            okc = len(ic) == 1 and propagated(F, c, rn[0][0]) and propagated(F, c, ic[0][0]) and err_chain(c, rn[0][0]) in ([], ["convert_merge_error"], None)
            # (the error is handed on as it is, or converted here; when the opener returns the merge-free error type
            # the conversion its caller needs is forced by the types)
            ck.ob(R, f"open-into-cursor/{p.split('::')[-1]}", okc, "Reader::new(chunk) then into_cursor, errors converted and propagated: an unreadable chunk is an error, not a skipped source", c)
        # ... and the per-chunk results are gathered by `collect::<Result<_, _>>()` (first error wins) whose result is
        # propagated — not flattened / filtered, which would skip the chunks that failed to open
        pb = F.body(p)
        col = [(s_, t_) for s_, c_, t_ in calls(pb, "Iterator::collect")]
        okr = len(col) == 1 and col[0][1]["dest"]["ty"].startswith("std::result::Result<")
        chain = []
        if okr:
            x = pb.arg_exprs(col[0][0])[0]
            chain = [y.x["path"].rsplit("::", 1)[-1] for y in x.walk() if y.k == "call" and ("Iterator::" in y.x["path"] or "::drain" in y.x["path"] or "::into_iter" in y.x["path"])]
            okr = set(chain) <= {"map", "drain", "into_iter"} and "map" in chain and propagated(F, pb, col[0][0])
        ck.ob(R, f"opener-results-collected/{p.split('::')[-1]}", okr, f"the chunks are reopened by {chain} gathered into one Result that is propagated (a chunk that cannot be reopened fails the call)", pb)
    ck.exact(R, "chunk reopen sites", n, 2, F.config)
    for p in (A("sorter_write_chunk"), A("sorter_merge_chunks")):
        b = F.body(p)
        fl = calls(b, A("count_flush"), "Write::flush")
        push = [s for s, c, t in calls(b, "Vec::<T, A>::push") if is_self_field(b.arg_exprs(s)[0], "chunks")]
        ii = calls(b, A("count_into_inner"))
        ok = len(fl) == 1 and len(push) == 1 and len(ii) == 1 and b.dominates(fl[0][0], push[0]) and b.dominates(ii[0][0], push[0]) and len(_q(b, fl[0][0])) == 1 and len(_q(b, ii[0][0])) == 1
        ck.ob(R, f"flushed-before-pushed/{p.split('::')[-1]}", ok, "the chunk is flushed (flush()? and into_inner()?) before it joins the chunk vector", b)


SORT_FNS = ("sort_by_key", "sort_unstable_by_key", "par_sort_by_key", "par_sort_unstable_by_key", "sort_by", "sort_unstable_by", "sort", "sort_unstable",
            "par_sort_by", "par_sort_unstable_by", "par_sort", "par_sort_unstable", "sort_by_cached_key", "par_sort_by_cached_key")


def r6_sort_table(ck, F):
    R = "C07-R6"
    want = {"sorter::Entries::sort_by_key": {"Stable": "sort_by_key", "Unstable": "sort_unstable_by_key"}}
    par = F.body(A("entries_par_sort"))
    if calls(par, A("entries_sort")):
        cs = calls(par, A("entries_sort"))
        a = par.arg_exprs(cs[0][0])
        ck.ob(R, "par-sort-delegates", len(cs) == 1 and is_arg(a[0], "self") and is_arg(a[1], "algorithm"), "without rayon, par_sort_by_key delegates to sort_by_key with the same algorithm", par)
    else:
        want["sorter::Entries::par_sort_by_key"] = {"Stable": "par_sort_by_key", "Unstable": "par_sort_unstable_by_key"}
    for path, table in want.items():
        b = F.body(path)
        sw = None
        for bb in sorted(b.normal_blocks()):
            if b.term(bb)["t"] == "switch":
                e, enum, labels, oth = switch_on(b, bb)
                if e.k == "discr" and is_arg(e.a[0], "algorithm"):
                    sw = (bb, labels)
        if not ck.ob(R, f"switch-on-algorithm/{path.split('::')[-1]}", sw is not None and set(sw[1]) == {"Stable", "Unstable"}, "matches on SortAlgorithm", b):
            continue
        bb, labels = sw
        ndirect = 0
        for var, fn in table.items():
            reg = arm_region(b, bb, labels[var])
            got = []
            for s, st in b.sites():
                if s.i is not None and s.bb in reg and st["s"] == "assign" and st["rv"]["rv"] == "cast" and "ReifyFnPointer" in st["rv"]["ck"]:
                    op = st["rv"]["op"]
                    if op["k"] == "const" and "fn" in op:
                        got.append(op["fn"]["path"].rsplit("::", 1)[-1])
            # ... or the arm calls the sort function itself
            direct = [s for s, c, t in b.calls() if s.bb in reg and c is not None and not c.get("local") and callee_name(c).rsplit("::", 1)[-1] in SORT_FNS]
            got += [callee_name(callee_of(b.at(s))).rsplit("::", 1)[-1] for s in direct]
            ndirect += len(direct)
            ck.ob(R, f"sort-arm/{path.split('::')[-1]}/{var}", got == [fn], f"{var} -> {got} (expected [{fn}])", b)
        # the reified function is called on the bounds with a key closure reading the tail
        ind = [(s, t) for s, c, t in b.calls() if c is None]
        alls = [s for s, c, t in b.calls() if c is not None and not c.get("local") and callee_name(c).rsplit("::", 1)[-1] in SORT_FNS]
        ck.ob(R, f"sort-invoked/{path.split('::')[-1]}", (len(ind) == 1 and not alls) or (not ind and ndirect == 2 and len(alls) == 2), "the selected sort function is invoked exactly once", b)
    w = F.body(A("sorter_write_chunk"))
    sw = None
    for bb in sorted(w.normal_blocks()):
        t = w.term(bb)
        if t["t"] == "switch" and is_self_field(w.expr_of_operand(t["discr"], Site(bb, None)), "sort_in_parallel"):
            zero = [tb for v, tb in t["arms"] if int(v) == 0][0]
            sw = (bb, t["otherwise"], zero)
    if ck.ob(R, "parallel-switch", sw is not None, "write_chunk branches on self.sort_in_parallel", w):
        bb, tt, ff = sw
        ps = calls(w, A("entries_par_sort"))
        ss = calls(w, A("entries_sort"))
        ok = len(ps) == 1 and len(ss) == 1 and w.dominates(tt, ps[0][0].bb) and w.dominates(ff, ss[0][0].bb) and all(is_self_field(w.arg_exprs(s)[1], "sort_algorithm") for s, c, t in ps + ss)
        ck.ob(R, "parallel-table", ok, "true -> par_sort_by_key(self.sort_algorithm), false -> sort_by_key(self.sort_algorithm)", w)


def r7_group(ck, F, R="C07-R7"):
    b = F.body(A("sorter_write_chunk"))
    cmps = byte_comparisons(b)
    ck.exact(R, "key comparisons in write_chunk", len(cmps), 1, F.config)
    merges = sorted(calls(b, "MergeFunction::merge"), key=lambda x: x[0].key())
    ins = sorted(calls(b, A("writer_insert")), key=lambda x: x[0].key())
    ck.exact(R, "merge call sites in write_chunk", len(merges), 2, F.config)
    if len(cmps) != 1 or len(merges) != 2 or len(ins) != 2:
        return
    c = cmps[0]
    nxt = calls(b, "Iterator>::next")
    x, y = c["a"], c["b"]
    cur_side = [z for z in (x, y) if any(e.k == "call" and e.x["path"].endswith("Option::<T>::as_mut") for e in z.walk())]
    new_side = [z for z in (x, y) if z not in cur_side]
    ok = c["op"] == "!=" and len(cur_side) == 1 and len(new_side) == 1 and nxt and any(e.k == "call" and e.x.get("site") == nxt[0][0] for e in new_side[0].walk())
    ck.ob(R, "group-boundary-relation", ok, f"a group is closed when `current key {c['op']} next key` (whole keys)", b, c["site"])
    ed = bool_edges(b, value_site=c["site"])
    if not ck.ob(R, "group-boundary-branches", ed is not None and b.in_loop(c["site"].bb), "the comparison steers a branch inside the entries loop", b, c["site"]):
        return
    sw, t_t, f_t = ed
    in_loop = [m for m in merges if b.in_loop(m[0].bb)]
    after = [m for m in merges if not b.in_loop(m[0].bb)]
    ck.ob(R, "one-merge-per-closed-group", len(in_loop) == 1 and b.dominates(t_t, in_loop[0][0].bb) and not b.dominates(f_t, in_loop[0][0].bb), "inside the loop merge is called only on the `different key` edge", b)
    ck.ob(R, "trailing-group-merged", len(after) == 1, "the last group is merged after the loop", b)
    li = [i for i in ins if b.in_loop(i[0].bb)]
    ai = [i for i in ins if not b.in_loop(i[0].bb)]
    if in_loop and li:
        m = in_loop[0][0]
        a = b.arg_exprs(li[0][0])
        okk = a[1].ident() == b.arg_exprs(m)[1].ident() or any(e.k == "call" and e.x["path"].endswith("Option::<T>::as_mut") for e in a[1].walk())
        okv = any(e.k == "call" and e.x.get("site") == m for e in a[2].walk())
        ck.ob(R, "closed-group-written", b.dominates(m, li[0][0]) and okk and okv, "writer.insert(current key, merged value) follows the merge of the closed group", b, li[0][0])
        clr = [s for s, c_, t in calls(b, "Vec::<T, A>::clear") if b.dominates(li[0][0], s) and b.in_loop(s.bb)]
        ck.ob(R, "values-cleared-after-group", len(clr) == 1 and b.dominates(t_t, clr[0].bb), "the value list is cleared after the group is written", b)
        # key replaced
        st = [s for s, s_ in b.sites() if s.i is not None and s_["s"] == "assign" and s_["pl"]["p"] and s_["pl"]["p"][0] == "*" and b.dominates(t_t, s.bb) and b.in_loop(s.bb) and clr and b.dominates(clr[0], s) and "[u8]" in s_["pl"]["ty"]]
        ck.ob(R, "key-replaced", len(st) >= 1, "the current key is replaced by the new key on the `different key` edge", b)
    push = [s for s, c_, t in calls(b, "Vec::<T, A>::push") if b.in_loop(s.bb) and not is_self_field(b.arg_exprs(s)[0], "chunks")]
    okp = len(push) == 1 and not b.dominates(t_t, push[0].bb) and not b.dominates(f_t, push[0].bb) and push[0].bb in b.reachable_from(t_t) and push[0].bb in b.reachable_from(f_t)
    if okp:
        v = b.arg_exprs(push[0])[1]
        okp = any(e.k == "call" and e.x.get("site") == nxt[0][0] for e in v.walk())
    ck.ob(R, "value-pushed-on-both-arms", okp, "the value of every entry is pushed to the value list whether or not a group was closed", b)
    if after and ai:
        a = b.arg_exprs(ai[0][0])
        okv = any(e.k == "call" and e.x.get("site") == after[0][0] for e in a[2].walk())
        ck.ob(R, "trailing-group-written", b.dominates(after[0][0], ai[0][0]) and okv, "the trailing group is written after the loop", b, ai[0][0])
    for m in merges:
        a = b.arg_exprs(m[0])
        ck.ob(R, f"merge-fn/{b.loc(m[0])}", is_self_field(a[0], "merge_function"), "the sorter's own merge function is used", b, m[0], nontrivial=False)
        from .errflow import err_chain, propagated
        ch = err_chain(b, m[0])
        ok = ch == ["Merge"] and propagated(F, b, m[0])
        ck.ob(R, f"merge-error-wrapped/{b.loc(m[0])}", ok, f"a merge error is wrapped as Error::Merge(e) and propagated (conversions applied: {ch})", b, m[0])
    # first entry starts a group with its value
    somes = []
    for s, st in b.sites():
        if s.i is not None and st["s"] == "assign" and st["rv"]["rv"] == "agg" and st["rv"].get("variant") == "Some" and b.in_loop(s.bb):
            e = b._expr_of_def((s, "assign", st["rv"]))
            p = e.a[0].strip() if e.a else None
            # the group being built: a pair / small struct one part of which is the key of the entry just read
            if p is not None and p.k == "agg" and len(p.a) >= 2 and nxt and any(any(w.k == "call" and w.x.get("site") == nxt[0][0] for w in o.walk()) for o in p.a):
                somes.append(s)
    ck.ob(R, "first-entry-starts-group", len(somes) >= 1, "the first entry initialises the current group (its key, a value list)", b)


SETTERS = [("compression_type", "chunk_compression_type"), ("compression_level", "chunk_compression_level"), ("index_key_interval", "index_key_interval"), ("block_size", "block_size"), ("index_levels", "index_levels")]


def r8_config(ck, F, R="C07-R8", only=None):
    if only is None:
        r6_plumb(ck, F, R)
    for p in (A("sorter_write_chunk"), A("sorter_merge_chunks")):
        b = F.body(p)
        for setter, fld in SETTERS:
            if only is not None and setter not in only:
                continue
            cs = calls(b, "writer::WriterBuilder::" + setter)
            ok = len(cs) == 1
            if ok:
                a = b.arg_exprs(cs[0][0])
                pay = unwrap_payload(a[1], "Some")
                ok = pay is not None and is_self_field(pay, fld)
                # guarded by the same Option being Some
                g = False
                for bb in sorted(b.normal_blocks()):
                    if b.term(bb)["t"] == "switch":
                        e, enum, labels, oth = switch_on(b, bb)
                        if e.k == "discr" and is_self_field(e.a[0], fld) and "Some" in labels and b.dominates(labels["Some"], cs[0][0].bb):
                            g = True
                ok = ok and g
                # ... and by nothing else: every path to the writer's construction that does not apply the
                # setting goes through the None arm of that same Option
                bl_ = calls(b, A("writer_build"))
                if ok and bl_:
                    banned = set()
                    for bb in sorted(b.normal_blocks()):
                        if b.term(bb)["t"] == "switch":
                            e, enum, labels, oth = switch_on(b, bb)
                            if e.k == "discr" and (is_self_field(e.a[0], fld) or (setter == "compression_level" and is_self_field(e.a[0], "chunk_compression_type"))):
                                # (a level without a codec means nothing: it may be applied only under `Some(codec)`)
                                for lab, tb in labels.items():
                                    if lab != "Some":
                                        banned.add((bb, tb))
                    reach = reachable_without(b, banned_edges=banned, banned_blocks={cs[0][0].bb})
                    ok = bl_[0][0].bb not in reach
            ck.ob(R, f"chunk-writer-setting/{p.split('::')[-1]}/{setter}", ok, f"if let Some(x) = self.{fld} {{ writer_builder.{setter}(x) }} — applied whenever the setting is Some, whatever the other settings", b)
        bl = calls(b, A("writer_build"))
        ck.ob(R, f"chunk-writer-built-once/{p.split('::')[-1]}", len(bl) == 1 and any(x.k == "call" and x.x["path"].endswith("ChunkCreator::create") for x in b.arg_exprs(bl[0][0])[1].walk()), "the writer is built over the freshly created chunk", b)
    if only is not None:
        return
    # setters of the builder store their argument
    for fld, wrap in (("chunk_compression_type", True), ("chunk_compression_level", True), ("index_key_interval", True), ("block_size", True), ("index_levels", True), ("allow_realloc", False), ("sort_algorithm", False)):
        st = field_stores(F, A("sorter_builder"), fld)
        ck.exact(R, f"stores to SorterBuilder.{fld}", len(st), 1, F.config)
        for b, site, s in st:
            e = b._expr_of_def((site, "assign", s["rv"]))
            inner = e.a[0] if (wrap and e.k == "agg" and e.x.get("variant") == "Some") else e
            ck.ob(R, f"builder-setter/{fld}", inner.strip().k == "arg" and b.path.endswith("::" + fld), f"SorterBuilder.{fld} := {e.show()} in {b.path.split('::')[-1]}", b, site)


def r9_layout(ck, F):
    """the bytes Entries::insert writes are the bytes iter() and the sort key read"""
    R = "C07-R9"
    ei = F.body(A("entries_insert"))
    ag = [(s, rv) for b, s, rv in aggregates(F, A("entry_bound")) if b.path == ei.path]
    ck.exact(R, "EntryBound constructions in Entries::insert", len(ag), 1, F.config)
    for s, rv in ag:
        ks = agg_field_expr(ei, s, rv, "key_start")
        kl = strip_casts(agg_field_expr(ei, s, rv, "key_length"))
        dl = strip_casts(agg_field_expr(ei, s, rv, "data_length"))
        ok = is_self_field(ks, "entries_len") and is_call(kl, "::len") and is_arg(kl.strip().a[0], "key") and is_call(dl, "::len") and is_arg(dl.strip().a[0], "data")
        ck.ob(R, "bound-records-entry", ok, f"bound = {{ key_start: {ks.show()}, key_length: {kl.show()}, data_length: {dl.show()} }}", ei, s)
    from . import fmt
    cps = calls(ei, "::copy_from_slice")
    ck.exact(R, "copies into the buffer in Entries::insert", len(cps), 2, F.config)

    def isym(x):
        if x.k == "call" and x.x["path"].endswith("::len") and x.a:
            if is_self_field(x.a[0], "buffer"):
                return "len"
            y = x.a[0].strip()
            if y.k == "arg" and y.x["name"] in ("key", "data"):
                return "k" if y.x["name"] == "key" else "d"
        if is_self_field(x, "entries_len"):
            return "e"
        return None
    shapes = {}
    for s_, c, t in cps:
        a = ei.arg_exprs(s_)
        src = a[1].strip()
        reg = fmt.slice_region(a[0], isym, lambda x: is_self_field(x, "buffer"))
        shapes[src.x.get("name") if src.k == "arg" else "?"] = reg
    # regions of the buffer, over len = buffer.len(), e = entries_len (already advanced), k / d = the two lengths
    want = {"key": ({"len": 1, "e": -1}, {"len": 1, "e": -1, "k": 1}), "data": ({"len": 1, "e": -1, "k": 1}, {"len": 1, "e": -1, "k": 1, "d": 1})}
    show = {n: ((fmt.lin_str(r[0]), fmt.lin_str(r[1])) if r else "?") for n, r in shapes.items()}
    ck.ob(R, "insert-layout", shapes == want, f"insert copies {show} (expected key at buffer[len-entries_len .. +key.len()], data right after it)", ei)
    # entries_len is advanced by key.len()+data.len() before the copy
    st = [(site, s_) for site, s_ in ei.sites() if site.i is not None and s_["s"] == "assign" and s_["pl"]["p"] and s_["pl"]["p"][-1].get("name") == "entries_len"]
    ok = len(st) == 1 and cps and all(ei.dominates(st[0][0], s) for s, c, t in cps)
    if ok:
        e = ei._expr_of_def((st[0][0], "assign", st[0][1]["rv"]))
        ok = fmt.linform(e, isym) == {"e": 1, "k": 1, "d": 1}
    ck.ob(R, "entries-len-advanced-first", ok, "entries_len += key.len() + data.len() before the bytes are copied", ei)
    realloc_layout(ck, F, R)
    # readers
    rd = {"iter": (F.closures_of(A("entries_iter")), 4), "sort_by_key": (F.closures_of(A("entries_sort")), 2)}
    if F.has_body(A("entries_par_sort")) and not calls(F.body(A("entries_par_sort")), A("entries_sort")):
        rd["par_sort_by_key"] = (F.closures_of(A("entries_par_sort")), 2)
    for name, (cl, nidx) in rd.items():
        if not ck.ob(R, f"reader-closure/{name}", len(cl) == 1, f"{name} has one key/entry closure", config=F.config, nontrivial=False):
            continue
        c = cl[0]
        # every slice the closure takes is a region of the tail it captured, over len = tail.len() and the bound's
        # fields ks = key_start, kl = key_length, dl = data_length
        idx = [c.arg_exprs(s_) for s_, cc, t in calls(c, "Index<I> for [T]>::index")]
        base = None
        for a in idx:
            x = a[0].strip()
            while x.k == "call" and x.x["path"].endswith("::index"):
                x = x.a[0].strip()
            base = base or x.ident()

        def rsym(x, _base=base):
            if x.k == "call" and x.x["path"].endswith("::len") and x.a and x.a[0].strip().ident() == _base:
                return "len"
            if x.k == "field" and x.x.get("name") in ("key_start", "key_length", "data_length"):
                return {"key_start": "ks", "key_length": "kl", "data_length": "dl"}[x.x["name"]]
            return None
        regs = []
        for s_, cc, t in calls(c, "Index<I> for [T]>::index"):
            e_ = Expr("call", c.arg_exprs(s_), path="core::slice::index::<impl std::ops::Index<I> for [T]>::index", site=s_)
            r_ = fmt.slice_region(e_, rsym, lambda x, _b=base: x.strip().ident() == _b)
            if r_ is not None:
                regs.append(r_)
        # ... and the two halves of every `split_at` of a region of the tail
        for s_, cc, t in calls(c, "::split_at"):
            if s_.i is not None:
                continue
            sp_ = Expr("call", c.arg_exprs(s_), path="core::slice::<impl [T]>::split_at", site=s_)
            for half in (0, 1):
                r_ = fmt.slice_region(Expr("field", [sp_], name=str(half), idx=half, adt="", ty=""), rsym, lambda x, _b=base: x.strip().ident() == _b)
                if r_ is not None:
                    regs.append(r_)
        key = ({"len": 1, "ks": -1}, {"len": 1, "ks": -1, "kl": 1})
        dat = ({"len": 1, "ks": -1, "kl": 1}, {"len": 1, "ks": -1, "kl": 1, "dl": 1})
        ok = key in regs and (nidx == 2 or dat in regs)
        show = [(fmt.lin_str(a), fmt.lin_str(b_)) for a, b_ in regs]
        ck.ob(R, f"reader-layout/{name}", ok, f"{name} reads the regions {show} of the tail (expected key at [len - key_start .. + key_length]" + (", data right after it" if nidx == 4 else "") + ")", c)
    # the tail handed to the closures starts right after the bounds: split_at(bounds_count * size_of::<EntryBound>())
    sz = F.adts[A("entry_bound")].get("size")
    for p in (A("entries_iter"), A("entries_sort")):
        b = F.body(p)
        sp = calls(b, "::split_at", "::split_at_mut")
        ok = len(sp) == 1
        if ok:
            c_ = checked(b.arg_exprs(sp[0][0])[1])
            ok = bool(c_ and c_[0] == "Mul" and is_self_field(c_[1], "bounds_count") and const_val(c_[2]) == sz) and is_self_field(b.arg_exprs(sp[0][0])[0], "buffer")
        ck.ob(R, f"bounds-tail-split/{p.split('::')[-1]}", ok, f"buffer split at bounds_count * {sz} (size of EntryBound)", b)


def realloc_layout(ck, F, R):
    """reallocate_buffer keeps the two-ended layout: the bounds stay at the front, the entry bytes stay at the back —
    of the *new* buffer (key_start is a distance from the buffer's end: C07-R9 reader-layout)"""
    from . import fmt
    rb = F.body(A("entries_realloc"))
    sz = F.adts[A("entry_bound")].get("size")
    news = [s for s, c, t in calls(rb, A("aligned_new"))]
    cps = calls(rb, "::copy_from_slice")
    ck.exact(R, "copies in reallocate_buffer", len(cps), 2, F.config)
    if len(news) != 1 or len(cps) != 2:
        return
    is_new = lambda x: x.strip().k == "call" and x.strip().x.get("site") == news[0]
    is_old = lambda x: is_self_field(x, "buffer")

    def symf(root):
        def sym(x):
            if x.k == "call" and x.x["path"].endswith("::len") and x.a and root(x.a[0]):
                return "len"
            if x.k == "call" and x.x["path"].endswith("::len") and x.a and (is_new(x.a[0]) or is_old(x.a[0])):
                return "otherlen"
            if is_self_field(x, "entries_len"):
                return "e"
            if is_self_field(x, "bounds_count"):
                return "c"
            return None
        return sym
    got = []
    for s_, c, t in cps:
        a_ = rb.arg_exprs(s_)
        d = fmt.slice_region(a_[0], symf(is_new), is_new)
        o = fmt.slice_region(a_[1], symf(is_old), is_old)
        got.append((d, o))
    front = ({}, {"c": sz})
    back = ({"len": 1, "e": -1}, {"len": 1})
    okf = any(d == front and o == front for d, o in got)
    okb = any(d == back and o == back for d, o in got)
    show = [((fmt.lin_str(d[0]), fmt.lin_str(d[1])) if d else "?", (fmt.lin_str(o[0]), fmt.lin_str(o[1])) if o else "?") for d, o in got]
    ck.ob(R, "realloc-layout/bounds-front", okf, f"bounds: new[0 .. {sz}*bounds_count] <- old[0 .. {sz}*bounds_count] (copies, as (dst, src) regions over each buffer's own len: {show})", rb)
    ck.ob(R, "realloc-layout/entries-back", okb, f"entry bytes: new[len - entries_len ..] <- old[len - entries_len ..], each relative to its own buffer's end (copies: {show})", rb)


def _plain_arith(s):
    """`(a AddWithOverflow b).0` -> `(a Add b)`: with overflow checks compiled out (config rel) MIR has the plain
    operator, and the layout facts compared here are the same either way"""
    changed = True
    while changed:
        changed = False
        for m in ("AddWithOverflow", "SubWithOverflow", "MulWithOverflow"):
            i = s.find(" " + m + " ")
            if i < 0:
                continue
            # the enclosing parenthesis of this operator
            depth, lo = 0, None
            for j in range(i, -1, -1):
                if s[j] == ")":
                    depth += 1
                elif s[j] == "(":
                    if depth == 0:
                        lo = j
                        break
                    depth -= 1
            depth, hi = 0, None
            for j in range(i, len(s)):
                if s[j] == "(":
                    depth += 1
                elif s[j] == ")":
                    if depth == 0:
                        hi = j
                        break
                    depth -= 1
            if lo is None or hi is None:
                return s
            tail = s[hi + 1:]
            if tail.startswith(".0"):
                tail = tail[2:]
            s = s[:i] + " " + m[:3] + " " + s[i + len(m) + 2:hi + 1] + tail
            changed = True
    return s


def _norm(s):
    import re
    s = _plain_arith(s)
    s = re.sub(r"::deref(_mut)?\(([^()]*)\)", r"\2", s)
    s = re.sub(r"\bindex::", "", s)
    return s.replace(" ", "")
