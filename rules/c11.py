"""C11 — results and emitted bytes do not depend on how I/O calls are split or interrupted: the
dependence can only enter through which std I/O primitives are used and how byte counts are
accounted — both visible in code shape."""
from .common import *
from . import fmt

PID = "C11"
META = {
    "explanation": "Static who-may-call and dataflow analysis on the MIR of the current tree (all feature sets): the only raw io::Write::write in library code is the counting delegation inside CountWrite::write, whose addend to the byte counter is the Ok payload of the inner write (not the buffer length) and which does not override write_all; every other sink write is write_all or a byteorder write_* (which are write_all); no raw io::Read::read anywhere — sources are read with read_exact (byteorder) or read_to_end on a `take(block_len)`-bounded reader; every offset recorded in an index entry or the trailer comes from CountWrite::count(); no hash-order / time / randomness / address-as-value primitives in library code. Given std's documented write_all/read_exact/read_to_end contracts (retry on Interrupted, loop over partial transfers), the emitted stream and every read result are then functions of the logical data alone. Fixtures prove the zero-expected rules fire.",
    "assumptions": ["std::io::Write::write_all, Read::read_exact, Read::read_to_end, Read::take honour their documented contracts", "byteorder's read_*/write_* are read_exact/write_all", "the codec crates read their input with the same primitives"],
}

LIB_PREFIXES = ("writer::", "block_writer::", "block::", "reader::", "metadata::", "merger::", "sorter::", "compression::", "count_write::", "varint::", "error::", "<writer::", "<block", "<reader::", "<merger::", "<sorter::", "<count_write::", "<error::", "<compression::", "<metadata::")


def run(ck):
    for cfg in ck.configs(quick=("default", "all", "none"), thorough=("default", "all", "none", "rel")):
        F = ck.facts(cfg)
        ck.guard("C11-R1", r1_write_all, ck, F)
        ck.guard("C11-R2", r2_count_accepted, ck, F)
        ck.guard("C11-R3", r3_read_exact, ck, F)
        ck.guard("C11-R4", r4_bounded_body, ck, F)
        ck.guard("C11-R5", r5_determinism, ck, F)
        ck.guard("C11-R6", r6_offsets_from_count, ck, F)
        ck.guard("C11-R7", r7_decoders_behind_retry, ck, F)
    from . import fixtures
    ck.guard("C11-R1", fixtures.run, ck, "C11")
    ck.trusted += ["std::io contracts (write_all, read_exact, read_to_end, take)", "byteorder", "codec crates"]


def raw_io_calls(F, which):
    """calls to io::Write::write / io::Read::read (the raw, partial-transfer primitives) in library code"""
    out = []
    for b in F.user_bodies():
        for s, c, t in b.calls():
            if c is None:
                continue
            n = c["path"]
            if which == "write" and n == "std::io::Write::write":
                out.append((b, s, c))
            if which == "read" and n == "std::io::Read::read":
                out.append((b, s, c))
            if which == "vectored" and n in ("std::io::Write::write_vectored", "std::io::Read::read_vectored", "std::io::Read::read_buf", "std::io::Read::read_buf_exact"):
                out.append((b, s, c))
    return out


def r1_write_all(ck, F, R="C11-R1"):
    raws = raw_io_calls(F, "write")
    where = sorted({b.path for b, s, c in raws})
    ck.ob(R, "raw-write-only-in-counter", where == [A("count_write")], f"io::Write::write is called only in {where} (expected only CountWrite's delegation: std's write_all loop absorbs partial writes and Interrupted)", config=F.config)
    vec = raw_io_calls(F, "vectored")
    ck.ob(R, "no-vectored-or-buf-io", not vec, f"no write_vectored / read_buf style primitives ({[(b.path, callee_name(c)) for b, s, c in vec]})", config=F.config, nontrivial=False)
    # inventory of sink writes
    inv = {}
    for b in F.user_bodies():
        for s, c, t in b.calls():
            if c is None:
                continue
            n = c["path"]
            if n.startswith("byteorder::WriteBytesExt::") or n in ("std::io::Write::write_all", "std::io::Write::write", "std::io::Write::flush", "std::io::copy"):
                inv.setdefault(n, []).append(b.path)
    ck.extra.setdefault("sink_write_inventory", {})[F.config] = {k: len(v) for k, v in inv.items()}
    ck.floor(R, "write_all / byteorder write sites", sum(len(v) for k, v in inv.items() if k != "std::io::Write::write"), 10, F.config)


def r2_count_accepted(ck, F, R="C11-R2"):
    b = F.body(A("count_write"))
    st = field_stores(F, A("count_struct"), "count")
    ck.ob(R, "single-counter-writer", [x[0].path for x in st] == [A("count_write")], f"CountWrite.count is written only in {[x[0].path for x in st]}", config=F.config)
    inner = [(s, c, t) for s, c, t in b.calls() if c and c["path"] == "std::io::Write::write"]
    ck.exact(R, "inner write calls in CountWrite::write", len(inner), 1, F.config)
    for bb, site, s in st:
        e = bb._expr_of_def((site, "assign", s["rv"]))
        c_ = checked(e)
        ok = False
        addend = None
        if c_ and c_[0] == "Add" and is_self_field(c_[1], "count"):
            addend = strip_casts(c_[2])
            ok = inner and addend.strip().k == "call" and addend.strip().x.get("site") == inner[0][0]
        uses_len = addend is not None and any(x.k == "len" or (x.k == "call" and x.x["path"].endswith("::len")) for x in addend.walk())
        ck.ob(R, "addend-is-accepted-bytes", bool(ok) and not uses_len, f"count += {addend.show() if addend is not None else e.show()} (must be the Ok payload of inner.write(buf), never buf.len())", bb, site)
    if inner:
        a = b.arg_exprs(inner[0][0])
        ck.ob(R, "delegates-same-buffer", is_self_field(a[0], "inner") and is_arg(a[1], "buf"), "inner.write(buf) receives the caller's buffer unchanged", b, inner[0][0])
        rets = [x for x in (b.expr_at_return().a if b.expr_at_return().k == "phi" else [b.expr_at_return()]) if x.k == "agg" and x.x.get("variant") == "Ok"]
        ok = len(rets) == 1 and rets[0].a[0].strip().k == "call" and rets[0].a[0].strip().x.get("site") == inner[0][0]
        ck.ob(R, "returns-accepted-bytes", ok, "CountWrite::write returns exactly what the inner sink accepted (write_all's retry loop then resumes at the right position)", b)
    # pass-through: every error returned by write / flush is the inner sink's own error of this very
    # call (std's write_all retries Interrupted only if the retry reaches the sink again)
    from .c03 import return_alts
    for p, inner_name in ((A("count_write"), "std::io::Write::write"), (A("count_flush"), "std::io::Write::flush")):
        wb = F.body(p)
        ic = [(s, c, t) for s, c, t in wb.calls() if c and c["path"] == inner_name]
        alts = return_alts(wb)
        bad = []
        for a_ in alts:
            if a_.k == "agg" and a_.x.get("variant") == "Ok":
                continue
            src = [x for x in a_.walk() if x.k == "call" and ic and x.x.get("site") == ic[0][0]]
            if not src:
                bad.append(a_.show()[:80])
        mut = sorted({f for f, lst in __import__("rules.c03", fromlist=["mutated_fields"]).mutated_fields(F, A("count_struct")).items() if any(bb.path == p and st for bb, s_, st in lst)})
        ck.ob(R, f"pass-through/{p.split('::')[-1]}", len(ic) == 1 and not bad and set(mut) <= {"count"}, f"{p.split('::')[-1]}: every non-Ok result is the inner sink's result of this call, and no state other than the counter is touched" + (f" — other results: {bad}" if bad else "") + (f" — extra state written: {mut}" if not set(mut) <= {"count"} else ""), wb)
    imp = [i for i in F.impls if i.get("self_adt") == A("count_struct") and i.get("trait") == "std::io::Write"]
    ck.ob(R, "no-write_all-override", len(imp) == 1 and sorted(imp[0]["items"]) == ["flush", "write"], f"impl Write for CountWrite defines {imp[0]['items'] if imp else '?'} only (write_all / write_vectored are std's defaults running through the counting write)", config=F.config)
    g = F.body(A("count_count"))
    ck.ob(R, "count-getter", is_self_field(g.expr_at_return(), "count"), "count() returns the counter", g, nontrivial=False)
    for bb, s, rv in aggregates(F, A("count_struct")):
        ck.ob(R, "counter-starts-at-zero", const_val(agg_field_expr(bb, s, rv, "count")) == 0, "a new CountWrite starts at 0", bb, s, nontrivial=False)


def retry_adapters(ck, F, R):
    """local types whose io::Read impl is an interruption-retrying pass-through:
         loop { match self.0.read(buf) { Err(e) if e.kind() == Interrupted => continue, r => return r } }
    Returns {adt path: body}.  Each candidate (a local impl of io::Read::read) is checked; the
    obligations are recorded under rule R."""
    out = {}
    for b in F.user_bodies():
        if not (b.path.startswith("<") and b.path.endswith(" as std::io::Read>::read")):
            continue
        adt = b.path[1:].split(" as ")[0].split("<")[0]
        raws = [(s, c) for s, c, t in b.calls() if c and c["path"] == "std::io::Read::read"]
        ok_one = len(raws) == 1
        ok_args = ok_loop = ok_ret = ok_retry = False
        if ok_one:
            s = raws[0][0]
            a = b.arg_exprs(s)
            recv = a[0].strip()
            ok_args = recv.k == "field" and recv.a[0].strip().k == "arg" and recv.a[0].strip().x["i"] == 1 and a[1].strip().k == "arg" and a[1].strip().x["i"] == 2
            ok_loop = b.in_loop(s.bb)
            alts = flat_alts(b.expr_at_return())
            ok_ret = bool(alts) and all(x.strip().k == "call" and x.strip().x.get("site") == s for x in alts)
            # the only way back to the read is an edge taken only when its own error is `Interrupted`: a branch on
            # `e.kind() == Interrupted` itself, or on a flag that is false on the other paths and that test on the Err path
            def is_eq(x):
                x = x.strip()
                if not (x.k == "call" and x.x["path"].endswith(("PartialEq::eq", "PartialEq>::eq")) and len(x.a) == 2):
                    return False
                kinds = [z for z in x.a if any(w.k == "call" and w.x["path"].endswith("io::Error::kind") and any(v.k == "call" and v.x.get("site") == s for v in w.walk()) for w in z.walk())]
                consts = [z for z in x.a if any(w.k == "text" and w.x.get("variant") == "Interrupted" for w in z.walk())]
                return bool(kinds) and bool(consts)
            banned = set()
            for bb in sorted(b.normal_blocks()):
                t = b.term(bb)
                if t["t"] != "switch":
                    continue
                d = b.expr_of_operand(t["discr"], Site(bb, None))
                neg = False
                while d.k == "un" and d.x.get("op") == "Not":
                    neg, d = not neg, d.a[0]
                alts = flat_alts(d)
                if not alts or not any(is_eq(x) for x in alts):
                    continue
                if not all(is_eq(x) or const_val(x) == 0 for x in alts):
                    continue
                zero = [tb for v, tb in t["arms"] if int(v) == 0]
                if not zero:
                    continue
                true_t, false_t = t["otherwise"], zero[0]
                banned.add((bb, false_t if neg else true_t))
            if banned:
                start_bb = b.succs(s.bb)[0] if b.succs(s.bb) else s.bb
                reach = reachable_without(b, banned_edges=banned, start=start_bb)
                ok_retry = s.bb not in reach and any(s.bb in (b.reachable_from(e[1]) | {e[1]}) for e in banned)
        ok = ok_one and ok_args and ok_loop and ok_ret and ok_retry
        ck.ob(R, f"retry-adapter/{adt}", ok, f"{adt}'s io::Read::read is an interruption-retrying pass-through: one inner read on (self.0, buf) [{ok_one and ok_args}], inside a loop [{ok_loop}], every returned value is that call's own result [{ok_ret}], and the loop continues only when its error kind == Interrupted [{ok_retry}]", b)
        if ok:
            out[adt] = b
    return out


def r7_decoders_behind_retry(ck, F, R="C11-R7"):
    """the caller's reader reaches a codec crate's decoder only through the interruption-retrying adapter
    (or not at all: decoding from memory) — a decoder that cannot resume after ErrorKind::Interrupted would
    otherwise make the result depend on where a read was interrupted (found with lz4_flex's FrameDecoder)"""
    ads = retry_adapters(ck, F, R)
    dn = F.body(A("decompress"))
    reader = dn.arg_name(2)

    def behind_adapter(e, under=False):
        """every occurrence of the caller's reader in e lies inside a retry-adapter aggregate"""
        if e.k == "arg" and e.x.get("name") == reader:
            return under
        u = under or (e.k == "agg" and e.x.get("adt") in ads)
        return all(behind_adapter(c, u) for c in e.a)
    # stated on every call of `decompress` that is handed the reader (per-codec helper, or a helper the pinned tree
    # does not have spliced into the arm): the reader appears only inside the adapter, or raw in std's read_to_end
    n = 0
    for s, c, t in dn.calls():
        if c is None:
            continue
        p = callee_name(c)
        args = dn.arg_exprs(s)
        hit = [a_ for a_ in args if a_.mentions_arg(reader)]
        if not hit:
            continue
        st = hit[0].strip()
        if st.k == "agg" and st.x.get("adt") in ads and p.endswith(("::new",)) and not p.startswith(("snap::", "flate2::", "lz4_flex::", "zstd::")):
            continue
        n += 1
        rte = p.endswith("Read::read_to_end")
        wrapped = all(behind_adapter(a_) for a_ in hit)
        if rte and not wrapped and is_arg(args[0], reader):
            wrapped = True      # std's own read_to_end retries Interrupted: the raw reader is fine there
        ck.ob(R, f"reader-behind-retry/{p.rsplit('::', 1)[-1]}", wrapped, f"{p.rsplit('::', 1)[-1]} receives {hit[0].show()[:70]}: the caller's reader wrapped in the retry adapter" + ("" if wrapped else " — NOT: the raw reader is handed to a decoder; an interrupted read can corrupt or abort the decoding"), dn, s)
    ck.floor(R, "reader hand-over sites in decompress", n, 2, F.config)
    callers = sorted({b.path for b in F.user_bodies() for s, c, t in b.calls() if c and callee_name(c).startswith("compression::") and callee_name(c).endswith("_decompress")})
    ck.ob(R, "decoders-only-from-decompress", callers == [A("decompress")], f"the *_decompress helpers are called only from decompress ({callers})", config=F.config)


def r3_read_exact(ck, F, R="C11-R3"):
    raws = raw_io_calls(F, "read")
    ads = retry_adapters(ck, F, R)
    outside = [(b.path, b.loc(s)) for b, s, c in raws if b.path not in {x.path for x in ads.values()}]
    ck.ob(R, "no-raw-read", not outside, f"io::Read::read is called only inside interruption-retrying adapters ({sorted(ads)}); elsewhere: {outside}", config=F.config)
    inv = {}
    for b in F.user_bodies():
        for s, c, t in b.calls():
            if c is None:
                continue
            n = c["path"]
            if n.startswith("byteorder::ReadBytesExt::") or n in ("std::io::Read::read_exact", "std::io::Read::read_to_end", "std::io::Read::read_to_string", "std::io::Read::take", "std::io::Read::bytes", "std::io::Read::chain"):
                inv.setdefault(n, []).append(b.path)
    ck.extra.setdefault("source_read_inventory", {})[F.config] = {k: len(v) for k, v in inv.items()}
    ck.floor(R, "read_exact-style read sites", sum(len(v) for v in inv.values()), 5, F.config)   # 12+ on the pinned tree; the two trailer versions may share their reads
    bad = [k for k in inv if k in ("std::io::Read::bytes",)]
    ck.ob(R, "no-bytewise-iteration", not bad, "no Read::bytes() iteration", config=F.config, nontrivial=False)


def r4_bounded_body(ck, F, R="C11-R4"):
    r = fmt.block_frame_read(F)
    b = F.body(A("block_read_from"))
    ck.ob(R, "body-read-bounded-by-length", tuple(tuple(x) for x in r) == ((8, "BE"), ("take", "len-just-read"), ("decompress", "take", "into self.buffer")), f"Block::read_from: {r} — the body is read from reader.take(block_len) with block_len the u64 just read", b)
    # every decompress helper consumes its `data` only through read_to_end-style full reads or a decoder
    for stem in ("zlib", "snappy_pre_05", "snappy", "zstd", "lz4"):
        p = f"compression::{stem}_decompress"
        if not F.has_body(p):
            continue
        d = F.body(p)
        names = sorted({callee_name(c) for s, c, t in d.calls() if c})
        raw = [n for n in names if n == "std::io::Read::read"]
        ck.ob(R, f"decoder-input/{stem}", not raw, f"{p} reads its input through {[n.rsplit('::', 2)[-2:] for n in names if 'read' in n.lower() or 'decode' in n.lower() or 'Decoder' in n][:4]}", d, nontrivial=False)
    dn = F.body(A("decompress"))
    from .c01 import dispatch_table
    none_arm = {s_ for s_, n_, t_ in dispatch_table(dn, dn.arg_name(1))[2].get("None", [])}
    rt = [s for s, c, t in calls(dn, "Read::read_to_end") if s in none_arm]
    ck.ob(R, "uncompressed-body-read-to-end", len(rt) == 1 and dn.arg_exprs(rt[0])[0].mentions_arg(dn.arg_name(2)) and is_arg(dn.arg_exprs(rt[0])[1], dn.arg_name(3)), "CompressionType::None: data.read_to_end(out) on the bounded reader", dn)


NONDET = ("std::collections::HashMap", "std::collections::HashSet", "std::collections::hash_map", "std::hash::RandomState", "std::time::", "std::thread::current", "std::thread::ThreadId", "rand::", "std::env::", "std::process::id", "getrandom")


def _address_escapes(b, pl):
    """does the integer obtained from a pointer flow anywhere but into tests (comparisons, branch conditions,
    assertions and their panic messages)?  An address that only feeds a `debug_assert!(ptr as usize % align == 0)`
    cannot influence results; one that is stored, returned or handed to another function can."""
    if pl["p"]:
        return True
    from .common import _reads_in
    tainted = {pl["l"]}
    for _ in range(12):
        grew = False
        for site, st in b.sites():
            if site.i is not None:
                if st["s"] != "assign":
                    continue
                acc = []
                _reads_in(st["rv"], acc)
                if not any(l in tainted for l, k in acc):
                    continue
                if st["pl"]["p"] or st["pl"]["l"] == 0 or 1 <= st["pl"]["l"] <= b.arg_count:
                    return True
                if st["pl"]["l"] not in tainted:
                    tainted.add(st["pl"]["l"])
                    grew = True
            else:
                t = st
                if t["t"] == "call":
                    acc = []
                    _reads_in(t["args"], acc)
                    if any(l in tainted for l, k in acc):
                        c = callee_of(t)
                        n = callee_name(c) if c else ""
                        if t.get("target") is None:
                            continue      # a panic path: the message may print it, results cannot depend on it
                        if n.rsplit("::", 1)[-1] in ("eq", "ne", "lt", "le", "gt", "ge", "cmp", "partial_cmp", "is_aligned", "fmt", "new_debug", "new_display", "new_v1", "new_const"):
                            if not t["dest"]["p"] and t["dest"]["l"] not in tainted:
                                tainted.add(t["dest"]["l"])
                                grew = True
                            continue
                        return True
        if not grew:
            break
    return False


def r5_determinism(ck, F, R="C11-R5"):
    hits = []
    for b in F.user_bodies():
        for s, c, t in b.calls():
            if c is None:
                continue
            n = callee_name(c) + " " + c.get("inst", "")
            if any(x in n for x in NONDET):
                hits.append((b.path, callee_name(c)))
        for l in b.locals:
            if any(x in l["ty"] for x in ("HashMap<", "HashSet<", "RandomState", "Instant", "SystemTime")):
                hits.append((b.path, l["ty"]))
    ck.ob(R, "no-nondeterministic-primitives", not hits, f"no hash-order / time / randomness / thread-id primitive in library code" + (f": {sorted(set(hits))[:6]}" if hits else ""), config=F.config)
    # pointer-to-integer casts (addresses as values)
    addr = []
    for b in F.user_bodies():
        if "macros" in b.span:
            continue
        for s, st in b.sites():
            if s.i is not None and st["s"] == "assign" and st["rv"]["rv"] == "cast" and st["rv"]["ck"].startswith("PointerExposeProvenance"):
                if not b.span_at(s).get("macros") and _address_escapes(b, st["pl"]):
                    addr.append((b.path, b.loc(s)))
    ck.ob(R, "no-address-as-value", not addr, f"no pointer-to-integer cast in user code ({addr})", config=F.config, nontrivial=False)


def r6_offsets_from_count(ck, F, R="C11-R6"):
    n = 0
    for p in (A("writer_insert"), A("writer_into_inner")):
        b = F.body(p)
        for s, c, t in calls(b, A("bw_insert")):
            a = b.arg_exprs(s)
            if is_self_field(a[0], "block_writer"):
                continue
            v = strip_casts(a[2]).strip()
            src = v.a[0].strip() if (v.k == "call" and v.a) else v
            comps = src.a if src.k == "phi" else [src]
            ok = all(x.strip().k == "call" and x.strip().x["path"].endswith(A("count_count")) and is_self_field(x.strip().a[0], "writer") for x in comps)
            n += 1
            ck.ob(R, f"index-offset-from-counter/{p.split('::')[-1]}", ok, f"recorded offset = {src.show()[:80]} (CountWrite::count(), never a locally recomputed size)", b, s)
    fin = F.body(A("writer_into_inner"))
    for bb, s, rv in aggregates(F, A("meta_struct")):
        if bb.path != fin.path:
            continue
        e = agg_field_expr(bb, s, rv, "index_block_offset")
        comps = e.a if e.k == "phi" else [e]
        ok = all(x.strip().k == "call" and x.strip().x["path"].endswith(A("count_count")) for x in comps)
        n += 1
        ck.ob(R, "trailer-offset-from-counter", ok, f"trailer root offset = {e.show()[:80]}", bb, s)
    ck.floor(R, "offset recording sites", n, 5, F.config)
