"""engine — obligation bookkeeping, evidence, reports, known findings, exit status."""
import hashlib
import json
import os
import re
import sys
import time
import traceback

from . import factcache
from .mirlib import Facts, AnchorMissing, rel

VERIF = factcache.VERIF


class Obligation:
    def __init__(self, rule, key, ok, msg, where="", config="", nontrivial=True, detail=None):
        self.rule = rule
        self.key = key
        self.ok = ok
        self.msg = msg
        self.where = where
        self.config = config
        self.nontrivial = nontrivial
        self.detail = detail or {}

    def full_key(self, pid):
        return f"{self.rule}/{self.key}"


class Check:
    def __init__(self, pid, tier="quick", repo=None):
        self.pid = pid
        self.tier = tier
        self.repo = repo or os.environ.get("VERIF_REPO", "/repo")
        self.t0 = time.time()
        self.obs = []
        self._facts = {}
        self.configs_used = []
        self.trusted = []
        self.notes = []
        self.exhaustive = False
        self.extra = {}
        self.seed = int(os.environ.get("VERIF_SEED", "0") or 0)

    # ---- facts
    def facts(self, config):
        if config not in self._facts:
            fp = factcache.gen(self.repo, config)
            self._facts[config] = Facts(fp)
            self.configs_used.append(config)
        return self._facts[config]

    def configs(self, quick=("default", "all"), thorough=("default", "all", "none", "rel")):
        return list(thorough if self.tier == "thorough" else quick)

    # ---- obligations
    def ob(self, rule, key, ok, msg, body=None, site=None, config="", nontrivial=True, **detail):
        where = ""
        if body is not None:
            where = body.loc(site) if site is not None else body.loc()
            detail.setdefault("function", body.path)
            if site is not None:
                detail.setdefault("src", body.src_at(site))
        o = Obligation(rule, key, bool(ok), msg, where, config or (body.facts.config if body is not None else ""), nontrivial, detail)
        self.obs.append(o)
        return bool(ok)

    def floor(self, rule, what, count, minimum, config=""):
        """non-vacuity: a rule that matches fewer instances than counted on the pinned tree fails"""
        return self.ob(rule, f"FLOOR/{what}", count >= minimum,
                       f"{what}: matched {count} instance(s), floor {minimum}" + ("" if count >= minimum else " — rule would pass vacuously; anchor drifted or construct removed"),
                       config=config, nontrivial=False, count=count, floor=minimum)

    def exact(self, rule, what, count, expected, config=""):
        return self.ob(rule, f"COUNT/{what}", count == expected,
                       f"{what}: found {count}, expected exactly {expected}", config=config, nontrivial=False, count=count, expected=expected)

    def guard(self, rule, fn, *a, **kw):
        """run a rule function; a missing anchor or an internal error is a failed obligation.  The same rule function
        on the same facts runs once per check, however many bundles name it"""
        import re as _re
        key = (getattr(fn, "__module__", ""), getattr(fn, "__qualname__", repr(fn)), id(a[1]) if len(a) > 1 else None,
               tuple(repr(x) for x in a[2:] if not (isinstance(x, str) and _re.fullmatch(r"C\d\d-R\d+", x))), tuple(sorted((k, repr(v)) for k, v in kw.items())))
        done = self.__dict__.setdefault("_guard_done", set())
        if key in done:
            return None
        done.add(key)
        try:
            return fn(*a, **kw)
        except AnchorMissing as e:
            self.ob(rule, "ANCHOR-MISSING", False, f"anchor missing: {e}", nontrivial=False)
        except factcache.FactError:
            raise
        except Exception as e:  # fail closed, never vacuous
            tb = traceback.format_exc().strip().splitlines()
            self.ob(rule, "RULE-ERROR", False, f"rule could not be evaluated ({type(e).__name__}: {e}) — shape not recognised", nontrivial=False, traceback=tb[-6:])
        return None

    # ---- finishing
    def finish(self, level="other", explanation="", rule_text="", assumptions=(), checker_cmd=None):
        known = load_known(self.pid)
        viol = []
        known_hit = []
        for o in self.obs:
            if o.ok:
                continue
            fk = o.full_key(self.pid)
            if fk in known:
                known_hit.append((o, known[fk]))
            else:
                viol.append(o)
        os.makedirs(os.path.join(VERIF, "evidence"), exist_ok=True)
        rdir = os.path.join(VERIF, "reports", self.pid)
        os.makedirs(rdir, exist_ok=True)
        for f in os.listdir(rdir):
            if f.endswith(".json"):
                os.remove(os.path.join(rdir, f))
        lines = []
        for o, what in known_hit:
            lines.append(f"KNOWN-FINDING: property={self.pid} {o.full_key(self.pid)} {what}")
        seen_keys = set()
        for o in viol:
            fk = o.full_key(self.pid)
            h = re.sub(r"[^A-Za-z0-9_.-]+", "_", fk)[:120] + "-" + hashlib.sha256((fk + o.config).encode()).hexdigest()[:8]
            rp = os.path.join(rdir, h + ".json")
            with open(rp, "w") as fh:
                json.dump({"property": self.pid, "rule": o.rule, "key": o.key, "config": o.config, "where": o.where,
                           "message": o.msg, "detail": o.detail, "repo": self.repo}, fh, indent=1, default=str)
            if (fk, o.config) in seen_keys:
                continue
            seen_keys.add((fk, o.config))
            lines.append(f"VIOLATION property={self.pid} replay={rp}")
            lines.append(f"  rule={o.rule} key={o.key} config={o.config} at {o.where}: {o.msg}")
        total = len(self.obs)
        discharged = sum(1 for o in self.obs if o.ok)
        distinct_nt = len({(o.rule, o.key) for o in self.obs if o.nontrivial})
        samples = []
        per_rule = {}
        for o in self.obs:
            r = per_rule.setdefault(o.rule, {"obligations": 0, "discharged": 0})
            r["obligations"] += 1
            r["discharged"] += int(o.ok)
        seen_rules = set()
        for o in self.obs:
            if o.nontrivial and o.rule not in seen_rules:
                seen_rules.add(o.rule)
                samples.append({"rule": o.rule, "instance": o.key, "config": o.config, "at": o.where, "verdict": "discharged" if o.ok else "VIOLATED", "what": o.msg})
        bodies = {c: len(f.bodies) for c, f in self._facts.items()}
        if not explanation.strip():
            explanation = f"Static analysis of property {self.pid} on the compiler's MIR/HIR of the current working tree: {total} rule instances decided (see per_rule and samples); nothing of the analysed crate is executed."
        cov = {
            "explanation": explanation,
            "evaluations": total,
            "distinct_nontrivial": distinct_nt,
            "rule": rule_text or "one evaluation = one rule instance (obligation) decided on the compiler's MIR/HIR of the current working tree; distinct = distinct (rule, instance-key); non-trivial = required a dataflow, dominance, table or expression computation (floor/count bookkeeping obligations are trivial)",
            "obligations": total,
            "discharged": discharged,
            "samples": samples[:40],
            "per_rule": per_rule,
            "configs_analysed": self.configs_used,
            "bodies_analysed": bodies,
            "repo": self.repo,
            "tree_hash": factcache.tree_hash(self.repo),
            "trusted_base": list(self.trusted),
            "known_findings_hit": [o.full_key(self.pid) for o, _ in known_hit],
            "exhaustive": bool(self.exhaustive),
        }
        if checker_cmd:
            cov["checker_cmd"] = checker_cmd
        cov.update(self.extra)
        ev = {
            "property_id": self.pid,
            "tier": self.tier,
            "seed": self.seed,
            "level": level,
            "coverage": cov,
            "assumptions": list(assumptions),
            "wall_s": round(time.time() - self.t0, 3),
            "violations": len(viol),
        }
        if self.repo == "/repo" or os.environ.get("VERIF_WRITE_EVIDENCE") == "1":
            with open(os.path.join(VERIF, "evidence", self.pid + ".json"), "w") as fh:
                json.dump(ev, fh, indent=1, default=str)
        for l in lines:
            print(l)
        print(f"[{self.pid}] tier={self.tier} configs={','.join(self.configs_used)} obligations={total} discharged={discharged} violations={len(viol)} known={len(known_hit)} wall={ev['wall_s']}s")
        return 1 if viol else 0


def load_known(pid):
    """known: property=<id> key=<rule>/<key> <what fails>  -> {key: what}"""
    out = {}
    p = os.path.join(VERIF, "known_findings.txt")
    if not os.path.exists(p):
        return out
    for line in open(p):
        line = line.strip()
        if not line.startswith("known:"):
            continue
        m = re.match(r"known:\s+property=(\S+)\s+key=(\S+)\s*(.*)$", line)
        if m and m.group(1) == pid:
            out[m.group(2)] = m.group(3)
    return out
