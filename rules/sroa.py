"""sroa — scalar replacement of small private structs held in locals ("operation objects").

A refactoring that turns a long function into `struct Step { state.. }` + one method per step leaves, once the methods
are spliced into the function and the references they took are forwarded (refforward.py), a local of the new struct
type that is built once by an aggregate and then only ever accessed field by field.  Each field is made a local of its
own, so that reaching definitions and expression reconstruction see `offset = offset + n` instead of a partial store
into an opaque struct.  Applied only to locals whose type is a struct the pinned tree does not have, in bodies that
had something spliced into them; a local that is borrowed, moved or passed whole anywhere is left alone."""
import copy


def split(raw, only_paths, new_structs):
    n = 0
    for body in raw["bodies"]:
        if only_paths is not None and body["path"] not in only_paths:
            continue
        n += _split_body(body, new_structs)
    return n


def _base(ty):
    t = ty.strip()
    for pre in ("&mut ", "&"):
        if t.startswith(pre):
            return None
    return t.split("<", 1)[0]


def _split_body(body, new_structs):
    cands = {}
    for l, loc in enumerate(body["locals"]):
        if l <= body["arg_count"]:
            continue
        b = _base(loc.get("ty", ""))
        if b in new_structs:
            cands[l] = new_structs[b]
    if not cands:
        return 0
    bad = set()
    whole_defs = {l: 0 for l in cands}
    parent = {l: l for l in cands}

    def find(x):
        while parent[x] != x:
            parent[x] = parent[parent[x]]
            x = parent[x]
        return x

    def scan(o, ctx):
        """ctx: 'dest' for an assignment target, 'use' otherwise"""
        if isinstance(o, dict):
            if "l" in o and isinstance(o.get("p"), list):
                l = o["l"]
                if l in cands:
                    if not o["p"]:
                        if ctx == "dest-agg":
                            whole_defs[l] += 1
                        else:
                            bad.add(l)
                    elif not (isinstance(o["p"][0], dict) and "name" in o["p"][0] and "index" not in o["p"][0]):
                        bad.add(l)
                for el in o["p"]:
                    if isinstance(el, dict) and el.get("index") in cands:
                        bad.add(el["index"])
                return
            for k, v in o.items():
                if k not in ("span", "fn"):
                    scan(v, "use")
        elif isinstance(o, list):
            for v in o:
                scan(v, "use")
    for blk in body["blocks"]:
        for st in blk["stmts"]:
            if st.get("s") == "assign":
                rv = st["rv"]
                is_agg = rv.get("rv") == "agg" and rv.get("ak") == "adt" and not st["pl"]["p"] and st["pl"]["l"] in cands and (rv.get("adt") or "") == _base(body["locals"][st["pl"]["l"]]["ty"])
                if not st["pl"]["p"] and st["pl"]["l"] in cands and rv.get("rv") == "use" and rv["op"].get("k") in ("move", "copy") and not rv["op"]["pl"]["p"] and rv["op"]["pl"]["l"] in cands:
                    # the object handed on whole to another local of the same type (`Self::new(..)` returning it,
                    # `fn finish(self)` taking it): one object, several names
                    parent[find(st["pl"]["l"])] = find(rv["op"]["pl"]["l"])
                    continue
                scan(st["pl"], "dest-agg" if is_agg else "dest")
                scan(rv, "use")
            else:
                scan(st, "use")
        t = blk["term"]
        if t.get("t") == "drop" and t.get("pl", {}).get("l") in cands and not t["pl"]["p"]:
            continue      # dropping the object whole: nothing a rule looks at
        if t.get("t") == "call":
            scan(t.get("args"), "use")
            scan(t.get("func"), "use")
            scan(t.get("dest"), "dest")
        else:
            scan({k: v for k, v in t.items() if k != "span"}, "use")
    classes = {}
    for l in cands:
        classes.setdefault(find(l), []).append(l)
    todo = []
    for r, members in classes.items():
        if any(m in bad for m in members) or sum(whole_defs[m] for m in members) < 1:
            continue
        if len({_base(body["locals"][m]["ty"]) for m in members}) != 1:
            continue
        todo.append((r, members))
    if not todo:
        return 0
    newl = {}
    for r, members in todo:
        fields = cands[r]
        shared = {}
        for f in fields:
            body["locals"].append({"ty": f["ty"]})
            shared[f["name"]] = len(body["locals"]) - 1
            body["names"].append({"name": f"{f['name']}", "place": {"l": len(body["locals"]) - 1, "p": [], "ty": f["ty"]}})
        for m in members:
            newl[m] = shared

    def rewrite(o):
        if isinstance(o, dict):
            if "l" in o and isinstance(o.get("p"), list):
                if o["l"] in newl and o["p"] and isinstance(o["p"][0], dict) and o["p"][0].get("name") in newl[o["l"]]:
                    o["l"] = newl[o["l"]][o["p"][0]["name"]]
                    o["p"] = o["p"][1:]
                return
            for k, v in o.items():
                if k not in ("span", "fn"):
                    rewrite(v)
        elif isinstance(o, list):
            for v in o:
                rewrite(v)
    for blk in body["blocks"]:
        out = []
        for st in blk["stmts"]:
            if st.get("s") == "assign" and not st["pl"]["p"] and st["pl"]["l"] in newl and st["rv"].get("rv") == "use" and st["rv"]["op"].get("k") in ("move", "copy") and not st["rv"]["op"]["pl"]["p"] and st["rv"]["op"]["pl"]["l"] in newl:
                continue      # one name of the object assigned to another: nothing moves any more
            if st.get("s") == "assign" and not st["pl"]["p"] and st["pl"]["l"] in newl and st["rv"].get("rv") == "agg":
                rv = st["rv"]
                for fname, op in zip(rv.get("fields") or [], rv.get("ops") or []):
                    if fname in newl[st["pl"]["l"]]:
                        op2 = copy.deepcopy(op)
                        rewrite(op2)
                        fl = newl[st["pl"]["l"]][fname]
                        out.append({"s": "assign", "pl": {"l": fl, "p": [], "ty": body["locals"][fl]["ty"]}, "rv": {"rv": "use", "op": op2}, "span": st.get("span")})
                continue
            rewrite(st)
            out.append(st)
        blk["stmts"] = out
        t = blk["term"]
        if t.get("t") == "drop" and t.get("pl", {}).get("l") in newl and not t["pl"]["p"]:
            blk["term"] = {"t": "goto", "target": t["target"], "span": t.get("span")}
        else:
            rewrite(t)
    return len(todo)
