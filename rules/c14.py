"""C14 — lengths 0..2^32-1 framed losslessly: the varint codec's tables satisfy the LEB128-32
conditions, writer and reader use them in the same order, and the narrowing casts are guarded."""
from .common import *
import re
from . import varint, fmt
from .c18 import r5_limit_asserts

PID = "C14"
META = {
    "explanation": "Static analysis of the entry framing on the MIR of the current tree (default, all-features, release-like): the encode table (per guarded branch: threshold interval, byte stores as (shift, or-mask), returned length) and the decode table (OR terms as (byte, mask, shift, required length), scanner flag test) are read off def-use chains and control dependence and must satisfy the exact conditions of a lossless 1..5-byte little-endian base-128 framing of all u32 values: the five guard intervals partition 0..2^32, branch k's upper bound <= 2^(7k), bytes are 7-bit groups least-significant first with the continuation flag on all but the last, decode reassembles the same groups and reports the scanned length; the writer emits key length then value length and the reader decodes them in that order, advancing by the consumed byte counts; every `len as u32` narrowing is dominated by a surviving `len <= u32::MAX` assertion; the scratch buffer holds 5 bytes. The 2^32 values are not enumerated; the rule is shape-bound (a loop rewrite fails closed). The shared file-wellformedness rules (rules/shared.py) and the sorter's buffer arithmetic (shared with C17-R10) are re-run: lengths also pass through the index, the counting sink and the sorter buffer.",
    "assumptions": ["two's-complement shifts and masks on u32/u8 as defined by Rust"],
}


def run(ck):
    for cfg in ck.configs(quick=("default", "all", "rel"), thorough=("default", "all", "rel", "none")):
        F = ck.facts(cfg)
        ck.guard("C14-R1", r123_tables, ck, F)
        ck.guard("C14-R4", r4_use, ck, F)
        ck.guard("C14-R5", r5_limit_asserts, ck, F, "C14-R5")
        ck.guard("C14-R5", r5_entries_guard, ck, F)
        # an entry of any lengths — including a zero-length key — survives the write path: a block holding
        # it is always flushed (the "no key yet" state is not confused with the empty key), and the framed
        # bytes reach the sink whole and in order
        from .c01 import r8_pending_block
        from .c11 import r2_count_accepted, r1_write_all
        ck.guard("C14-R7", r8_pending_block, ck, F, "C14-R7")
        ck.guard("C14-R7", r2_count_accepted, ck, F, "C14-R7")
        ck.guard("C14-R7", r1_write_all, ck, F, "C14-R7")
        from . import shared
        shared.file_wellformed(ck, F, "C14-R7")
        # lengths up to 2^32-1 also pass through the sorter's buffer
        from . import bufarith
        ck.guard("C14-R8", bufarith.run_rule, ck, F, "C14-R8")
    if ck.tier == "thorough":
        ck.guard("C14-R6", r6_xver, ck)
    ck.trusted += ["rustc MIR construction", "integer shift/mask semantics"]


def r123_tables(ck, F):
    enc, n1 = varint.encode_table(F)
    dec, n2 = varint.decode_table(F)
    scan = varint.length_scanner(F)
    eb = F.body(A("varint_encode"))
    db = F.body(A("varint_decode"))
    ck.ob("C14-R1", "encode-shape-recognised", enc is not None and not n1, "varint_encode32 decoded into a guarded byte-store table" + (f" — {n1}" if n1 else ""), eb)
    ck.ob("C14-R2", "decode-shape-recognised", dec is not None and not n2, "varint_decode32 decoded into an OR-term table" + (f" — {n2}" if n2 else ""), db)
    if enc is None:
        return
    ck.extra.setdefault("varint_tables", {})[F.config] = {"encode": enc, "decode": dec, "scanner": scan}
    for key, ok, msg in varint.leb128_conditions(enc, dec, scan):
        rule = "C14-R1" if key.startswith("branch") or key in ("five-branches", "branches-partition-u32") else ("C14-R2" if key.startswith("decode") or key == "scanner-shape" else "C14-R3")
        ck.ob(rule, key, ok, msg, eb if rule == "C14-R1" else db)
    # scratch buffer large enough: every constant index store is below the buffer length handed in
    bw = F.body(A("bw_insert"))
    ve = calls(bw, A("varint_encode"))
    lens = []
    for s, c, t in ve:
        buf = bw.arg_exprs(s)[0]
        reps = [x for x in buf.walk() if x.k == "agg" and x.x.get("ak") == "repeat"]
        # the array type carries its length
        op = bw.at(s)["args"][0]
        ty = op["pl"]["ty"] if op["k"] in ("copy", "move") else ""
        e = bw.expr_of_operand(op, s)
        inner = [x for x in e.walk() if x.k == "cast" and "[u8;" in x.x.get("frm", "")]
        n = None
        for x in inner:
            m = re.search(r"\[u8; (\d+)\]", x.x["frm"])
            if m:
                n = int(m.group(1))
        lens.append(n)
    need = max((max(r["stores"]) + 1 if r["stores"] else 0) for r in enc)
    ck.ob("C14-R3", "scratch-buffer-holds-longest", bool(lens) and all(n is not None and n >= need for n in lens), f"scratch buffers passed to varint_encode32 have lengths {lens}; the longest encoding needs {need} bytes", bw)


def entry_frame_agreement(ck, F, R):
    """the entry frame as written by BlockWriter::insert and as read back by Block::entry_at (shared with C01-R11)"""
    w = fmt.entry_frame_write(F)
    ck.ob(R, "writer-order", w == [("varint", "len(key)", "u32"), ("varint", "len(val)", "u32"), ("bytes", "key"), ("bytes", "val")], f"BlockWriter::insert appends {w} (expected varint(key.len), varint(val.len), key, val)", F.body(A("bw_insert")))
    r = fmt.entry_frame_read(F)
    want = {"decode1_from": "s", "decode1_on_payload": True, "decode2_from": "n1+s", "decode2_on_payload": True, "key": ("n1+n2+s", "k+n1+n2+s"), "val": ("k+n1+n2+s", "k+n1+n2+s+v"), "returns_next": "k+n1+n2+s+v", "returns_key_val": [True, True]}
    got = dict(r)
    for k in ("key", "val"):
        if k in got:
            got[k] = tuple(got[k])
    ea = F.body(A("block_entry_at"))
    ck.ob(R, "reader-layout", got == want, f"Block::entry_at reads {r} (s = start, n1/n2 = consumed bytes, k/v = decoded lengths; expected key at s+n1+n2 .. +k, value right after, next = end of value)", ea)
    # no test of entry_at turns a well-formed entry into `None`
    gs = fmt.entry_none_guards(F)
    ck.floor(R, "end-of-payload tests in Block::entry_at", len(gs), 1, F.config)
    for ok, msg, site in gs:
        ck.ob(R, "none-only-past-the-entry", ok, "entry_at answers None only at the end of the payload or on malformed data — " + msg, ea, site)


def r4_use(ck, F):
    R = "C14-R4"
    entry_frame_agreement(ck, F, R)
    # the value handed to the encoder is the whole length, narrowed once
    bw = F.body(A("bw_insert"))
    for s, c, t in calls(bw, A("varint_encode")):
        v = bw.arg_exprs(s)[1].strip()
        ok = v.k == "cast" and v.x["to"] == "u32" and is_call(v.a[0], "::len")
        ck.ob(R, f"encodes-whole-length/{bw.loc(s)}", ok, f"varint_encode32(buf, {v.show()})", bw, s)


def r5_entries_guard(ck, F):
    """same guard in the sorter's Entries::insert (u32 lengths in EntryBound)"""
    R = "C14-R5"
    b = F.body(A("entries_insert"))
    found = 0
    for site, st in b.sites():
        if site.i is not None and st["s"] == "assign" and st["rv"]["rv"] == "bin" and st["rv"]["op"] in ("Le", "Lt", "Ge", "Gt"):
            e = b._expr_of_def((site, "assign", st["rv"]))
            x, y = e.a
            if e.x["op"] in ("Ge", "Gt"):
                x, y = y, x
            lim = const_val(strip_casts(y))
            if is_call(x, "::len") and x.strip().a[0].strip().k == "arg" and lim in (0xFFFFFFFF, 0x100000000):
                who = x.strip().a[0].strip().x["name"]
                ed = bool_edges(b, value_site=site)
                casts = [s for s, s_ in b.sites() if s.i is not None and s_["s"] == "assign" and s_["rv"]["rv"] == "cast" and s_["rv"]["to"] == "u32" and is_call(b.expr_of_operand(s_["rv"]["op"], s), "::len") and is_arg(b.expr_of_operand(s_["rv"]["op"], s).strip().a[0], who)]
                # ... or the checked spelling of the same narrowing (`u32::try_from(x.len()).expect(..)`), possibly of a
                # local that caches `x.len()`
                for s2, c2, t2 in b.calls():
                    e2 = b._expr_of_def((s2, "call", t2))
                    if e2.k == "cast" and e2.x.get("checked") and e2.x.get("to") == "u32" and is_call(e2.a[0], "::len") and is_arg(e2.a[0].strip().a[0], who):
                        casts.append(s2)
                ok = ed is not None and diverges(b, ed[2]) and len(casts) >= 1 and all(b.dominates(site, c) for c in casts)
                found += 1
                ck.ob(R, f"entries-length-limit/{who}", ok, f"Entries::insert: assert!({who}.len() <= u32::MAX) dominates `{who}.len() as u32` in config {F.config}", b, site)
    # the same limit spelled `assert!(u32::try_from(x.len()).is_ok())`, desugared into the match on the conversion
    for bb in sorted(b.normal_blocks()):
        if b.term(bb)["t"] != "switch":
            continue
        try:
            e, enum, labels, oth = switch_on(b, bb)
        except Exception:
            continue
        if e.k != "discr" or enum != "std::result::Result" or "Err" not in labels:
            continue
        a2 = e.a[0].strip()
        if not (a2.k == "call" and a2.a and (a2.x["path"].endswith(">::try_from") or a2.x["path"].endswith("::try_into")) and ((a2.x.get("info") or {}).get("args", [""])[0] == "u32" or "for u32" in a2.x["path"])):
            continue
        x = a2.a[0]
        if not (is_call(x, "::len") and x.strip().a[0].strip().k == "arg"):
            continue
        who = x.strip().a[0].strip().x["name"]
        site = Site(bb, None)
        casts = [s for s, s_ in b.sites() if s.i is not None and s_["s"] == "assign" and s_["rv"]["rv"] == "cast" and s_["rv"]["to"] == "u32" and is_call(b.expr_of_operand(s_["rv"]["op"], s), "::len") and is_arg(b.expr_of_operand(s_["rv"]["op"], s).strip().a[0], who)]
        for s2, c2, t2 in b.calls():
            e2 = b._expr_of_def((s2, "call", t2))
            if e2.k == "cast" and e2.x.get("checked") and e2.x.get("to") == "u32" and is_call(e2.a[0], "::len") and is_arg(e2.a[0].strip().a[0], who):
                casts.append(s2)
        ok = diverges(b, labels["Err"]) and len(casts) >= 1 and all(b.dominates(site, c) for c in casts)
        found += 1
        ck.ob(R, f"entries-length-limit/{who}", ok, f"Entries::insert: assert!(u32::try_from({who}.len()).is_ok()) dominates the narrowing of {who}.len() in config {F.config}", b, site)
    ck.floor(R, "length-limit assertions in Entries::insert", found, 2, F.config)


def r6_xver(ck):
    R = "C14-R6"
    F = ck.facts("default")
    G = ck.facts("v047")
    a = (varint.encode_table(F)[0], varint.decode_table(F)[0], varint.length_scanner(F))
    b = (varint.encode_table(G)[0], varint.decode_table(G)[0], varint.length_scanner(G))
    ck.ob(R, "tables-equal-0.4.7", a == b, "encode / decode / scanner tables extracted from the working tree equal those extracted from grenad 0.4.7", config="default+v047")
    ck.ob(R, "entry-frame-equal-0.4.7", fmt.entry_frame_write(F) == fmt.entry_frame_write(G) and fmt.entry_frame_read(F) == fmt.entry_frame_read(G), "entry framing (write order, read layout) equals grenad 0.4.7's", config="default+v047")
