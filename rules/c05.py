"""C05 — prefix iterators: every yielded entry is guarded by starts_with on the key being
yielded; positioning tables of both directions; the last-prefix helper and advance_key as arm
tables."""
from .common import *
from .c03 import return_alts, is_err_path, r5_wrappers, r3_reset
from .c01 import r7_mirror
from .c04 import cursor_calls

PID = "C05"
META = {
    "explanation": "Static analysis of PrefixIter / RevPrefixIter on the MIR of the current tree: (R1) each Ok(Some) exit is control-dependent on `key.starts_with(self.prefix)` of exactly the entry being yielded and there is no other success exit that can carry an entry; errors of the cursor are propagated, never folded into Ok(None); (R1, cont.) on the yield path no branch-steering field of the iterator is stored with anything but its constructor value, so a fused exhausted-state can only be entered when the range has ended; (R2) first call = >=-seek on the prefix (forward) / move_on_last_prefix on a copy of the prefix (reverse), later calls = exactly one step; (R3) move_on_last_prefix as a 3-arm table (no successor key -> last entry; successor key found exactly -> one step back; otherwise the current entry); (R4) advance_key as a 3-arm table (increment last byte if it does not overflow, else pop and retry, empty -> None). Soundness of the output on all paths is decided; completeness rests on C02 and on advance_key's value semantics, which R4 pins by shape only. The iterators run on this cursor over files this Writer emits: the shared file-wellformedness and cursor-traversal rules (rules/shared.py) are re-run as necessary conditions.",
    "assumptions": ["the seeks of C02", "u8::checked_add, slice::starts_with, Vec::pop contracts"],
}


def run(ck):
    for cfg in ck.configs():
        F = ck.facts(cfg)
        ck.guard("C05-R1", r1_guard, ck, F, "fwd")
        ck.guard("C05-R1", r1_guard, ck, F, "rev")
        ck.guard("C05-R2", r2_start, ck, F)
        ck.guard("C05-R3", r3_last_prefix, ck, F)
        ck.guard("C05-R4", r4_advance, ck, F)
        ck.guard("C05-R5", r5_wrappers, ck, F, "C05-R5")
        ck.guard("C05-R5", r7_mirror, ck, F, "C05-R5")
        ck.guard("C05-R5", r3_reset, ck, F, "C05-R5")
        # positioning goes through the seeks: their comparison tables are a necessary condition here too
        from .c02 import r2_descent, r3_rel, r4_offsets
        ck.guard("C05-R6", r2_descent, ck, F, "C05-R6")
        ck.guard("C05-R6", r3_rel, ck, F, "C05-R6")
        ck.guard("C05-R6", r4_offsets, ck, F, "C05-R6")
        from . import shared
        shared.file_wellformed(ck, F, "C05-R7")
        shared.cursor_traversal(ck, F, "C05-R5")
    ck.trusted += ["rustc MIR construction", "core slice::starts_with / u8::checked_add"]


NEXT = {"fwd": ("prefix_iter_next", "move_on_first_prefix", "move_on_next"), "rev": ("rev_prefix_iter_next", "move_on_last_prefix", "move_on_prev")}


def _flag_switch(b, flag):
    for bb in sorted(b.normal_blocks()):
        t = b.term(bb)
        if t["t"] == "switch":
            e = b.expr_of_operand(t["discr"], Site(bb, None))
            if is_self_field(e, flag):
                zero = [tb for v, tb in t["arms"] if int(v) == 0]
                if zero:
                    return bb, t["otherwise"], zero[0]
    return None


def r1_guard(ck, F, d):
    R = "C05-R1"
    anchor, flag, step = NEXT[d]
    b = F.body(A(anchor))
    sw = [c for c in byte_comparisons(b) if c["op"] == "starts_with"]
    if not sw and not byte_comparisons(b):
        # equivalent idiom: Ok(entry.filter(|(key, _)| key.starts_with(prefix)))
        if _filter_idiom(ck, R, F, b, d, anchor):
            for s, n, t in cursor_calls(b):
                _q(ck, R, b, s, f"{d}/{n}")
            return
    ck.exact(R, f"starts_with tests in {anchor}", len(sw), 1, F.config)
    # the positioning of the first call (C05-R3's table, which lives in the first-call region of the reverse
    # iterator) compares keys too; every other comparison must be the one guard
    fr = _first_region(F, d)
    first = fr[1] if fr else set()
    ck.exact(R, f"key comparisons in {anchor}", len([c for c in byte_comparisons(b) if c["site"].bb not in first]), 1, F.config)
    if len(sw) != 1:
        return
    c = sw[0]
    key = c["a"]
    tested = cursor_sources(key)
    entry = True
    ck.ob(R, f"tests-entry-key/{d}", tuple_part(key) == {0} and len(tested) >= 2, f"starts_with is applied to the key of the candidate entry, whichever cursor move produced it ({len(tested)} producing sites)", b, c["site"])
    ck.ob(R, f"tests-own-prefix/{d}", is_self_field(c["b"], "prefix"), f"... against self.prefix ({c['b'].show()[:50]})", b, c["site"])
    ed = bool_edges(b, value_site=c["site"])
    if not ck.ob(R, f"test-branches/{d}", ed is not None, "the verdict steers a branch", b, c["site"]):
        return
    sw_bb, t_t, f_t = ed
    somes, other = [], []
    for alt in return_alts(b):
        if is_err_path(alt):
            continue
        x = alt.a[0] if (alt.k == "agg" and alt.x.get("variant") == "Ok") else None
        if x is not None and x.k == "agg" and x.x.get("variant") == "Some":
            somes.append((alt, x))
        elif x is not None and x.k == "agg" and x.x.get("variant") == "None":
            pass
        elif alt.k == "agg" and alt.x.get("variant") == "Err":
            pass  # an explicit error exit carries no entry
        else:
            other.append(alt.show()[:90])
    ck.exact(R, f"Ok(Some(..)) exits of {anchor}", len(somes), 1, F.config)
    ck.ob(R, f"no-unguarded-exit/{d}", not other, "every success exit is Ok(None) or the guarded Ok(Some(entry))" + (f" — other exits: {other}" if other else ""), b)
    for alt, x in somes:
        s = alt.x.get("site")
        ck.ob(R, f"yield-guarded/{d}", s is not None and b.dominates(t_t, s.bb) and not b.dominates(f_t, s.bb), "the Ok(Some(entry)) exit is reached only through the starts_with == true edge", b, s)
        tup = x.a[0]
        same = tup.k == "agg" and len(tup.a) == 2 and tuple_part(tup.a[0]) == {0} and tuple_part(tup.a[1]) == {1} and cursor_sources(tup.a[0]) == tested and cursor_sources(tup.a[1]) == tested
        if not same and tup.k != "agg":
            # the payload of the cursor's Some(entry) handed over whole (entry.filter(..), Some(entry))
            def _some_payload(y):
                y = y.strip()
                if not (y.k == "field" and y.x.get("idx") == 0 and y.a[0].k == "downcast" and y.a[0].x.get("variant") == "Some"):
                    return False
                # what is unwrapped is the result of a cursor call on every path (`x?` of a join of calls, one of
                # them possibly re-wrapped: `Ok(cursor.current())`)
                for z in flat_alts(y.a[0].a[0].strip()):
                    z = z.strip()
                    if z.k == "agg" and z.x.get("variant") == "Ok" and z.a:
                        z = z.a[0].strip()
                    if z.k != "call":
                        return False
                return True
            whole = all(_some_payload(y) for y in flat_alts(tup))
            same = whole and cursor_sources(tup) == tested
        ck.ob(R, f"yield-is-tested-entry/{d}", same, "the yielded (key, value) are the two parts of the entry whose key was tested", b, s)
    _yield_leaves_no_state(ck, R, F, b, d, t_t, f_t)
    # errors are propagated: every cursor call is followed by `?`
    for s, n, t in cursor_calls(b):
        _q(ck, R, b, s, f"{d}/{n}")


def _yield_leaves_no_state(ck, R, F, b, d, t_t, f_t, adt=None, skip=("cursor", "prefix")):
    """A call that yields an entry leaves nothing behind but the cursor position: a field that steers a branch of
    next() (an "exhausted" / fused flag is fine as such, C05-R2 accepts a later state that touches nothing) is, on
    the starts_with == true path, only ever re-stored with the value the constructor gave it. Otherwise the next call
    can stop — or skip — although the entry just yielded says nothing about the ones that follow (C05-27)."""
    from .c03 import mutated_fields
    adt = adt or ("reader::prefix_iter::PrefixIter" if d == "fwd" else "reader::prefix_iter::RevPrefixIter")
    bad, seen = [], 0
    for f in sorted(mutated_fields(F, adt)):
        if f in skip or _flag_switch(b, f) is None:
            continue
        inits = {const_val(agg_field_expr(bb_, s, rv, f)) for bb_, s, rv in aggregates(F, adt)}
        for bb_, site, s_ in field_stores(F, adt, f):
            if bb_.path != b.path or not (b.dominates(t_t, site.bb) and not b.dominates(f_t, site.bb)):
                continue
            seen += 1
            v = const_val(bb_._expr_of_def((site, "assign", s_["rv"]))) if site.i is not None and "rv" in s_ else None
            if v is None or inits != {v}:
                bad.append(f"{f} := {'<computed>' if v is None else v} (constructor: {sorted(map(str, inits))})")
    ck.ob(R, f"yield-leaves-no-state/{d}", not bad, "on the membership-test == true path no branch-steering field of the iterator is stored with anything but its constructor value" + (f" — {bad}" if bad else f" ({seen} store(s) on that path)"), b)


def _filter_idiom(ck, R, F, b, d, anchor):
    """Ok(entry.filter(pred)) with pred = |(key, _)| key.starts_with(<self.prefix>)"""
    alts = [a for a in return_alts(b) if not is_err_path(a) and not (a.k == "agg" and a.x.get("variant") == "Err")]
    if len(alts) != 1:
        return False
    a = alts[0]
    x = a.a[0] if (a.k == "agg" and a.x.get("variant") == "Ok") else None
    if x is None or not (x.k == "call" and x.x["path"].endswith("Option::<T>::filter")):
        return False
    clo = x.a[1].strip()
    if not (clo.k == "agg" and clo.x.get("ak") == "closure"):
        return False
    cb = F.by_path.get(clo.x.get("closure"), [])
    if len(cb) != 1:
        return False
    cmps = byte_comparisons(cb[0])
    ok_one = len(cmps) == 1 and cmps[0]["op"] == "starts_with"
    ck.ob(R, f"filter-predicate/{d}", ok_one, f"{anchor} yields entry.filter(pred): pred contains exactly one comparison, a starts_with", cb[0])
    if not ok_one:
        return True
    c = cmps[0]
    key = c["a"].strip()
    ok_key = key.k == "field" and key.x["idx"] == 0 and key.a[0].strip().k == "arg" and key.a[0].strip().x["i"] == 2
    cap = c["b"].strip()
    ok_cap = cap.k == "field" and cap.a[0].strip().k == "arg" and cap.a[0].strip().x["i"] == 1
    ck.ob(R, f"tests-entry-key/{d}", ok_key, "the predicate applies starts_with to the key part of the candidate entry", cb[0], c["site"])
    ok_pref = ok_cap and len(clo.a) >= 1 and any(is_self_field(o, "prefix") for o in clo.a)
    ck.ob(R, f"tests-own-prefix/{d}", ok_pref, "... against the captured self.prefix", cb[0], c["site"])
    r = cb[0].expr_at_return()
    ck.ob(R, f"yield-guarded/{d}", r.strip().k == "call" and r.strip().x.get("site") == c["site"], "the predicate's verdict is the starts_with result (Option::filter keeps the entry iff it is true)", cb[0])
    ck.ob(R, f"no-unguarded-exit/{d}", True, "the only success exit is Ok(entry.filter(pred))", b, nontrivial=False)
    return True


def _q(ck, R, b, s, tag):
    from .errflow import propagated, is_fallible_result
    if not is_fallible_result(b.term(s.bb)["dest"]["ty"]):
        return   # `current()` cannot fail
    ck.ob(R, f"error-propagated/{tag}", propagated(b.facts, b, s), "the cursor's Result is propagated (`?` or an equivalent match): an I/O error is returned, not folded into end-of-iteration", b, s)


def _phase(F, adt, b):
    """the field that tells the first call from the later ones: a bool, or a field-less enum of the crate.
    Returns (field, initial value, {value: arm target}, switch block) — values are 0/1 or variant names"""
    fields = F.adts[adt]["variants"][0]["fields"]
    cands = []
    for f in fields:
        if f["ty"] == "bool":
            cands.append((f["name"], "bool"))
        elif f["ty"] in F.adts and F.adts[f["ty"]]["kind"] == "Enum" and all(not v["fields"] for v in F.adts[f["ty"]]["variants"]):
            cands.append((f["name"], "enum"))
    for name, kind in cands:
        for bb in sorted(b.normal_blocks()):
            t = b.term(bb)
            if t["t"] != "switch":
                continue
            e, enum, labels, oth = switch_on(b, bb)
            if kind == "bool" and is_self_field(e, name):
                zero = [tb for v, tb in t["arms"] if int(v) == 0]
                if zero:
                    return name, kind, {1: t["otherwise"], 0: zero[0]}, bb
            if kind == "enum" and e.k == "discr" and is_self_field(e.a[0], name):
                arms = dict(labels)
                return name, kind, arms, bb
    return None


def _first_region(F, d):
    """(body of next, blocks of its first-call arm, switch block, arms, first-call value) or None"""
    anchor, _flag, step = NEXT[d]
    b = F.body(A(anchor))
    adt = "reader::prefix_iter::PrefixIter" if d == "fwd" else "reader::prefix_iter::RevPrefixIter"
    ph = _phase(F, adt, b)
    if ph is None:
        return None
    flag, kind, arms, sw = ph
    init = set()
    for bb_, s, rv in aggregates(F, adt):
        init.add(_phase_val(kind, agg_field_expr(bb_, s, rv, flag)))
    if len(init) != 1 or None in init or next(iter(init)) not in arms:
        return None
    v0 = next(iter(init))
    return b, arm_region(b, sw, arms[v0]), sw, arms, v0


def _phase_val(kind, e):
    if kind == "bool":
        return const_val(e)
    e = e.strip()
    if e.k == "agg" and not e.a:
        return e.x.get("variant")
    if e.k == "text":
        return e.x.get("variant")
    return None


def r2_start(ck, F):
    R = "C05-R2"
    for d in ("fwd", "rev"):
        anchor, _flag, step = NEXT[d]
        b = F.body(A(anchor))
        adt = "reader::prefix_iter::PrefixIter" if d == "fwd" else "reader::prefix_iter::RevPrefixIter"
        ph = _phase(F, adt, b)
        if not ck.ob(R, f"flag-read/{d}", ph is not None, f"{anchor} branches on the field that tells the first call from the later ones", b):
            continue
        flag, kind, arms, sw = ph

        def val(e):
            if kind == "bool":
                return const_val(e)
            e = e.strip()
            if e.k == "agg" and not e.a:
                return e.x.get("variant")
            if e.k == "text":
                return e.x.get("variant")
            return None
        init = set()
        for bb_, s, rv in aggregates(F, adt):
            v0 = val(agg_field_expr(bb_, s, rv, flag))
            init.add(v0)
            ck.ob(R, f"flag-initially-true/{d}", v0 is not None and v0 in arms and is_arg(agg_field_expr(bb_, s, rv, "prefix"), "prefix") and is_arg(agg_field_expr(bb_, s, rv, "cursor"), "cursor"), f"new(): {flag} = {v0} (the first-call state), prefix and cursor stored as given", bb_, s)
        if len(init) != 1 or None in init:
            ck.ob(R, f"flag-read/{d}", False, f"initial value of {flag} not unique: {init}", b)
            continue
        v0 = init.pop()
        first = arm_region(b, sw, arms[v0])
        st = field_stores(F, adt, flag)
        ck.floor(R, f"stores to {flag}", len(st), 1, F.config)
        cleared = False
        for bb_, site, s_ in st:
            v = val(bb_._expr_of_def((site, "assign", s_["rv"])))
            ck.ob(R, f"flag-never-rearmed/{d}", bb_.path == b.path and v is not None and v != v0, f"{flag} := {v} in {bb_.path.split('::')[-1]} (never set back to the first-call state {v0})", bb_, site)
            if bb_.path == b.path and site.bb in first and v != v0:
                cleared = True
        ck.ob(R, f"flag-cleared-first/{d}", cleared, "the first-call state is left on the first-call path", b)
        for v, tgt in arms.items():
            if v == v0:
                continue
            reg = arm_region(b, sw, tgt)
            lc = [n for s, n, t in cursor_calls(b, reg)]
            # a later state either advances by exactly one step or (an "exhausted" state) touches nothing
            ck.ob(R, f"later-calls-one-step/{d}", lc in ([step], []), f"state {v}: {lc} (expected exactly one {step}, or no cursor operation at all)", b)
        if d == "fwd":
            fc = cursor_calls(b, first)
            ok = [n for s, n, t in fc] == ["move_on_key_greater_than_or_equal_to"] and is_self_field(b.arg_exprs(fc[0][0])[1], "prefix") and is_self_field(b.arg_exprs(fc[0][0])[0], "cursor")
            ck.ob(R, "first-call/fwd", ok, f"first call: {[n for s, n, t in fc]} on self.prefix", b)
        else:
            # the positioning on the last key of the prefix (move_on_last_prefix, spliced into this region when it is
            # a function of its own): every cursor operation of the region works on self.cursor; what they do is C05-R3
            fc = cursor_calls(b, first)
            ok = bool(fc) and all(is_self_field(b.arg_exprs(s)[0], "cursor") for s, n, t in fc)
            ck.ob(R, "first-call/rev", ok, f"first call: positions self.cursor on the last key of the prefix ({sorted({n for s, n, t in fc})}, table in C05-R3)", b)
    # stores to prefix: none after construction
    for adt in ("reader::prefix_iter::PrefixIter", "reader::prefix_iter::RevPrefixIter"):
        from .c03 import mutated_fields
        mf = mutated_fields(F, adt)
        ck.ob(R, f"prefix-immutable/{adt.split('::')[-1]}", "prefix" not in mf, f"the prefix is never modified after construction (mutated fields: {sorted(mf)})", config=F.config)


def r3_last_prefix(ck, F):
    R = "C05-R3"
    fr = _first_region(F, "rev")
    if not ck.ob(R, "first-call-region", fr is not None, "RevPrefixIter::next has a first-call region (the helper move_on_last_prefix, when it exists, is spliced into it)", F.body(A(NEXT["rev"][0]))):
        return
    b, first = fr[0], fr[1]
    adv = [x for x in calls(b, A("advance_key")) if x[0].bb in first]
    ck.exact(R, "advance_key calls", len(adv), 1, F.config)
    ck.exact(R, "advance_key calls outside the first call", len([x for x in calls(b, A("advance_key")) if x[0].bb not in first]), 0, F.config)
    if not adv:
        return
    ck.ob(R, "advance-own-prefix", is_self_field(b.arg_exprs(adv[0][0])[0], "prefix"), "advance_key is applied to (a copy of) self.prefix", b, adv[0][0])
    sw = None
    for bb in sorted(first):
        if b.term(bb)["t"] == "switch":
            e, enum, labels, oth = switch_on(b, bb)
            if e.k == "discr" and e.a[0].strip().k == "call" and e.a[0].strip().x.get("site") == adv[0][0]:
                sw = (bb, labels)
    if not ck.ob(R, "match-on-successor", sw is not None and set(sw[1]) == {"Some", "None"}, "matches on advance_key's Option", b):
        return
    bb, labels = sw
    none_calls = [n for s, n, t in cursor_calls(b, arm_region(b, bb, labels["None"]))]
    ck.ob(R, "arm/no-successor", none_calls == ["move_on_last"], f"no successor key (empty / all-0xFF prefix) -> {none_calls} (expected [move_on_last])", b)
    reg = arm_region(b, bb, labels["Some"])
    cl = cursor_calls(b, reg)
    names = [n for s, n, t in cl]
    ck.ob(R, "arm/successor-calls", sorted(names) == sorted(["move_on_key_lower_than_or_equal_to", "current", "move_on_prev"]), f"successor arm uses {names}", b)
    seek = [s for s, n, t in cl if n == "move_on_key_lower_than_or_equal_to"]
    if seek:
        a = b.arg_exprs(seek[0])
        pay = unwrap_payload(a[1], "Some")
        ck.ob(R, "seeks-successor", pay is not None and pay.strip().x.get("site") == adv[0][0], f"<=-seek on the successor key ({a[1].show()[:70]})", b, seek[0])
        cmps = [c for c in byte_comparisons(b) if c["site"].bb in first]
        ck.exact(R, "comparisons in move_on_last_prefix", len(cmps), 1, F.config)
        for c in cmps:
            x, y = c["a"], c["b"]
            stored_first = any(e.k == "call" and e.x.get("site") == seek[0] for e in x.walk())
            if not stored_first:
                x, y = y, x
            okr = c["op"] == "==" and any(e.k == "call" and e.x.get("site") == seek[0] for e in x.walk()) and x.strip().k == "field" and x.strip().x["idx"] == 0 and any(e.k == "call" and e.x.get("site") == adv[0][0] for e in y.walk())
            ck.ob(R, "exact-successor-relation", okr, f"`stored {c['op']} successor` on the key the <=-seek returned", b, c["site"])
            ed = bool_edges(b, value_site=c["site"])
            prev = [s for s, n, t in cl if n == "move_on_prev"]
            cur = [s for s, n, t in cl if n == "current"]
            ok = ed is not None and len(prev) == 1 and len(cur) == 1 and b.dominates(ed[1], prev[0].bb) and not b.dominates(ed[2], prev[0].bb) and not b.dominates(ed[1], cur[0].bb)
            ck.ob(R, "arm/successor-present", ok, "the successor key itself is stored => one move_on_prev; otherwise (smaller key or nothing) => the cursor's current entry", b, c["site"])


def r4_advance(ck, F):
    R = "C05-R4"
    b = F.body(A("advance_key"))
    names = [callee_name(c).rsplit("::", 1)[-1] for s, c, t in b.calls()]
    names = [n for n in names if n not in ("branch", "from_residual")]      # `x?` on an Option: plumbing, not an operation
    if "rposition" in names:
        return _advance_rposition(ck, R, F, b, names)
    ck.ob(R, "calls", sorted(names) == sorted(["deref_mut", "last_mut", "checked_add", "pop"]), f"advance_key calls {names}", b, nontrivial=False)
    lm = calls(b, "::last_mut")
    ca = calls(b, "::checked_add")
    pp = calls(b, "Vec::<T, A>::pop")
    if not (len(lm) == 1 and len(ca) == 1 and len(pp) == 1):
        ck.ob(R, "shape", False, "advance_key is `while let Some(x) = bytes.last_mut() { match x.checked_add(1) { Some(y) => {*x = y; return Some(bytes)} None => bytes.pop() } } None`", b)
        return
    a = b.arg_exprs(ca[0][0])
    last = unwrap_payload(a[0], "Some")
    ck.ob(R, "increments-last-byte-by-one", last is not None and last.strip().x.get("site") == lm[0][0] and const_val(a[1]) == 1 and is_arg(b.arg_exprs(lm[0][0])[0], "bytes"),
          f"checked_add({a[0].show()[:40]}, {a[1].show()}) on the last byte of the key", b, ca[0][0])
    # arms of checked_add
    sw = None
    for bb in sorted(b.normal_blocks()):
        if b.term(bb)["t"] == "switch":
            e, enum, labels, oth = switch_on(b, bb)
            if e.k == "discr" and e.a[0].strip().k == "call" and e.a[0].strip().x.get("site") == ca[0][0]:
                sw = (bb, labels)
    if not ck.ob(R, "match-on-checked-add", sw is not None, "matches on checked_add's Option", b):
        return
    bb, labels = sw
    some_reg = arm_region(b, bb, labels["Some"])
    none_reg = arm_region(b, bb, labels["None"])
    # Some: store through the last_mut reference, return Some(bytes)
    wr = [s for s, st in b.sites() if s.i is not None and s.bb in some_reg and st["s"] == "assign" and st["pl"]["p"] == ["*"]]
    okw = False
    for s in wr:
        tgt = b.expr_of_local(b.at(s)["pl"]["l"], s)
        val = b._expr_of_def((s, "assign", b.at(s)["rv"]))
        p = unwrap_payload(val, "Some")
        if unwrap_payload(tgt, "Some") is not None and p is not None and p.strip().x.get("site") == ca[0][0]:
            okw = True
    rets = [(alt, alt.x.get("site")) for alt in return_alts(b)]
    some_ret = [alt for alt, s in rets if alt.k == "agg" and alt.x.get("variant") == "Some" and s and s.bb in some_reg and is_arg(alt.a[0], "bytes")]
    ck.ob(R, "arm/no-overflow", okw and len(some_ret) == 1, "byte < 0xFF: the incremented byte is written back and Some(bytes) is returned", b)
    ck.ob(R, "arm/overflow", pp[0][0].bb in none_reg and is_arg(b.arg_exprs(pp[0][0])[0], "bytes") and b.in_loop(pp[0][0].bb), "byte == 0xFF: the byte is popped and the loop continues with the shorter key", b, pp[0][0])
    from .c03 import _is_none_alt
    none_ret = [alt for alt, s in rets if _is_none_alt(alt)]
    # loop exit on empty
    lsw = None
    for bb2 in sorted(b.normal_blocks()):
        if b.term(bb2)["t"] == "switch":
            e, enum, labels2, oth = switch_on(b, bb2)
            if e.k == "discr" and e.a[0].strip().k == "call" and e.a[0].strip().x.get("site") == lm[0][0]:
                lsw = labels2
            elif e.k == "discr" and e.a[0].k == "call" and e.a[0].x["path"].endswith("Try>::branch") and e.a[0].a and e.a[0].a[0].strip().k == "call" and e.a[0].a[0].strip().x.get("site") == lm[0][0] and "Break" in labels2:
                lsw = {"None": labels2["Break"], "Some": labels2.get("Continue")}      # `bytes.last_mut()?`
    ok = lsw is not None and len(none_ret) == 1 and none_ret[0].x.get("site") is not None and b.dominates(lsw["None"], none_ret[0].x["site"].bb) and len(rets) == 2
    ck.ob(R, "arm/empty", ok, "no byte left: None is returned (and these are the only two exits)", b)


def _advance_rposition(ck, R, F, b, names):
    """second accepted idiom of advance_key:
         let last = bytes.iter().rposition(|&b| b != 0xFF)?;  bytes.truncate(last + 1);  bytes[last] += 1;  Some(bytes)
    — the same three arms: the last byte that is not 0xFF is incremented, the 0xFF bytes after it are dropped, and
    a key made only of 0xFF bytes (or empty) has no successor."""
    if "truncate" not in names and "push" in names:
        return _advance_rposition_copy(ck, R, F, b, names)
    if "truncate" not in names and "to_vec" in names:
        return _advance_rposition_tovec(ck, R, F, b, names)
    ck.ob(R, "calls", set(names) <= {"deref", "deref_mut", "iter", "rposition", "branch", "from_residual", "truncate", "index_mut", "index"}, f"advance_key calls {names}", b, nontrivial=False)
    rp = calls(b, "::rposition")
    tr = calls(b, "Vec::<T, A>::truncate") or calls(b, "::truncate")
    if not (len(rp) == 1 and len(tr) == 1 and not b.loops()):
        ck.ob(R, "shape", False, "advance_key is neither the last_mut/checked_add/pop loop nor rposition(!= 0xFF)? / truncate(last + 1) / bytes[last] += 1", b)
        return
    recv = b.arg_exprs(rp[0][0])[0]
    over_bytes = any(x.k == "arg" and x.x.get("name") == "bytes" for x in recv.walk()) and any(x.k == "call" and x.x["path"].endswith("::iter") for x in recv.walk()) \
        and not any(x.k == "call" and x.x["path"].rsplit("::", 1)[-1] in ("rev", "skip", "take", "step_by", "filter", "map") for x in recv.walk())
    cl = F.closures_of(b.path)
    pred_ok = False
    if len(cl) == 1:
        r = cl[0].expr_at_return().strip()
        if r.k == "bin" and r.x.get("op") in ("Ne", "Lt"):
            x, y = r.a[0].strip(), r.a[1].strip()
            pred_ok = x.k == "arg" and x.x["i"] == 2 and const_val(y) == 255
    ck.ob(R, "arm/overflow", over_bytes and pred_ok, "trailing 0xFF bytes are skipped: rposition over bytes.iter() with the predicate `byte != 0xFF` finds the last byte that can be incremented", b, rp[0][0])
    ta = b.arg_exprs(tr[0][0])
    c_ = checked(ta[1])
    ok_t = is_arg(ta[0], "bytes") and bool(c_) and c_[0] == "Add" and const_val(c_[2]) == 1 and _is_last(c_[1], rp[0][0])
    ck.ob(R, "arm/overflow-truncates", ok_t, f"the bytes after it are dropped: truncate(bytes, {ta[1].show()[:60]}) = truncate(last + 1)", b, tr[0][0])
    # bytes[last] += 1
    okw = False
    wsite = None
    for s, st in b.sites():
        if s.i is not None and st["s"] == "assign" and st["pl"]["p"] == ["*"]:
            tgt = b.expr_of_local(st["pl"]["l"], s).strip()
            val = b._expr_of_def((s, "assign", st["rv"]))
            cv = checked(val)
            if tgt.k == "call" and tgt.x["path"].endswith("::index_mut") and is_arg(tgt.a[0], "bytes") and _is_last(tgt.a[1], rp[0][0]) \
                    and cv and cv[0] == "Add" and const_val(cv[2]) == 1 and cv[1].strip().ident() == tgt.ident():
                okw = True
                wsite = s
    ck.ob(R, "increments-last-byte-by-one", okw, "bytes[last] = bytes[last] + 1 on the byte rposition found", b, wsite)
    rets = return_alts(b)
    some_ret = [alt for alt in rets if alt.k == "agg" and alt.x.get("variant") == "Some" and is_arg(alt.a[0], "bytes")]
    none_ret = [alt for alt in rets if (alt.k == "agg" and alt.x.get("variant") == "None") or (alt.k == "call" and alt.x["path"].endswith("::from_residual") and any(x.k == "call" and x.x.get("site") == rp[0][0] for x in alt.walk()))]
    ok_s = len(some_ret) == 1 and wsite is not None and some_ret[0].x.get("site") is not None and b.dominates(wsite, some_ret[0].x["site"]) and b.dominates(tr[0][0], some_ret[0].x["site"])
    ck.ob(R, "arm/no-overflow", ok_s, "after the increment and the truncation Some(bytes) is returned", b)
    ck.ob(R, "arm/empty", len(none_ret) == 1 and len(rets) == 2, "no byte can be incremented (rposition is None): None is returned (and these are the only two exits)", b)


def _is_last(e, site):
    """e is the index rposition (called at `site`) returned — through `?` or a match"""
    s = e.strip()
    if s.k == "call" and s.x.get("site") == site:
        return True
    p = unwrap_payload(e, "Some")
    if p is not None and p.strip().k == "call" and p.strip().x.get("site") == site:
        return True
    return False


def _rposition_not_ff(F, b, rp):
    """the rposition call scans the given key (no adaptor in between) for the last byte that is not 0xFF"""
    recv = b.arg_exprs(rp[0])[0]
    over = any(x.k == "arg" and x.x.get("name") == "bytes" for x in recv.walk()) and any(x.k == "call" and x.x["path"].endswith("::iter") for x in recv.walk()) \
        and not any(x.k == "call" and x.x["path"].rsplit("::", 1)[-1] in ("rev", "skip", "take", "step_by", "filter", "map") for x in recv.walk())
    cl = F.closures_of(b.path)
    pred_ok = False
    if len(cl) == 1:
        r = cl[0].expr_at_return().strip()
        if r.k == "bin" and r.x.get("op") in ("Ne", "Lt"):
            x, y = r.a[0].strip(), r.a[1].strip()
            pred_ok = x.k == "arg" and x.x["i"] == 2 and const_val(y) == 255
    return over and pred_ok


def _advance_rposition_copy(ck, R, F, b, names):
    """third accepted idiom of advance_key — the successor is built in a new vector:
         let last = bytes.iter().rposition(|b| *b != 0xFF)?;
         let mut next = Vec::with_capacity(..); next.extend_from_slice(&bytes[..last]); next.push(bytes[last] + 1); Some(next)"""
    allowed = {"as_ref", "deref", "iter", "rposition", "branch", "from_residual", "with_capacity", "new", "extend_from_slice", "push", "index", "as_slice", "starts_with", "gt", "lt", "begin_panic", "panic", "panic_fmt"}
    ck.ob(R, "calls", set(names) <= allowed, f"advance_key calls {names}", b, nontrivial=False)
    rp = calls(b, "::rposition")
    ext = [s for s, c, t in calls(b, "Vec::<T, A>::extend_from_slice")]
    psh = [s for s, c, t in calls(b, "Vec::<T, A>::push")]
    if not (len(rp) == 1 and len(ext) == 1 and len(psh) == 1 and not b.loops()):
        ck.ob(R, "shape", False, "advance_key is none of the three recognised forms (last_mut/checked_add/pop loop; rposition + truncate + increment in place; rposition + copy of the head + incremented byte)", b)
        return
    ck.ob(R, "arm/overflow", _rposition_not_ff(F, b, rp[0]), "trailing 0xFF bytes are skipped: rposition over bytes.iter() with the predicate `byte != 0xFF` finds the last byte that can be incremented", b, rp[0][0])
    ea, pa = b.arg_exprs(ext[0]), b.arg_exprs(psh[0])
    same_vec = ea[0].strip().ident() == pa[0].strip().ident() or (ea[0].strip().k == pa[0].strip().k == "call" and ea[0].strip().x.get("site") == pa[0].strip().x.get("site"))
    head = ea[1].strip()
    ok_head = head.k == "call" and head.x["path"].endswith("::index") and any(x.k == "arg" and x.x.get("name") == "bytes" for x in head.a[0].walk()) and head.a[1].k == "agg" \
        and (head.a[1].x.get("adt") or "").endswith("RangeTo") and _is_last(head.a[1].a[0], rp[0][0])
    ck.ob(R, "arm/overflow-truncates", same_vec and ok_head and b.dominates(ext[0], psh[0]), f"the successor starts with the bytes before that position: extend_from_slice(&bytes[..last]) ({ea[1].show()[:60]}), then one more byte", b, ext[0])
    cv = checked(pa[1])
    ok_inc = False
    if cv and cv[0] == "Add" and const_val(cv[2]) == 1:
        x = cv[1].strip()
        ok_inc = (x.k == "index" and any(w.k == "arg" and w.x.get("name") == "bytes" for w in x.a[0].walk()) and len(x.a) > 1 and _is_last(x.a[1], rp[0][0])) or \
                 (x.k == "call" and x.x["path"].endswith("::index") and any(w.k == "arg" and w.x.get("name") == "bytes" for w in x.a[0].walk()) and _is_last(x.a[1], rp[0][0]))
    ck.ob(R, "increments-last-byte-by-one", ok_inc, f"the last byte of the successor is bytes[last] + 1 ({pa[1].show()[:60]})", b, psh[0])
    rets = return_alts(b)
    some_ret = [alt for alt in rets if alt.k == "agg" and alt.x.get("variant") == "Some"]
    none_ret = [alt for alt in rets if (alt.k == "agg" and alt.x.get("variant") == "None") or (alt.k == "call" and alt.x["path"].endswith("::from_residual") and any(x.k == "call" and x.x.get("site") == rp[0][0] for x in alt.walk()))]
    ok_s = len(some_ret) == 1 and some_ret[0].x.get("site") is not None and b.dominates(psh[0], some_ret[0].x["site"]) and some_ret[0].a[0].strip().ident() == pa[0].strip().ident()
    ck.ob(R, "arm/no-overflow", bool(ok_s), "after the head and the incremented byte were appended, Some(that vector) is returned", b)
    ck.ob(R, "arm/empty", len(none_ret) == 1 and len(rets) == 2, "no byte can be incremented (rposition is None): None is returned (and these are the only two exits)", b)


def _advance_rposition_tovec(ck, R, F, b, names):
    """fourth accepted idiom of advance_key — the head is copied, then its last byte incremented in place:
         let last = bytes.iter().rposition(|&b| b != 0xFF)?;  let mut next = bytes[..=last].to_vec();  next[last] += 1;  Some(next)"""
    allowed = {"as_ref", "deref", "deref_mut", "iter", "rposition", "branch", "from_residual", "to_vec", "index", "index_mut", "as_slice", "starts_with", "gt", "lt", "begin_panic", "panic", "panic_fmt"}
    ck.ob(R, "calls", set(names) <= allowed, f"advance_key calls {names}", b, nontrivial=False)
    rp = calls(b, "::rposition")
    tv = [s for s, c, t in b.calls() if c and callee_name(c).endswith("::to_vec")]
    if not (len(rp) == 1 and len(tv) == 1 and not b.loops()):
        ck.ob(R, "shape", False, "advance_key is none of the recognised forms", b)
        return
    ck.ob(R, "arm/overflow", _rposition_not_ff(F, b, rp[0]), "trailing 0xFF bytes are skipped: rposition over bytes.iter() with the predicate `byte != 0xFF` finds the last byte that can be incremented", b, rp[0][0])
    src = b.arg_exprs(tv[0])[0].strip()
    ok_head = False
    if src.k == "call" and src.x["path"].endswith("::index") and any(x.k == "arg" and x.x.get("name") == "bytes" for x in src.a[0].walk()) and src.a[1].k == "agg":
        rng = src.a[1]
        kind = (rng.x.get("adt") or "").rsplit("::", 1)[-1]
        if kind == "RangeToInclusive" and _is_last(rng.a[0], rp[0][0]):
            ok_head = True
        if kind == "RangeTo":
            c_ = checked(rng.a[0])
            ok_head = bool(c_ and c_[0] == "Add" and const_val(c_[2]) == 1 and _is_last(c_[1], rp[0][0]))
    ck.ob(R, "arm/overflow-truncates", ok_head, f"the successor is a copy of bytes[..=last] ({src.show()[:60]}): the bytes after the incrementable one are dropped", b, tv[0])
    okw, wsite = False, None
    for s_, st in b.sites():
        if s_.i is not None and st["s"] == "assign" and st["pl"]["p"] == ["*"]:
            tgt = b.expr_of_local(st["pl"]["l"], s_).strip()
            cv = checked(b._expr_of_def((s_, "assign", st["rv"])))
            if tgt.k == "call" and tgt.x["path"].endswith("::index_mut") and _is_call_at(tgt.a[0], tv[0]) and _is_last(tgt.a[1], rp[0][0]) \
                    and cv and cv[0] == "Add" and const_val(cv[2]) == 1 and cv[1].strip().ident() == tgt.ident():
                okw, wsite = True, s_
    ck.ob(R, "increments-last-byte-by-one", okw, "next[last] = next[last] + 1 on the byte rposition found (the last byte of the copy)", b, wsite)
    rets = return_alts(b)
    some_ret = [alt for alt in rets if alt.k == "agg" and alt.x.get("variant") == "Some"]
    none_ret = [alt for alt in rets if (alt.k == "agg" and alt.x.get("variant") == "None") or (alt.k == "call" and alt.x["path"].endswith("::from_residual") and any(x.k == "call" and x.x.get("site") == rp[0][0] for x in alt.walk()))]
    ok_s = len(some_ret) == 1 and wsite is not None and some_ret[0].x.get("site") is not None and b.dominates(wsite, some_ret[0].x["site"]) and _is_call_at(some_ret[0].a[0], tv[0])
    ck.ob(R, "arm/no-overflow", ok_s, "after the increment Some(that copy) is returned", b)
    ck.ob(R, "arm/empty", len(none_ret) == 1 and len(rets) == 2, "no byte can be incremented (rposition is None): None is returned (and these are the only two exits)", b)


def _is_call_at(e, site):
    """e is (a borrow of) the result of the call at `site` — without looking through calls that copy their argument"""
    while e.k in ("ref", "deref"):
        e = e.a[0]
    return e.k == "call" and e.x.get("site") == site
